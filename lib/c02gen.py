"""Generator of valid WGSL programs for C02: control-flow shapes (nested if / else-if /
loop+continuing+break-if / for / while / switch, break / continue / return / discard in odd
places, calls, pointer parameters) and type/resource shapes (uniform and storage structs
with matrices, arrays, nested structs, runtime arrays, atomics, textures, samplers,
storage textures, stage IO with builtins and interpolation) that golden files happen
not to contain.  Programs naga's front end rejects are counted and skipped by the check."""

SCALARS = ["f32", "i32", "u32"]


class G:
    def __init__(self, rng):
        self.r = rng
        self.n = 0

    def fresh(self, p="v"):
        self.n += 1
        return "%s%d" % (p, self.n)

    # ---- expressions ----
    def iexpr(self, env, d=0):
        r = self.r
        ivars = env["i"]
        k = r.below(10 if d < 3 else 3)
        if k == 0 or not ivars:
            return str(r.range(-3, 9)) if r.chance(3, 4) else "i32(%du)" % r.below(7)
        if k in (1, 2):
            return r.choice(ivars)
        if k == 3:
            return "(%s %s %s)" % (self.iexpr(env, d + 1), r.choice(["+", "-", "*", "&", "|", "^"]), self.iexpr(env, d + 1))
        if k == 4:
            return "(%s %s %s)" % (self.iexpr(env, d + 1), r.choice(["/", "%"]), self.iexpr(env, d + 1))
        if k == 5:
            # shifted operand is a variable: a literal there hits a known front-end typing defect (see known_findings)
            return "(%s %s %du)" % (r.choice(ivars), r.choice(["<<", ">>"]), r.below(31))
        if k == 6:
            return "select(%s, %s, %s)" % (self.iexpr(env, d + 1), self.iexpr(env, d + 1), self.cond(env, d + 1))
        if k == 7:
            return r.choice(["abs", "countOneBits", "reverseBits"]) + "(%s)" % self.iexpr(env, d + 1)
        if k == 8 and env.get("helper"):
            return "%s(%s, &%s)" % (env["helper"], self.iexpr(env, d + 1), r.choice(env["ptrable"])) if env.get("ptrable") else self.iexpr(env, d + 1)
        return "i32(%s)" % self.fexpr(env, d + 1)

    def fexpr(self, env, d=0):
        r = self.r
        fv = env["f"]
        k = r.below(9 if d < 3 else 2)
        if k == 0 or not fv:
            return "%d.%d" % (r.below(5), r.below(10))
        if k == 1:
            return r.choice(fv)
        if k == 2:
            return "(%s %s %s)" % (self.fexpr(env, d + 1), r.choice(["+", "-", "*", "/"]), self.fexpr(env, d + 1))
        if k == 3:
            return r.choice(["sin", "cos", "sqrt", "abs", "floor", "fract", "exp2", "saturate"]) + "(%s)" % self.fexpr(env, d + 1)
        if k == 4:
            return r.choice(["min", "max", "pow", "step"]) + "(%s, %s)" % (self.fexpr(env, d + 1), self.fexpr(env, d + 1))
        if k == 5:
            return "f32(%s)" % self.iexpr(env, d + 1)
        if k == 6 and env.get("res"):
            return r.choice(env["res"])
        if k == 7:
            if r.chance(1, 12):
                return r.choice(["bump_a()", "bump_b()"])
            return "clamp(%s, 0.0, 1.0)" % self.fexpr(env, d + 1)
        return "mix(%s, %s, 0.5)" % (self.fexpr(env, d + 1), self.fexpr(env, d + 1))

    def cond(self, env, d=0):
        r = self.r
        k = r.below(6 if d < 3 else 2)
        if k == 0:
            return "(%s %s %s)" % (self.iexpr(env, d + 1), r.choice(["<", "<=", ">", ">=", "==", "!="]), self.iexpr(env, d + 1))
        if k == 1:
            return "(%s %s %s)" % (self.fexpr(env, d + 1), r.choice(["<", ">", "<=", ">="]), self.fexpr(env, d + 1))
        if k == 2:
            return "(%s %s %s)" % (self.cond(env, d + 1), r.choice(["&&", "||"]), self.cond(env, d + 1))
        if k == 3:
            return "!%s" % self.cond(env, d + 1)
        if k == 4 and env["b"]:
            return r.choice(env["b"])
        if r.chance(1, 2):
            return "%s(vec2<i32>(pv, %s) < vec2<i32>(%s))" % (r.choice(["all", "any"]), self.iexpr(env, d + 1), self.iexpr(env, d + 1))
        return "(vec2<i32>(pv, %s) < vec2<i32>(%s)).%s" % (self.iexpr(env, d + 1), self.iexpr(env, d + 1), r.choice("xy"))

    # ---- statements ----
    def block(self, env, depth, ctx, ind):
        """returns (lines, falls_through)"""
        r = self.r
        env = {k: (list(v) if isinstance(v, list) else v) for k, v in env.items()}
        out = []
        n = r.range(1, 4 if depth < 3 else 2)
        for _ in range(n):
            lines, ft = self.stmt(env, depth, ctx, ind)
            out += lines
            if not ft:
                return out, False
        return out, True

    def stmt(self, env, depth, ctx, ind):
        r = self.r
        p = "    " * ind
        deep = depth >= 4
        k = r.below(22)
        if k < 3:
            v = self.fresh()
            out = [p + "var %s: i32 = %s;" % (v, self.iexpr(env))]
            env["i"].append(v)
            env["ptrable"].append(v)
            return out, True
        if k == 3:
            v = self.fresh("fl")
            env_line = p + "var %s = %s;" % (v, self.fexpr(env))
            env["f"].append(v)
            return [env_line], True
        if k == 4:
            v = self.fresh("bb")
            line = p + "let %s = %s;" % (v, self.cond(env))
            env["b"].append(v)
            return [line], True
        if k in (5, 6) and env["ptrable"]:
            return [p + "%s %s %s;" % (r.choice(env["ptrable"]), r.choice(["=", "+=", "-=", "*=", "^=", "|="]), self.iexpr(env))], True
        if k == 7 and env.get("effects"):
            return [p + r.choice(env["effects"])(self, env)], True
        if k in (8, 9, 10) and not deep:
            c = self.cond(env)
            t, ft1 = self.block(env, depth + 1, ctx, ind + 1)
            out = [p + "if %s {" % c] + t
            ft = ft1
            nelse = r.below(3)
            has_else = False
            for j in range(nelse):
                if j == nelse - 1 and r.chance(1, 2):
                    e, fte = self.block(env, depth + 1, ctx, ind + 1)
                    out += [p + "} else {"] + e
                    ft = ft or fte
                    has_else = True
                else:
                    e, fte = self.block(env, depth + 1, ctx, ind + 1)
                    out += [p + "} else if %s {" % self.cond(env)] + e
                    ft = ft or fte
            out.append(p + "}")
            return out, (ft or not has_else)
        if k in (11, 12) and not deep:
            # loop with optional continuing / break if
            c2 = dict(ctx, loop=True, switch=False, continuing=False)
            body, ft = self.block(env, depth + 1, c2, ind + 1)
            out = [p + "loop {"] + body
            if ft and r.chance(2, 3):
                out.append(p + "    if %s { break; }" % self.cond(env))
            if ft:
                if r.chance(1, 2):
                    cv = r.choice(env["ptrable"]) if env["ptrable"] else None
                    out.append(p + "    continuing {")
                    if cv:
                        out.append(p + "        %s += 1;" % cv)
                    if r.chance(2, 3):
                        out.append(p + "        break if %s;" % self.cond(env))
                    out.append(p + "    }")
            out.append(p + "}")
            return out, True
        if k == 13 and not deep:
            i = self.fresh("it")
            e2 = dict(env)
            e2["i"] = env["i"] + [i]
            c2 = dict(ctx, loop=True, switch=False)
            body, _ = self.block(e2, depth + 1, c2, ind + 1)
            return [p + "for (var %s = 0; %s < %d; %s++) {" % (i, i, r.range(1, 5), i)] + body + [p + "}"], True
        if k == 14 and not deep:
            c2 = dict(ctx, loop=True, switch=False)
            body, _ = self.block(env, depth + 1, c2, ind + 1)
            return [p + "while %s {" % self.cond(env)] + body + [p + "}"], True
        if k in (15, 16) and not deep:
            c2 = dict(ctx, switch=True)
            out = [p + "switch %s {" % self.iexpr(env)]
            used = set()
            for _ in range(r.range(0, 3)):
                sels = []
                for _ in range(r.range(1, 2)):
                    s = r.range(-2, 6)
                    if s not in used:
                        used.add(s)
                        sels.append(str(s))
                if not sels:
                    continue
                if r.chance(1, 5) and "default" not in used:
                    sels.append("default")
                    used.add("default")
                body, _ = self.block(env, depth + 1, c2, ind + 2)
                out += [p + "    case %s: {" % ", ".join(sels)] + body + [p + "    }"]
            if "default" not in used:
                body, _ = self.block(env, depth + 1, c2, ind + 2)
                out += [p + "    default: {"] + body + [p + "    }"]
            out.append(p + "}")
            return out, True
        if k == 17 and (ctx.get("loop") or ctx.get("switch")):
            return [p + "break;"], False
        if k == 18 and ctx.get("loop"):
            return [p + "continue;"], False
        if k == 19 and depth > 0:
            return [p + ctx["ret"](self, env)], False
        if k == 20 and ctx.get("fragment") and depth > 0:
            return [p + "discard;"], True
        if k == 21 and env.get("helper") and env["ptrable"]:
            return [p + "%s = %s(%s, &%s);" % (r.choice(env["ptrable"]), env["helper"], self.iexpr(env), r.choice(env["ptrable"]))], True
        return [p + "%s = %s;" % (r.choice(env["ptrable"]), self.iexpr(env))] if env["ptrable"] else [p + "_ = %s;" % self.iexpr(env)], True

    # ---- declarations ----
    def struct_members(self, depth, uniform):
        r = self.r
        ms = []
        pool = ["f32", "i32", "u32", "vec2<f32>", "vec3<f32>", "vec4<f32>", "vec3<i32>", "vec4<u32>", "mat2x2<f32>", "mat3x3<f32>",
                "mat4x4<f32>", "mat2x3<f32>", "mat4x2<f32>", "mat3x4<f32>"]
        arr = ["array<vec4<f32>, %d>", "array<mat2x2<f32>, %d>" if not uniform else "array<mat4x4<f32>, %d>", "array<vec4<u32>, %d>",
               "array<f32, %d>" if not uniform else "array<vec4<i32>, %d>", "array<mat3x3<f32>, %d>", "array<array<vec4<f32>, 2>, %d>"]
        for j in range(r.range(1, 6)):
            if r.chance(1, 4):
                t = r.choice(arr) % r.range(1, 5)
            else:
                t = r.choice(pool)
            ms.append(("m%d" % j, t))
        return ms

    def program(self, idx):
        r = self.r
        self.n = 0
        lines = []
        stage = r.choice(["compute", "compute", "fragment", "vertex"])
        # structs
        inner = self.struct_members(1, True)
        # uniform address space: struct members / array elements of struct type need 16-byte alignment and size;
        # a vec4 first member gives that naturally (naga ignores @align on members: known finding)
        inner[0] = ("m0", r.choice(["vec4<f32>", "vec4<u32>", "mat4x4<f32>", "vec4<i32>"]))
        lines.append("struct Inner {\n" + "".join("    %s: %s,\n" % m for m in inner) + "}")
        um = self.struct_members(0, True)
        if r.chance(1, 2):
            um.append(("inner", "Inner"))
        if r.chance(1, 3):
            um.append(("inners", "array<Inner, %d>" % r.range(1, 3)))
        lines.append("struct U {\n" + "".join("    %s: %s,\n" % m for m in um) + "}")
        sm = self.struct_members(0, False)
        if r.chance(1, 2):
            sm.append(("inner", "Inner"))
        if r.chance(1, 2):
            sm.append(("counter", "atomic<%s>" % r.choice(["u32", "i32"])))
        sm.append(("data", r.choice(["array<f32>", "array<vec4<f32>>", "array<Inner>", "array<u32>", "array<mat2x2<f32>>"])))
        lines.append("struct SB {\n" + "".join("    %s: %s,\n" % m for m in sm) + "}")
        b = 0
        lines.append("@group(0) @binding(%d) var<uniform> ub: U;" % b); b += 1
        rw = stage != "vertex"
        lines.append("@group(0) @binding(%d) var<storage, %s> sb: SB;" % (b, "read_write" if rw else "read")); b += 1
        texdim = r.choice(["2d", "2d", "2d_array", "3d", "cube", "1d"])
        lines.append("@group(0) @binding(%d) var tex: texture_%s<f32>;" % (b, texdim)); b += 1
        lines.append("@group(0) @binding(%d) var samp: sampler;" % b); b += 1
        lines.append("@group(1) @binding(0) var utex: texture_2d<%s>;" % r.choice(["u32", "f32"]))   # i32: known finding (f32(textureLoad(texture_2d<i32>).x))
        lines.append("@group(1) @binding(1) var dtex: texture_depth_2d;")
        lines.append("@group(1) @binding(2) var csamp: sampler_comparison;")
        lines.append("@group(1) @binding(3) var mstex: texture_multisampled_2d<f32>;")
        sfmt = r.choice(["rgba8unorm", "rgba16float", "r32float", "rgba32uint", "rg32float", "rgba8snorm", "r32uint", "rgba16sint"])
        has_stex = stage != "vertex"
        if has_stex:
            lines.append("@group(2) @binding(0) var stex: texture_storage_2d<%s, write>;" % sfmt)
        lines.append("var<private> pv: i32 = %d;" % r.below(5))
        lines.append("var<private> pf: array<f32, 3>;")
        if stage == "compute":
            lines.append("var<workgroup> wg: array<atomic<u32>, 4>;")
            lines.append("var<workgroup> wf: array<f32, 8>;")
        coord = {"2d": "vec2<f32>(0.5, 0.5)", "2d_array": "vec2<f32>(0.5, 0.5), 1", "3d": "vec3<f32>(0.5)", "cube": "vec3<f32>(0.5)",
                 "1d": "0.5"}[texdim]
        res = ["ub.m0" if um[0][1] == "f32" else "f32(pv)", "sb_read()", "pf[1]",
               ("textureSampleLevel(tex, samp, %s, 0.0).x" % coord) if texdim != "1d" else "textureSampleLevel(tex, samp, 0.5, 0.0).y",
               "f32(textureLoad(utex, vec2<i32>(1, 2), 0).x)", "textureLoad(dtex, vec2<u32>(1u, 2u), 0)",
               "textureLoad(mstex, vec2<i32>(0, 1), 1).z", "f32(textureDimensions(utex).x)", "f32(textureNumLevels(dtex))",
               "textureSampleCompareLevel(dtex, csamp, vec2<f32>(0.5), 0.5)", "f32(arrayLength(&sb.data))", "f32(textureNumSamples(mstex))"]
        dty = sm[-1][1]
        rd = {"array<f32>": "sb.data[1]", "array<vec4<f32>>": "sb.data[1].y", "array<Inner>": "f32(arrayLength(&sb.data))",
              "array<u32>": "f32(sb.data[2])", "array<mat2x2<f32>>": "sb.data[0][1].x"}[dty]
        lines.append("fn sb_read() -> f32 { return %s; }" % rd)
        # globals touched only inside small functions that are called from few, random places (possibly only from an
        # else branch, a loop's continuing block or a switch case): the entry point's interface must still list them
        lines.append("var<private> only_a: f32 = 1.0;")
        lines.append("fn bump_a() -> f32 { only_a = only_a * 0.5; return only_a; }")
        lines.append("var<private> only_b: vec2<f32>;")
        lines.append("fn bump_b() -> f32 { only_b.y += 1.0; return only_b.x + bump_a(); }")
        effects = []
        if rw:
            wr = {"array<f32>": "sb.data[%s] = %s;", "array<vec4<f32>>": "sb.data[%s].z = %s;", "array<Inner>": "pf[u32(%s) %% 3u] = %s;",
                  "array<u32>": "sb.data[%s] = u32(%s);", "array<mat2x2<f32>>": "sb.data[%s][1] = vec2<f32>(%s);"}[dty]
            effects.append(lambda g, env: wr % (g.iexpr(env), g.fexpr(env)))
            if any(m[0] == "counter" for m in sm):
                aty = [m[1] for m in sm if m[0] == "counter"][0]
                lit = "1u" if "u32" in aty else "1"
                effects.append(lambda g, env: "pv ^= i32(%s(&sb.counter, %s));" % (g.r.choice(["atomicAdd", "atomicMax", "atomicXor", "atomicExchange", "atomicMin", "atomicSub", "atomicAnd", "atomicOr"]), lit))
                effects.append(lambda g, env: "atomicStore(&sb.counter, %s);" % lit)
        if has_stex:
            val = "vec4<u32>(1u)" if "uint" in sfmt else ("vec4<i32>(1)" if "sint" in sfmt else "vec4<f32>(%s)")
            effects.append(lambda g, env: "textureStore(stex, vec2<i32>(%s, 1), %s);" % (g.iexpr(env), (val % g.fexpr(env)) if "%s" in val else val))
        effects.append(lambda g, env: "pf[u32(%s) %% 3u] = %s;" % (g.iexpr(env), g.fexpr(env)))
        if stage == "compute":
            effects.append(lambda g, env: "pv += i32(atomicAdd(&wg[%du], 1u));" % g.r.below(4))
            effects.append(lambda g, env: "wf[u32(%s) & 7u] = %s;" % (g.iexpr(env), g.fexpr(env)))
        # helper with pointer parameter
        env = {"i": ["x", "pv"], "f": [], "b": [], "ptrable": ["acc"], "res": res, "effects": effects, "helper": None}
        hctx = {"ret": lambda g, e: "return %s;" % g.iexpr(e)}
        lines.append("fn helper(x: i32, p: ptr<function, i32>) -> i32 {")
        lines.append("    var acc: i32 = *p;")
        body, ft = self.block(env, 0, hctx, 1)
        lines += body
        if ft:
            lines.append("    *p = acc;")
            lines.append("    return acc + x;")
        lines.append("}")
        env = {"i": ["pv"], "f": [], "b": [], "ptrable": ["acc"], "res": res, "effects": effects, "helper": "helper"}
        if stage == "compute":
            lines.append("@compute @workgroup_size(%d, %d, 1)" % (r.range(1, 8), r.range(1, 4)))
            lines.append("fn main(@builtin(global_invocation_id) gid: vec3<u32>, @builtin(local_invocation_index) li: u32, "
                         "@builtin(workgroup_id) wid: vec3<u32>, @builtin(num_workgroups) nwg: vec3<u32>) {")
            lines.append("    var acc: i32 = i32(gid.x + li + wid.y + nwg.z);")
            if r.chance(1, 2):
                lines.append("    workgroupBarrier();")
            mctx = {"ret": lambda g, e: "return;"}
            body, ft = self.block(env, 0, mctx, 1)
            lines += body
            if ft:
                lines.append("    pv = acc;")
            lines.append("}")
        elif stage == "fragment":
            ins = ["@location(0) v0: vec2<f32>", "@location(1) @interpolate(flat) k: u32", "@builtin(position) pos: vec4<f32>",
                   "@builtin(front_facing) ff: bool"]
            if r.chance(1, 2):
                ins.append("@location(2) @interpolate(linear, centroid) v2: vec4<f32>")
            if r.chance(1, 3):
                ins.append("@builtin(sample_index) si: u32")
            if r.chance(1, 3):
                ins.append("@builtin(sample_mask) smask: u32")
            outk = r.below(3)
            if outk == 0:
                lines.append("@fragment fn main(%s) -> @location(0) vec4<f32> {" % ", ".join(ins))
                mk = lambda g, e: "return vec4<f32>(%s);" % g.fexpr(e)
            elif outk == 1:
                lines.append("struct FOut { @location(0) c: vec4<f32>, @builtin(frag_depth) d: f32, @location(1) e: vec2<u32> }")
                lines.append("@fragment fn main(%s) -> FOut {" % ", ".join(ins))
                mk = lambda g, e: "return FOut(vec4<f32>(%s), %s, vec2<u32>(3u));" % (g.fexpr(e), g.fexpr(e))
            else:
                lines.append("struct FOut { @location(0) c: vec4<f32>, @builtin(sample_mask) m: u32 }")
                lines.append("@fragment fn main(%s) -> FOut {" % ", ".join(ins))
                mk = lambda g, e: "return FOut(vec4<f32>(%s), 1u);" % g.fexpr(e)
            lines.append("    var acc: i32 = i32(k) + i32(pos.x) + select(0, 1, ff);")
            env["f"] = ["v0.x", "pos.y"]
            if r.chance(1, 2):
                lines.append("    let s = textureSample(tex, samp, %s);" % coord if texdim != "1d" else "    let s = textureSample(tex, samp, v0.x);")
                env["f"].append("s.x")
            mctx = {"ret": mk, "fragment": True}
            body, ft = self.block(env, 0, mctx, 1)
            lines += body
            if ft:
                lines.append("    " + mk(self, env))
            lines.append("}")
        else:
            lines.append("struct VOut { @builtin(position) p: vec4<f32>, @location(0) a: vec2<f32>, @location(1) @interpolate(flat) b: vec3<i32> }")
            lines.append("@vertex fn main(@builtin(vertex_index) vi: u32, @builtin(instance_index) ii: u32, @location(0) a0: vec3<f32>, "
                         "@location(1) a1: vec2<u32>) -> VOut {")
            lines.append("    var acc: i32 = i32(vi + ii + a1.y);")
            env["f"] = ["a0.x", "a0.z"]
            mk = lambda g, e: "return VOut(vec4<f32>(%s), vec2<f32>(%s), vec3<i32>(%s));" % (g.fexpr(e), g.fexpr(e), g.iexpr(e))
            mctx = {"ret": mk}
            body, ft = self.block(env, 0, mctx, 1)
            lines += body
            if ft:
                lines.append("    " + mk(self, env))
            lines.append("}")
        return "\n".join(lines) + "\n"


def programs(rng, n):
    out = []
    for i in range(n):
        g = G(rng.fork("p%d" % i))
        out.append(("gen%04d" % i, g.program(i)))
    return out


def layout_programs():
    """Systematic: every matrix shape (and vec3, and a struct holding a matrix) as a struct member wrapped in 0, 1 and 2
    array levels, and as a whole global, in storage and (where the sizes allow it) uniform buffers: the layout
    decorations (Offset, ArrayStride, MatrixStride, ColMajor) must be present at every level."""
    out = []
    shapes = [("mat%dx%d<f32>" % (c, r), c * (8 if r == 2 else 16)) for c in (2, 3, 4) for r in (2, 3, 4)]
    shapes += [("vec3<f32>", 12), ("Inner", 64)]
    for ty, size in shapes:
        for depth in (0, 1, 2):
            wrapped = ty
            for d in range(depth):
                wrapped = "array<%s, %d>" % (wrapped, 2 + d)
            for space in ("storage", "uniform"):
                if space == "uniform" and size % 16 != 0:
                    continue
                acc = "storage, read_write" if space == "storage" else "uniform"
                idx = "".join("[%d]" % 0 for _ in range(depth))
                read = {"Inner": "g.m%s.im[1].x", "vec3<f32>": "g.m%s.y"}.get(ty, "g.m%s[1].y") % idx
                read2 = {"Inner": "h%s.im[1].x", "vec3<f32>": "h%s.y"}.get(ty, "h%s[1].y") % idx
                src = ("struct Inner { im: mat4x4<f32> }\nstruct S { a: f32, m: %s, z: f32 }\n"
                       "@group(0) @binding(0) var<%s> g: S;\n@group(0) @binding(1) var<%s> h: %s;\n"
                       "@group(0) @binding(2) var<storage, read_write> o: array<f32, 4>;\n"
                       "@compute @workgroup_size(1) fn main() { o[0] = %s + g.z; o[1] = %s; }\n"
                       % (wrapped, acc, acc, wrapped, read, read2))
                out.append(("layout_%s_%s_d%d" % (space, ty.replace("<", "").replace(">", ""), depth), src))
    return out


def feature_programs():
    """One minimal module per feature that needs its own capability / extension / execution mode, each ALONE in its module
    (a requirement satisfied only as a by-product of another feature in the same module is the classic defect): every
    derivative builtin, every texture dimensionality x (sample, load, query, gather), storage-texture formats, atomics,
    subgroup operations, f16, interpolation / sample-rate inputs, special built-in inputs and outputs."""
    out = []
    frag = "@fragment fn main(@location(0) v: vec2<f32>) -> @location(0) vec4<f32> { %s }\n"
    for f in ("dpdx", "dpdy", "fwidth"):
        for c in ("", "Fine", "Coarse"):
            out.append(("feat_%s%s" % (f, c), frag % ("return vec4<f32>(%s%s(v.x));" % (f, c))))
            out.append(("feat_%s%s_vec" % (f, c), frag % ("return vec4<f32>(%s%s(v), 0.0, 1.0);" % (f, c))))
    tex = [("texture_1d<f32>", "v.x", "1", "i32(v.x)"), ("texture_2d<f32>", "v", "2", "vec2<i32>(v)"),
           ("texture_2d_array<f32>", "v, 1", "2a", "vec2<i32>(v), 1"), ("texture_3d<f32>", "vec3<f32>(v, 0.5)", "3", "vec3<i32>(vec3<f32>(v, 0.0))"),
           ("texture_cube<f32>", "vec3<f32>(v, 0.5)", "c", None), ("texture_cube_array<f32>", "vec3<f32>(v, 0.5), 1", "ca", None)]
    for ty, coord, tag, icoord in tex:
        hdr = "@group(0) @binding(0) var t: %s;\n@group(0) @binding(1) var s: sampler;\n" % ty
        out.append(("feat_sample_%s" % tag, hdr + frag % ("return textureSample(t, s, %s);" % coord)))
        if tag != "1":
            out.append(("feat_samplelevel_%s" % tag, hdr + frag % ("return textureSampleLevel(t, s, %s, 1.0);" % coord)))
            out.append(("feat_samplebias_%s" % tag, hdr + frag % ("return textureSampleBias(t, s, %s, 0.5);" % coord)))
        if tag in ("2", "2a", "c", "ca"):
            out.append(("feat_gather_%s" % tag, hdr + frag % ("return textureGather(1, t, s, %s);" % coord)))
        if icoord:
            out.append(("feat_load_%s" % tag, hdr + frag % ("return textureLoad(t, %s, 0);" % icoord)))
        out.append(("feat_dims_%s" % tag, hdr + frag % ("let d = textureDimensions(t); return vec4<f32>(f32(textureNumLevels(t)));")))
        if tag in ("2a", "ca"):
            out.append(("feat_layers_%s" % tag, hdr + frag % ("return vec4<f32>(f32(textureNumLayers(t)));")))
    for ty, tag, coord in (("texture_depth_2d", "d2", "v"), ("texture_depth_2d_array", "d2a", "v, 1"), ("texture_depth_cube", "dc", "vec3<f32>(v, 0.5)"),
                           ("texture_depth_cube_array", "dca", "vec3<f32>(v, 0.5), 1")):
        hdr = "@group(0) @binding(0) var t: %s;\n@group(0) @binding(1) var s: sampler;\n@group(0) @binding(2) var sc: sampler_comparison;\n" % ty
        out.append(("feat_sample_%s" % tag, hdr + frag % ("return vec4<f32>(textureSample(t, s, %s));" % coord)))
        out.append(("feat_samplecmp_%s" % tag, hdr + frag % ("return vec4<f32>(textureSampleCompare(t, sc, %s, 0.5));" % coord)))
        out.append(("feat_samplecmplevel_%s" % tag, hdr + frag % ("return vec4<f32>(textureSampleCompareLevel(t, sc, %s, 0.5));" % coord)))
        out.append(("feat_gathercmp_%s" % tag, hdr + frag % ("return textureGatherCompare(t, sc, %s, 0.5);" % coord)))
    hdr = "@group(0) @binding(0) var t: texture_multisampled_2d<f32>;\n"
    out.append(("feat_ms_load", hdr + frag % "return textureLoad(t, vec2<i32>(v), 1);"))
    out.append(("feat_ms_samples", hdr + frag % "return vec4<f32>(f32(textureNumSamples(t)));"))
    hdr = "@group(0) @binding(0) var t: texture_depth_multisampled_2d;\n"
    out.append(("feat_dms_load", hdr + frag % "return vec4<f32>(textureLoad(t, vec2<i32>(v), 1));"))
    for fmt in ("rgba8unorm", "rgba8snorm", "rgba8uint", "rgba8sint", "rgba16uint", "rgba16sint", "rgba16float", "r32uint", "r32sint", "r32float",
                "rg32uint", "rg32sint", "rg32float", "rgba32uint", "rgba32sint", "rgba32float", "bgra8unorm"):
        k = "u32" if "uint" in fmt else ("i32" if "sint" in fmt else "f32")
        for dim, co in (("1d", "1"), ("2d", "vec2<i32>(1, 2)"), ("2d_array", "vec2<i32>(1, 2), 1"), ("3d", "vec3<i32>(1, 2, 3)")):
            if dim != "2d" and fmt not in ("rgba8unorm", "r32uint", "rg32float", "rgba16float"):
                continue
            out.append(("feat_storage_%s_%s_w" % (dim, fmt),
                        "@group(0) @binding(0) var t: texture_storage_%s<%s, write>;\n@compute @workgroup_size(1) fn main() { textureStore(t, %s, vec4<%s>()); }\n"
                        % (dim, fmt, co, k)))
        if fmt in ("r32uint", "r32sint", "r32float", "rgba8unorm", "rgba16float", "rg32float"):
            out.append(("feat_storage_2d_%s_r" % fmt,
                        "@group(0) @binding(0) var t: texture_storage_2d<%s, read>;\n@group(0) @binding(1) var<storage, read_write> o: array<%s, 4>;\n"
                        "@compute @workgroup_size(1) fn main() { o[0] = textureLoad(t, vec2<i32>(1, 2)).x; let d = textureDimensions(t); }\n" % (fmt, k)))
            out.append(("feat_storage_2d_%s_rw" % fmt,
                        "@group(0) @binding(0) var t: texture_storage_2d<%s, read_write>;\n"
                        "@compute @workgroup_size(1) fn main() { textureStore(t, vec2<i32>(0, 0), textureLoad(t, vec2<i32>(1, 2))); }\n" % fmt))
    cs = "@group(0) @binding(0) var<storage, read_write> o: array<u32, 8>;\n%s@compute @workgroup_size(4) fn main(%s) { %s }\n"
    out.append(("feat_atomic_storage", cs % ("@group(0) @binding(1) var<storage, read_write> a: atomic<u32>;\n", "", "o[0] = atomicAdd(&a, 1u); atomicStore(&a, 2u); o[1] = atomicLoad(&a);")))
    out.append(("feat_atomic_cmpxchg", cs % ("@group(0) @binding(1) var<storage, read_write> a: atomic<i32>;\n", "", "let r = atomicCompareExchangeWeak(&a, 1, 2); o[0] = u32(r.old_value); o[1] = select(0u, 1u, r.exchanged);")))
    out.append(("feat_atomic_workgroup", cs % ("var<workgroup> a: atomic<u32>;\n", "", "o[0] = atomicMax(&a, 1u); workgroupBarrier(); o[1] = atomicLoad(&a);")))
    out.append(("feat_barriers", cs % ("var<workgroup> w: array<u32, 4>;\n", "@builtin(local_invocation_index) li: u32", "w[li] = li; workgroupBarrier(); storageBarrier(); o[li] = w[3u - li];")))
    out.append(("feat_wg_uniform_load", cs % ("var<workgroup> w: u32;\n", "@builtin(local_invocation_index) li: u32", "if li == 0u { w = 7u; } let x = workgroupUniformLoad(&w); o[li] = x;")))
    out.append(("feat_num_workgroups", cs % ("", "@builtin(num_workgroups) n: vec3<u32>, @builtin(workgroup_id) w: vec3<u32>", "o[0] = n.x + w.y;")))
    for f, arg in (("subgroupAdd", "1u"), ("subgroupMul", "2u"), ("subgroupMin", "li"), ("subgroupMax", "li"), ("subgroupAnd", "li"), ("subgroupOr", "li"),
                   ("subgroupXor", "li"), ("subgroupExclusiveAdd", "1u"), ("subgroupInclusiveAdd", "1u"), ("subgroupBroadcastFirst", "li"),
                   ("subgroupBroadcast", "li, 1u"), ("subgroupShuffle", "li, 1u"), ("subgroupShuffleXor", "li, 1u"), ("subgroupShuffleUp", "li, 1u"),
                   ("subgroupShuffleDown", "li, 1u"), ("quadBroadcast", "li, 1u"), ("quadSwapX", "li"), ("quadSwapY", "li"), ("quadSwapDiagonal", "li")):
        out.append(("feat_%s" % f, "enable subgroups;\n" + cs % ("", "@builtin(local_invocation_index) li: u32", "o[li] = %s(%s);" % (f, arg))))
    out.append(("feat_subgroupBallot", "enable subgroups;\n" + cs % ("", "@builtin(local_invocation_index) li: u32", "o[li] = subgroupBallot(li > 1u).x;")))
    out.append(("feat_subgroupAll", "enable subgroups;\n" + cs % ("", "@builtin(local_invocation_index) li: u32", "o[li] = select(0u, 1u, subgroupAll(li > 1u) || subgroupAny(li > 2u) || subgroupElect());")))
    out.append(("feat_subgroup_builtins", "enable subgroups;\n" + cs % ("", "@builtin(subgroup_size) ss: u32, @builtin(subgroup_invocation_id) si: u32", "o[0] = ss + si;")))
    out.append(("feat_subgroupBarrier", "enable subgroups;\n" + cs % ("", "", "subgroupBarrier(); o[0] = 1u;")))
    out.append(("feat_f16", "enable f16;\n@group(0) @binding(0) var<storage, read_write> o: array<f16, 4>;\n@compute @workgroup_size(1) fn main() { o[0] = o[1] * 2.0h + f16(o[2]); }\n"))
    out.append(("feat_f16_vec_io", "enable f16;\n@fragment fn main(@location(0) v: vec2<f16>) -> @location(0) vec4<f16> { return vec4<f16>(v, v); }\n"))
    for f, a in (("pack4x8snorm", "vec4<f32>(0.5)"), ("pack4x8unorm", "vec4<f32>(0.5)"), ("pack2x16snorm", "vec2<f32>(0.5)"), ("pack2x16unorm", "vec2<f32>(0.5)"),
                 ("pack2x16float", "vec2<f32>(0.5)"), ("pack4xI8", "vec4<i32>(1)"), ("pack4xU8", "vec4<u32>(1u)"), ("pack4xI8Clamp", "vec4<i32>(1)"), ("pack4xU8Clamp", "vec4<u32>(1u)")):
        out.append(("feat_%s" % f, cs % ("", "", "o[0] = %s(%s * %s);" % (f, a, a.split("(")[0] + "(" + ("o[1]" if "u32" in a else ("i32(o[1])" if "i32" in a else "f32(o[1])")) + ")"))))
    for f, r in (("unpack4x8snorm", ".x"), ("unpack4x8unorm", ".x"), ("unpack2x16snorm", ".x"), ("unpack2x16unorm", ".x"), ("unpack2x16float", ".x"),
                 ("unpack4xI8", ".x"), ("unpack4xU8", ".x")):
        out.append(("feat_%s" % f, cs % ("", "", "o[0] = u32(%s(o[1])%s);" % (f, r))))
    out.append(("feat_dot4", cs % ("", "", "o[0] = dot4U8Packed(o[1], o[2]) + u32(dot4I8Packed(o[1], o[2]));")))
    # stage inputs / outputs that need their own capability or execution mode
    out.append(("feat_sample_index", "@fragment fn main(@builtin(sample_index) si: u32) -> @location(0) vec4<f32> { return vec4<f32>(f32(si)); }\n"))
    out.append(("feat_sample_mask_in", "@fragment fn main(@builtin(sample_mask) m: u32) -> @location(0) vec4<f32> { return vec4<f32>(f32(m)); }\n"))
    out.append(("feat_sample_mask_out", "struct O { @location(0) c: vec4<f32>, @builtin(sample_mask) m: u32 }\n@fragment fn main() -> O { return O(vec4<f32>(1.0), 3u); }\n"))
    out.append(("feat_frag_depth", "@fragment fn main(@builtin(position) p: vec4<f32>) -> @builtin(frag_depth) f32 { return p.z * 0.5; }\n"))
    out.append(("feat_front_facing", "@fragment fn main(@builtin(front_facing) ff: bool) -> @location(0) vec4<f32> { return vec4<f32>(select(0.0, 1.0, ff)); }\n"))
    out.append(("feat_primitive_index", "enable primitive_index;\n@fragment fn main(@builtin(primitive_index) pi: u32) -> @location(0) vec4<f32> { return vec4<f32>(f32(pi)); }\n"))
    out.append(("feat_primitive_index_noenable", "@fragment fn main(@builtin(primitive_index) pi: u32) -> @location(0) vec4<f32> { return vec4<f32>(f32(pi)); }\n"))
    out.append(("feat_view_index", "@fragment fn main(@builtin(view_index) vi: i32) -> @location(0) vec4<f32> { return vec4<f32>(f32(vi)); }\n"))
    out.append(("feat_discard", "@fragment fn main(@location(0) v: f32) -> @location(0) vec4<f32> { if v < 0.0 { discard; } return vec4<f32>(v); }\n"))
    for it in ("flat", "linear", "perspective", "linear, centroid", "linear, sample", "perspective, centroid", "perspective, sample", "flat, first", "flat, either"):
        out.append(("feat_interp_%s" % it.replace(", ", "_"),
                    "@fragment fn main(@location(0) @interpolate(%s) v: f32) -> @location(0) vec4<f32> { return vec4<f32>(v); }\n" % it))
    out.append(("feat_dual_source", "enable dual_source_blending;\nstruct O { @location(0) @blend_src(0) a: vec4<f32>, @location(0) @blend_src(1) b: vec4<f32> }\n"
                "@fragment fn main() -> O { return O(vec4<f32>(1.0), vec4<f32>(0.5)); }\n"))
    out.append(("feat_vertex_builtins", "@vertex fn main(@builtin(vertex_index) vi: u32, @builtin(instance_index) ii: u32) -> @builtin(position) vec4<f32> { return vec4<f32>(f32(vi + ii)); }\n"))
    out.append(("feat_invariant", "struct O { @builtin(position) @invariant p: vec4<f32> }\n@vertex fn main() -> O { return O(vec4<f32>(1.0)); }\n"))
    out.append(("feat_clip_distances", "enable clip_distances;\nstruct O { @builtin(position) p: vec4<f32>, @builtin(clip_distances) c: array<f32, 2> }\n"
                "@vertex fn main() -> O { var o: O; o.p = vec4<f32>(1.0); o.c[0] = 1.0; return o; }\n"))
    out.append(("feat_binding_array", "@group(0) @binding(0) var t: binding_array<texture_2d<f32>, 4>;\n@group(0) @binding(1) var s: sampler;\n"
                + frag % "return textureSample(t[1], s, v);"))
    out.append(("feat_external_texture", "@group(0) @binding(0) var t: texture_external;\n" + frag % "return textureLoad(t, vec2<i32>(v));"))
    out.append(("feat_i64", "@group(0) @binding(0) var<storage, read_write> o: array<i64, 2>;\n@compute @workgroup_size(1) fn main() { o[0] = o[1] + 1li; }\n"))
    out.append(("feat_f64", "@group(0) @binding(0) var<storage, read_write> o: array<f64, 2>;\n@compute @workgroup_size(1) fn main() { o[0] = o[1] + 1.0lf; }\n"))
    return out


# ---------------------------------------------------------------------------------------------------------------
# Entry-point inputs read at SEVERAL control-flow positions (round 3).  An input that needs a fix-up where it is read
# (an f16 varying declared as f32 without the 16-bit I/O capability, sample_mask declared as an array, point size,
# flipped position ...) must be re-materialised, or materialised where it dominates every use: a value produced inside
# one branch and re-used after the construct breaks "every ID is defined before (dominating) its uses".
IO_INPUTS = {
    "fragment": [
        ("loc_f32", "", "@location(0) v: f32", "v"),
        ("loc_flat_u32", "", "@location(0) @interpolate(flat) v: u32", "f32(v)"),
        ("loc_vec3_f32", "", "@location(0) v: vec3<f32>", "v.y"),
        ("loc_f16", "enable f16;\n", "@location(0) v: f16", "f32(v)"),
        ("loc_vec2_f16", "enable f16;\n", "@location(0) v: vec2<f16>", "f32(dot(v, v))"),
        ("loc_vec4_f16", "enable f16;\n", "@location(0) v: vec4<f16>", "f32(dot(v, v))"),
        ("loc_vec4_f16_component", "enable f16;\n", "@location(0) v: vec4<f16>", "f32(v.w)"),
        ("loc_vec2_f16_index", "enable f16;\n", "@location(0) v: vec2<f16>", "f32(v[1])"),
        ("sample_mask", "", "@builtin(sample_mask) v: u32", "f32(v)"),
        ("sample_index", "", "@builtin(sample_index) v: u32", "f32(v)"),
        ("front_facing", "", "@builtin(front_facing) v: bool", "select(1.0, 2.0, v)"),
        ("struct_f16", "enable f16;\nstruct In { @location(0) h: vec2<f16>, @location(1) g: f32 }\n", "v: In", "(f32(dot(v.h, v.h)) + v.g)"),
        ("struct_f16_component", "enable f16;\nstruct In { @location(0) h: vec2<f16>, @location(1) g: f32 }\n", "v: In", "(f32(v.h.x) + v.g)"),
        ("struct_mask", "struct In { @builtin(sample_mask) m: u32, @location(1) g: f32 }\n", "v: In", "(f32(v.m) + v.g)"),
    ],
    "vertex": [
        ("vertex_index", "", "@builtin(vertex_index) v: u32", "f32(v)"),
        ("instance_index", "", "@builtin(instance_index) v: u32", "f32(v)"),
        ("loc_f16", "enable f16;\n", "@location(0) v: f16", "f32(v)"),
        ("loc_vec2_f16", "enable f16;\n", "@location(0) v: vec2<f16>", "f32(dot(v, v))"),
        ("loc_i32", "", "@location(0) v: i32", "f32(v)"),
    ],
    "compute": [
        ("local_invocation_id", "", "@builtin(local_invocation_id) v: vec3<u32>", "f32(v.x)"),
        ("local_invocation_index", "", "@builtin(local_invocation_index) v: u32", "f32(v)"),
        ("num_workgroups", "", "@builtin(num_workgroups) v: vec3<u32>", "f32(v.z)"),
    ],
}
IO_BODIES = {
    "if_then_after": "if (c > 0.5) { acc += USE; }\n  acc += USE;",
    "else_then_after": "if (c > 0.5) { acc += 1.0; } else { acc += USE; }\n  acc *= USE;",
    "sibling_arms": "if (c > 0.5) { acc += USE; } else { acc -= USE; }",
    "switch_cases_then_after": "switch (u32(c)) { case 0u: { acc += USE; } case 1u, 2u: { acc -= USE; } default: { } }\n  acc += USE;",
    "loop_body_then_after": "for (var i = 0; i < 2; i++) { if (c > f32(i)) { acc += USE; } }\n  acc += USE;",
    "continuing_then_after": "var i = 0; loop { if (i >= 2) { break; } continuing { acc += USE; i++; } }\n  acc += USE;",
    "nested_if_in_loop_then_sibling": "for (var i = 0; i < 2; i++) { if (c > 0.5) { if (c > 1.5) { acc += USE; } } else { acc -= USE; } }",
}
IO_OPTION_SETS = [("io16-off-1.0", {"use_storage_io16": False}), ("io16-on-1.3", {"use_storage_io16": True, "version": 0x103}),
                  ("io16-off-1.4-debug", {"use_storage_io16": False, "version": 0x104, "debug": True}),
                  ("io16-off-flipy-pointsize", {"use_storage_io16": False, "adjust_coordinate_space": True, "force_point_size": True})]


def io_read_site_programs():
    """-> [(name, src)]"""
    out = []
    for stage, inputs in IO_INPUTS.items():
        for iname, pre, param, use in inputs:
            for bname, body in IO_BODIES.items():
                b = body.replace("USE", use)
                if stage == "fragment":
                    src = (pre + "@fragment fn main(@builtin(position) pos: vec4<f32>, %s) -> @location(0) vec4<f32> {\n  let c = pos.x;\n  var acc = 0.0;\n  %s\n  return vec4<f32>(acc);\n}\n"
                           % (param, b))
                elif stage == "vertex":
                    src = (pre + "@group(0) @binding(0) var<uniform> u: vec4<f32>;\n@vertex fn main(%s) -> @builtin(position) vec4<f32> {\n  let c = u.x;\n  var acc = 0.0;\n  %s\n  return vec4<f32>(acc);\n}\n"
                           % (param, b))
                else:
                    src = (pre + "@group(0) @binding(0) var<storage, read_write> o: array<f32, 4>;\n@compute @workgroup_size(2) fn main(%s) {\n  let c = o[1];\n  var acc = 0.0;\n  %s\n  o[0] = acc;\n}\n"
                           % (param, b))
                out.append(("io_%s_%s_%s" % (stage, iname, bname), src))
    return out
