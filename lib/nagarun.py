"""Running naga (through harness/cmd/nagadrive) on batches of inputs with crash
isolation: a Go fatal error (stack overflow, out of memory) or a timeout kills
the worker process; the batch is then bisected so that the offending input is
identified and every other input still gets its result."""
import json
import os
import resource
import subprocess

import vcheck

MEM_LIMIT = int(os.environ.get("VERIF_WORKER_MEM", str(6 << 30)))


def _limits():
    try:
        resource.setrlimit(resource.RLIMIT_AS, (MEM_LIMIT, MEM_LIMIT))
    except Exception:
        pass


def _run(tool, mode, jobs, timeout):
    inp = "".join(json.dumps(j) + "\n" for j in jobs)
    env = vcheck.go_env()
    env["GOMAXPROCS"] = "2"
    p = subprocess.Popen([tool, mode], stdin=subprocess.PIPE, stdout=subprocess.PIPE, stderr=subprocess.PIPE,
                         text=True, errors="replace", env=env, preexec_fn=_limits)
    try:
        so, se = p.communicate(inp, timeout=timeout)
        rc = p.returncode
    except subprocess.TimeoutExpired:
        # ask the Go runtime where it is (SIGQUIT prints every goroutine's stack), then make sure it is gone
        import signal
        try:
            p.send_signal(signal.SIGQUIT)
        except Exception:
            pass
        try:
            so, se = p.communicate(timeout=20)
        except subprocess.TimeoutExpired:
            p.kill()
            so, se = p.communicate()
        rc, se = 124, "timeout\n" + (se or "")
    res = {}
    for line in so.splitlines():
        try:
            r = json.loads(line)
            res[r.get("id")] = r
        except Exception:
            pass
    return rc, res, se


def naga_frames(stderr_text):
    """naga functions on the stacks of a Go crash / SIGQUIT dump, innermost first."""
    import re
    return [f for f in re.findall(r"github\.com/gogpu/naga/([\w/\.\(\)\*]+)\(", stderr_text) if "verifharness" not in f]


def where_is_it(tool, mode, job, prefix="", afters=(0.25, 0.5, 1.0, 2.0, 4.0, 8.0, 16.0)):
    """Run one job alone, interrupt it after a while and report the naga frames it was executing; the
    interruption is retried later and later until the innermost frame lies in package `prefix` (the stage
    the caller suspects) or the job finishes."""
    last = []
    for a in afters:
        rc, res, se = _run(tool, mode, [job], a)
        fr = naga_frames(se)
        if fr and fr[0].startswith(prefix):
            return fr
        last = fr or last
        if rc == 0:
            break
    return []


def run_batch(tool, mode, jobs, per_job_timeout=20.0, chunk=64):
    """jobs: list of dicts with unique 'id'.  Returns dict id -> result where a
    result may be {'crash': kind, 'stderr': tail} for a process-level failure."""
    out = {}

    def go(js):
        if not js:
            return
        rc, res, se = _run(tool, mode, js, timeout=max(30.0, per_job_timeout * len(js)))
        out.update(res)
        missing = [j for j in js if j["id"] not in res]
        if not missing:
            return
        if len(js) == 1:
            kind = "timeout" if rc == 124 else ("fatal" if rc != 0 else "noresult")
            tail = se[:3000] + "\n...\n" + se[-1500:]
            frames = naga_frames(se)
            if "stack overflow" in se or "goroutine stack exceeds" in se:
                kind = "stack_overflow"
            elif "out of memory" in se or "cannot allocate memory" in se:
                kind = "out_of_memory"
            out[js[0]["id"]] = {"id": js[0]["id"], "crash": kind, "stderr": tail, "frames": frames[:8]}
            return
        # the first missing job is the likely culprit: isolate it, continue with the rest
        first = missing[0]
        go([first])
        go([j for j in missing if j is not first])

    for i in range(0, len(jobs), chunk):
        go(jobs[i:i + chunk])
    return out


def parallel_batches(tool, mode, jobs, workers=None, **kw):
    """Split jobs over worker processes (threads driving subprocesses)."""
    from concurrent.futures import ThreadPoolExecutor
    workers = workers or max(1, vcheck.NCPU // 2)
    parts = [jobs[i::workers] for i in range(workers)]
    out = {}
    with ThreadPoolExecutor(workers) as ex:
        for r in ex.map(lambda p: run_batch(tool, mode, p, **kw), parts):
            out.update(r)
    return out


def corpus():
    """The repository's own shaders: list of (name, source)."""
    d = os.path.join(vcheck.REPO, "snapshot", "testdata", "in")
    out = []
    for f in sorted(os.listdir(d)):
        if f.endswith(".wgsl"):
            with open(os.path.join(d, f), encoding="utf-8", errors="surrogateescape") as fh:
                try:
                    out.append((f, fh.read()))
                except Exception:
                    pass
    return out
