"""C08 support: projections of naga's validation errors, backend option sets and
their applicability rules, the control-flow program generator, the feature
matrix of hand-written valid programs, and the shrinker."""
import re

# ---------------------------------------------------------------------------
# ir.ValidationError -> (rule class, Function, Statement, Expression).  The Go
# struct carries no rule identifier, only the message; the class is recovered
# from the message's fixed frame (never compared as text).  Class names are the
# constructors of Valid/ValidatorModel.vclass.
MSG_CLASSES = [
    (r"^type \d+: scalar width must be", "VScalarWidth"),
    (r"^type \d+: vector size must be", "VVectorSize"),
    (r"^type \d+: vector scalar width must be", "VVectorWidth"),
    (r"^type \d+: matrix columns must be", "VMatrixCols"),
    (r"^type \d+: matrix rows must be", "VMatrixRows"),
    (r"^type \d+: matrix scalar must be float", "VMatrixScalar"),
    (r"^type \d+: array base type \d+ does not exist", "VArrayBase"),
    (r"^type \d+: array has circular reference", "VArrayCircular"),
    (r"^type \d+: struct member \d+ has empty name", "VMemberEmptyName"),
    (r"^type \d+: duplicate struct member name", "VMemberDupName"),
    (r"^type \d+: struct member .* type \d+ does not exist", "VMemberType"),
    (r"^type \d+: struct member .* has circular reference", "VMemberCircular"),
    (r"^type \d+: pointer base type \d+ does not exist", "VPointerBase"),
    (r"^constant \d+ \(.*\): type \d+ does not exist", "VConstType"),
    (r"^duplicate global variable name", "VGlobalDupName"),
    (r"^global variable \d+ \(.*\): type \d+ does not exist", "VGlobalType"),
    (r"^global variable .*: duplicate binding @group", "VGlobalDupBinding"),
    (r"^global variable .*: init constant \d+ does not exist", "VGlobalInit"),
    (r"^duplicate function name", "VFuncDupName"),
    (r"^argument \d+ \(.*\): type \d+ does not exist", "VArgType"),
    (r"^result type \d+ does not exist", "VResultType"),
    (r"^local variable \d+ \(.*\): type \d+ does not exist", "VLocalType"),
    (r"^local variable .*: init expression \d+ does not exist", "VLocalInit"),
    (r"^break outside of loop", "VBreakOutsideLoop"),
    (r"^break in continuing block", "VBreakInContinuing"),
    (r"^continue outside of loop", "VContinueOutsideLoop"),
    (r"^continue in continuing block", "VContinueInContinuing"),
    (r"^return in continuing block", "VReturnInContinuing"),
    (r"^kill in continuing block", "VKillInContinuing"),
    (r"^switch has multiple default cases", "VSwitchMultiDefault"),
    (r"^switch missing default case", "VSwitchNoDefault"),
    (r"^emit range start \d+ out of range", "VEmitStart"),
    (r"^emit range end \d+ out of range", "VEmitEnd"),
    (r"^emit range start \d+ >= end", "VEmitEmpty"),
    (r"^entry point .*: global variables .* share binding @group", "VEpDupBinding"),
    (r"^entry point \d+ has empty name", "VEpEmptyName"),
    (r"^duplicate entry point name", "VEpDupName"),
    (r"^entry point .* \(@vertex\): must have a return value", "VEpVertexNoResult"),
    (r"^entry point .* \(@vertex\): must return @builtin\(position\)", "VEpVertexNoPosition"),
    (r"^entry point .* \(@compute\): workgroup size must be non-zero", "VEpWorkgroupZero"),
]
_MSG_RE = [(re.compile(p), c) for p, c in MSG_CLASSES]


def classify_verr(e):
    """Go ValidationError dict -> [class, function, statement, expression|None]."""
    msg = e.get("Message", "")
    cls = None
    for rx, c in _MSG_RE:
        if rx.search(msg):
            cls = c
            break
    if cls is None:
        if e.get("Expression") is not None:
            if re.search(r"^constant \d+ does not exist", msg):
                cls = "VExprConstant"
            elif re.search(r"^type \d+ does not exist", msg):
                cls = "VExprType"
            elif msg.startswith("splat size"):
                cls = "VSplatSize"
            elif msg.startswith("swizzle size"):
                cls = "VSwizzleSize"
            elif msg.startswith("pattern["):
                cls = "VSwizzlePattern"
            elif msg.startswith("argument index"):
                cls = "VExprArgIndex"
            elif re.search(r"^global variable \d+ does not exist", msg):
                cls = "VExprGlobal"
            elif msg.startswith("local variable index"):
                cls = "VExprLocal"
            elif re.search(r"^function \d+ does not exist", msg):
                cls = "VExprFunction"
            elif msg.endswith("does not exist"):
                cls = "VExprOperand"
        elif e.get("Statement", -1) >= 0:
            if re.search(r"^function \d+ does not exist", msg):
                cls = "VStmtFunction"
            elif msg.endswith("does not exist"):
                cls = "VStmtOperand"
    return [cls or ("UNCLASSIFIED:" + msg[:60]), e.get("Function", ""), e.get("Statement", -1), e.get("Expression")]


def model_verr(e):
    return [e["c"], e["f"], e["s"], e["e"]]


# ---------------------------------------------------------------------------
# Backend option sets.  "process_overrides": the host resolves pipeline-
# overridable constants before code generation (required by every backend for a
# module that uses overrides; a no-op otherwise).
def all_option_sets():
    sets = []
    for mi in range(0, 7):
        sets.append({"backend": "spv", "name": "spv1.%d" % mi, "version": [1, mi], "process_overrides": True})
    sets.append({"backend": "spv", "name": "spv1.3-debug-noloopbound", "version": [1, 3], "debug": True,
                 "force_loop_bounding": False, "adjust_coordinate_space": True, "process_overrides": True})
    for sm in range(0, 10):
        sets.append({"backend": "hlsl", "name": "hlsl_sm%d" % sm, "shader_model": sm, "process_overrides": True})
    sets.append({"backend": "hlsl", "name": "hlsl_sm1-per-ep-plain", "shader_model": 1, "per_ep": True,
                 "restrict_indexing": False, "force_loop_bounding": False, "zero_initialize_workgroup_memory": False,
                 "process_overrides": True})
    for v in [(1, 0), (1, 2), (2, 0), (2, 1), (2, 3), (2, 4), (3, 0), (3, 1)]:
        sets.append({"backend": "msl", "name": "msl%d.%d" % v, "version": list(v), "process_overrides": True,
                     "fake_missing_bindings": True})
    sets.append({"backend": "msl", "name": "msl2.1-plain", "version": [2, 1], "process_overrides": True,
                 "force_loop_bounding": False, "zero_initialize_workgroup_memory": False})
    for v in [(3, 30), (4, 0), (4, 10), (4, 20), (4, 30), (4, 50), (4, 60)]:
        sets.append({"backend": "glsl", "name": "glsl%d%02d" % v, "version": list(v), "process_overrides": True})
    for v in [(3, 0), (3, 10), (3, 20)]:
        sets.append({"backend": "glsl", "name": "glsles%d%02d" % v, "version": list(v), "es": True,
                     "process_overrides": True})
    # the documented defaults, exactly as DefaultOptions() gives them
    sets.append({"backend": "spv", "name": "spv-default", "process_overrides": True})
    sets.append({"backend": "hlsl", "name": "hlsl-default", "process_overrides": True})
    sets.append({"backend": "msl", "name": "msl-default", "process_overrides": True})
    sets.append({"backend": "glsl", "name": "glsl-default", "process_overrides": True})
    return sets


DEFAULT_SETS = ["spv-default", "hlsl-default", "msl-default", "glsl-default"]


def quick_sets(index):
    """defaults + a rotating choice of alternates (every alternate is hit every ~10 programs)."""
    allsets = all_option_sets()
    by = {}
    for s in allsets:
        if s["name"] not in DEFAULT_SETS:
            by.setdefault(s["backend"], []).append(s)
    out = [s for s in allsets if s["name"] in DEFAULT_SETS]
    for b in ("spv", "hlsl", "msl", "glsl"):
        alts = by[b]
        out.append(alts[index % len(alts)])
        out.append(alts[(index * 7 + 3) % len(alts)])
    seen = set()
    res = []
    for s in out:
        if s["name"] not in seen:
            seen.add(s["name"])
            res.append(s)
    return res


# ---- applicability of option sets (module features are computed by acceptdrive: `features`) ----
STAGE_VERTEX, STAGE_TASK, STAGE_MESH, STAGE_FRAGMENT, STAGE_COMPUTE = 0, 1, 2, 3, 4


def glsl_at_least(s, core, es):
    v = s.get("version") or [3, 30]
    n = v[0] * 100 + v[1]
    return n >= (es if s.get("es") else core)


def applicable(s, feats, ep_stage, stages):
    """Can option set s express entry point with stage ep_stage (None = whole module,
    `stages` = all stages of the module) of a module with features feats?
    Explicit, conservative rules; each one cites what documents it.  Returns (bool, reason)."""
    b = s["backend"]
    st = [ep_stage] if ep_stage is not None else list(stages)
    if "override_without_default" in feats:
        return False, "an override without default needs a host-supplied pipeline constant"
    if b == "glsl":
        # glsl backend: "atomic operations require GLSL 4.30+ or ES 3.10+" (glsl.Version.SupportsStorageBuffers)
        if "atomics" in feats and not glsl_at_least(s, 430, 310):
            return False, "atomics need GLSL 4.30 / ES 3.10"
        if "ray_query" in feats:
            return False, "GLSL has no ray queries (GL_EXT_ray_query not targeted)"
        if any(x in (STAGE_TASK, STAGE_MESH) for x in st):
            return False, "GLSL backend has no task/mesh stages"
    if b == "msl":
        if any(x in (STAGE_TASK, STAGE_MESH) for x in st):
            return False, "MSL backend has no task/mesh stages"
    return True, ""


# ---- corpus configuration (the upstream .toml next to each shader) ----
def corpus_config(toml_text):
    """targets (set of backend names or None = all) and pipeline constants of a corpus shader."""
    cfg = {"targets": None, "pipeline_constants": None}
    if toml_text is None:
        return cfg
    for line in toml_text.splitlines():
        line = line.strip()
        m = re.match(r'^targets\s*=\s*"([^"]*)"', line)
        if m:
            names = {x.strip() for x in m.group(1).split("|")}
            mp = {"SPIRV": "spv", "METAL": "msl", "GLSL": "glsl", "HLSL": "hlsl"}
            cfg["targets"] = {mp[n] for n in names if n in mp}
        m = re.match(r"^pipeline_constants\s*=\s*\{(.*)\}", line)
        if m:
            pc = {}
            for item in m.group(1).split(","):
                if "=" in item:
                    k, v = item.split("=", 1)
                    k = k.strip().strip('"')
                    v = v.strip()
                    if v.lower() == "nan":
                        continue            # "not set": the override's default is used
                    try:
                        pc[k] = float(v)
                    except ValueError:
                        pass
            cfg["pipeline_constants"] = pc
    return cfg


# ---------------------------------------------------------------------------
# error classes (stable keys): digits, quoted names and handles are dropped
def err_class(msg):
    """Class of a diagnostic: its innermost clause (the wrapping context names the place, not the
    defect); digits and quoted names dropped."""
    m = re.sub(r"\s*\(and \d+ more errors?\)", "", msg or "")
    m = re.sub(r'"[^"]*"', '"_"', m)
    if " @ " in m and m.startswith("runtime error"):
        return re.sub(r"\d+", "N", m)[:140]          # panic: message @ site
    parts = [p.strip() for p in m.split(": ")]
    k = 1
    while k < len(parts) and (len(parts[-k]) < 12 or parts[-k].startswith("ir.") or k < 1):
        k += 1
    cls = ": ".join(parts[-k:])
    cls = re.sub(r"\d+", "N", cls)
    cls = re.sub(r"\s+", " ", cls)
    return cls[:120]


# ---------------------------------------------------------------------------
# Control-flow program generator: a small statement grammar over WGSL, tracking
# the WGSL placement context (cb: break target, cc: continue target, ic: in
# continuing).  mode "legal": only legal placements; "restricted": legal, and
# additionally no break directly in a switch outside a loop and no jump/discard
# inside a continuing block (the shapes the pinned validator accepts);
# "any": placements chosen without looking at the context.
class CfGen:
    def __init__(self, rng, mode, allow_discard):
        self.rng = rng
        self.mode = mode
        self.allow_discard = allow_discard
        self.uses_discard = False
        self.nodes = 0

    def ind(self, d):
        return "    " * d

    def plain(self, d):
        k = self.rng.below(3)
        if k == 0:
            return [self.ind(d) + "x = x + %d;" % (1 + self.rng.below(5))]
        if k == 1:
            return [self.ind(d) + "acc = acc + x;"]
        return [self.ind(d) + "x = x * 2 - acc;"]

    def cond(self):
        return "x %s %d" % (self.rng.choice(["<", ">", "==", "!="]), self.rng.below(12))

    def block(self, d, depth, cb, cc, ic, inl, n=None):
        out = []
        n = self.rng.below(4) if n is None else n
        for _ in range(n):
            out += self.stmt(d, depth, cb, cc, ic, inl)
        return out

    def jump_ok(self, kind, cb, cc, ic, inl):
        if self.mode == "any":
            return True
        if kind == "break":
            ok = cb
            if self.mode == "restricted":
                ok = ok and inl and not ic
        elif kind == "continue":
            ok = cc
            if self.mode == "restricted":
                ok = ok and not ic
        elif kind == "return":
            ok = not ic
        else:  # discard
            ok = True
            if self.mode == "restricted":
                ok = not ic
        return ok

    def stmt(self, d, depth, cb, cc, ic, inl):
        self.nodes += 1
        r = self.rng
        kinds = ["plain"] * 3 + ["break"] * 3 + ["continue"] * 3 + ["return"] + (["discard"] if self.allow_discard else [])
        if depth > 0 and self.nodes < 60:
            kinds += ["if"] * 3 + ["switch"] * 3 + ["loop"] * 3 + ["for", "while", "block"]
        k = r.choice(kinds)
        I = self.ind(d)
        if k in ("break", "continue", "return", "discard"):
            if not self.jump_ok(k, cb, cc, ic, inl):
                return self.plain(d)
            if k == "discard":
                self.uses_discard = True
            # a jump is wrapped in an `if` half of the time so that code after it stays reachable
            if r.chance(1, 2):
                return [I + "if (%s) { %s; }" % (self.cond(), k)]
            return [I + k + ";"]
        if k == "plain":
            return self.plain(d)
        if k == "block":
            return [I + "{"] + self.block(d + 1, depth - 1, cb, cc, ic, inl) + [I + "}"]
        if k == "if":
            out = [I + "if (%s) {" % self.cond()] + self.block(d + 1, depth - 1, cb, cc, ic, inl)
            if r.chance(1, 2):
                out += [I + "} else {"] + self.block(d + 1, depth - 1, cb, cc, ic, inl)
            return out + [I + "}"]
        if k == "switch":
            out = [I + "switch (x) {"]
            ncase = r.below(3)
            vals = r.shuffle(list(range(0, 8)))
            for c in range(ncase):
                if r.chance(1, 4):
                    out.append(self.ind(d + 1) + "case %d, %d: {" % (vals[2 * c], vals[2 * c + 1]))
                else:
                    out.append(self.ind(d + 1) + "case %d: {" % vals[2 * c])
                out += self.block(d + 2, depth - 1, True, cc, ic, inl) + [self.ind(d + 1) + "}"]
            out += [self.ind(d + 1) + "default: {"] + self.block(d + 2, depth - 1, True, cc, ic, inl) + [self.ind(d + 1) + "}"]
            return out + [I + "}"]
        # every loop gets a guaranteed exit first (a legal `break` directly in the loop body)
        # unless the restricted mode forbids a break here (inside a continuing block)
        if k == "loop":
            if self.mode == "restricted" and ic:
                return self.plain(d)
            out = [I + "loop {", self.ind(d + 1) + "x = x + 1;", self.ind(d + 1) + "if (x > 40) { break; }"]
            out += self.block(d + 1, depth - 1, True, True, ic, True)
            if r.chance(2, 3):
                out += [self.ind(d + 1) + "continuing {"] + self.block(d + 2, depth - 1, False, False, True, True)
                if r.chance(1, 2):
                    out.append(self.ind(d + 2) + "break if %s;" % self.cond())
                out.append(self.ind(d + 1) + "}")
            return out + [I + "}"]
        if k == "for":
            if self.mode == "restricted" and ic:
                return self.plain(d)
            v = "k%d" % self.nodes
            return ([I + "for (var %s = 0; %s < 3; %s++) {" % (v, v, v)]
                    + self.block(d + 1, depth - 1, True, True, ic, True) + [I + "}"])
        if k == "while":
            if self.mode == "restricted" and ic:
                return self.plain(d)
            return ([I + "while (x < 30) {", self.ind(d + 1) + "x = x + 1;"]
                    + self.block(d + 1, depth - 1, True, True, ic, True) + [I + "}"])
        return self.plain(d)


def gen_cf_program(rng, mode):
    """(source, meta): helper functions with generated bodies + an entry point calling them."""
    allow_discard = rng.chance(1, 3)
    g = CfGen(rng, mode, allow_discard)
    nh = 1 + rng.below(2)
    lines = ["var<private> acc: i32;", ""]
    for h in range(nh):
        lines.append("fn h%d(p: i32) {" % h)
        lines.append("    var x = p;")
        lines += g.block(1, 2 + rng.below(3), False, False, False, False, n=1 + rng.below(3))
        lines.append("}")
        lines.append("")
    body = ["    var x = 1;"]
    for h in range(nh):
        body.append("    h%d(%d);" % (h, h + 1))
    if rng.chance(1, 2):
        body += g.block(1, 2 + rng.below(2), False, False, False, False, n=1 + rng.below(2))
    if g.uses_discard:
        lines.append("@fragment")
        lines.append("fn main() -> @location(0) vec4<f32> {")
        lines += body
        lines.append("    return vec4<f32>(f32(acc + x));")
    else:
        lines.append("@compute @workgroup_size(1)")
        lines.append("fn main() {")
        lines += body
    lines.append("}")
    return "\n".join(lines) + "\n", {"mode": mode, "discard": g.uses_discard}


# ---------------------------------------------------------------------------
# Binding program generator: resource variables, helper functions using some of
# them (acyclic calls), several entry points.  mode "legal": (group,binding)
# pairs are chosen so that the variables statically used by any one entry point
# have distinct pairs, and pairs are deliberately shared between variables that
# no entry point uses together; "any": pairs chosen at random from a small domain.
def gen_binding_program(rng, mode):
    nv = 2 + rng.below(5)
    nh = rng.below(4)
    ne = 1 + rng.below(3)
    kinds = [rng.choice(["uniform", "storage", "texture", "sampler"]) for _ in range(nv)]
    huse = [sorted(set(rng.below(nv) for _ in range(rng.below(3)))) for _ in range(nh)]
    hcall = [sorted(set(rng.below(h) for _ in range(rng.below(3)))) if h > 0 else [] for h in range(nh)]
    euse = [sorted(set(rng.below(nv) for _ in range(rng.below(3)))) for _ in range(ne)]
    ecall = [sorted(set(rng.below(nh) for _ in range(rng.below(3)))) if nh > 0 else [] for _ in range(ne)]
    # static use per entry point (python side; the extracted Reach model recomputes it from the IR)
    hclos = []
    for h in range(nh):
        s = set(huse[h])
        for c in hcall[h]:
            s |= hclos[c]
        hclos.append(s)
    eclos = []
    for e in range(ne):
        s = set(euse[e])
        for c in ecall[e]:
            s |= hclos[c]
        eclos.append(s)
    conflict = {v: set() for v in range(nv)}
    for s in eclos:
        for a in s:
            conflict[a] |= s - {a}
    pairs = {}
    domain = [(g, b) for g in range(2) for b in range(3)]
    for v in range(nv):
        if mode == "any":
            pairs[v] = rng.choice(domain)
            continue
        taken = {pairs[w] for w in conflict[v] if w in pairs}
        reuse = [p for p in set(pairs.values()) if p not in taken]
        if reuse and rng.chance(2, 3):
            pairs[v] = rng.choice(sorted(reuse))
        else:
            free = [p for p in domain + [(2, b) for b in range(8)] if p not in taken]
            pairs[v] = free[0] if not rng.chance(1, 3) else rng.choice(free)
    decl = {"uniform": "var<uniform> r%d: vec4<f32>;", "storage": "var<storage, read> r%d: array<vec4<f32>, 4>;",
            "texture": "var r%d: texture_2d<f32>;", "sampler": "var r%d: sampler;"}
    use = {"uniform": "r%d.x", "storage": "r%d[1].y", "texture": "textureLoad(r%d, vec2<i32>(0, 0), 0).x",
           "sampler": None}
    lines = []
    for v in range(nv):
        lines.append("@group(%d) @binding(%d) %s" % (pairs[v][0], pairs[v][1], decl[kinds[v]] % v))
    tex = [v for v in range(nv) if kinds[v] == "texture"]

    def use_expr(v, local_tex):
        if kinds[v] == "sampler":
            # a sampler is used through a sample call with some texture
            t = local_tex
            if t is None:
                return None
            return "textureSampleLevel(r%d, r%d, vec2<f32>(0.5, 0.5), 0.0).x" % (t, v)
        return use[kinds[v]] % v

    def body_terms(uses, calls):
        terms = ["1.0"]
        lt = next((v for v in uses if kinds[v] == "texture"), None)
        real = []
        for v in uses:
            e = use_expr(v, lt)
            if e is None:
                continue
            terms.append(e)
            real.append(v)
        for c in calls:
            terms.append("h%d()" % c)
        return " + ".join(terms)

    lines.append("")
    for h in range(nh):
        lines.append("fn h%d() -> f32 {" % h)
        lines.append("    return %s;" % body_terms(huse[h], hcall[h]))
        lines.append("}")
    for e in range(ne):
        st = rng.choice(["fragment", "compute", "vertex"])
        t = body_terms(euse[e], ecall[e])
        if st == "fragment":
            lines += ["@fragment", "fn e%d() -> @location(0) vec4<f32> {" % e, "    return vec4<f32>(%s);" % t, "}"]
        elif st == "vertex":
            lines += ["@vertex", "fn e%d() -> @builtin(position) vec4<f32> {" % e, "    return vec4<f32>(%s);" % t, "}"]
        else:
            lines += ["@compute @workgroup_size(1)", "fn e%d() {" % e, "    let v = %s;" % t, "}"]
    return "\n".join(lines) + "\n", {"mode": mode, "nvars": nv, "neps": ne}


# ---------------------------------------------------------------------------
# Shrinker: delete statements / blocks / declarations (line units found by brace
# matching) and unwrap blocks while the caller's predicate still holds.
def _units(lines):
    """(start, end) line ranges: single `...;` lines and balanced `{ ... }` constructs."""
    units = []
    n = len(lines)
    for i, ln in enumerate(lines):
        s = ln.strip()
        if not s:
            continue
        if s.endswith("{") and not s.startswith("}"):
            depth = 0
            j = i
            while j < n:
                depth += lines[j].count("{") - lines[j].count("}")
                if depth <= 0 and lines[j].strip().startswith("}"):
                    break
                if depth <= 0 and j > i:
                    break
                j += 1
            if j < n:
                k = i
                while k > 0 and lines[k - 1].strip().startswith("@"):
                    k -= 1            # attributes of a declaration go with it
                units.append((k, j))
        elif "{" not in s and "}" not in s and not s.startswith("@"):
            units.append((i, i))
        elif s.count("{") == s.count("}") and s.count("{") > 0:
            k = i
            while k > 0 and lines[k - 1].strip().startswith("@"):
                k -= 1
            units.append((k, i))
    return units


def shrink(src, still_fails, max_tests=600, group=8):
    """Greedy delta reduction.  still_fails(list_of_sources) -> list of bool (batched).
    Each round: find the units whose single deletion keeps the failure, then accumulate them
    (largest first) with cumulative-prefix batches of `group` candidates, skipping a candidate
    that breaks the accumulated deletion; afterwards try unwrapping blocks.  Repeats on the
    reduced text until nothing more can be removed or the budget is spent."""
    lines = src.split("\n")
    tests = 0

    def apply(kill, base):
        return [l for i, l in enumerate(base) if i not in kill]

    while tests < max_tests:
        units = sorted(_units(lines), key=lambda u: u[0] - u[1])     # largest first
        if not units:
            break
        units = units[:max(1, max_tests - tests)]
        verdicts = still_fails(["\n".join(lines[:a] + lines[b + 1:]) for a, b in units])
        tests += len(units)
        good = [u for u, v in zip(units, verdicts) if v]
        kill = set()
        i = 0
        while i < len(good) and tests < max_tests:
            batch = []
            acc = set(kill)
            members = []
            for (a, b) in good[i:i + group]:
                acc = acc | set(range(a, b + 1))
                members.append(set(acc))
            batch = ["\n".join(apply(k, lines)) for k in members]
            res = still_fails(batch)
            tests += len(batch)
            j = 0
            while j < len(res) and res[j]:
                j += 1
            if j > 0:
                kill = members[j - 1]
            i += j + 1 if j < len(res) else j          # skip the candidate that broke the accumulation
        progressed = bool(kill)
        if kill:
            lines = apply(kill, lines)
        # unwrap blocks: `head {` ... `}`  ->  contents
        unw = []
        for (a, b) in _units(lines):
            if b > a and lines[a].strip().endswith("{") and lines[b].strip() == "}" and not lines[a].lstrip().startswith(("fn ", "@", "struct ", "case ", "default")):
                unw.append((a, b))
        if unw and tests < max_tests:
            unw = unw[:max(1, max_tests - tests)]
            res = still_fails(["\n".join(lines[:a] + lines[a + 1:b] + lines[b + 1:]) for a, b in unw])
            tests += len(unw)
            for (a, b), ok in zip(unw, res):
                if ok:
                    lines = lines[:a] + lines[a + 1:b] + lines[b + 1:]
                    progressed = True
                    break
        if not progressed:
            break
    return "\n".join(l for l in lines if l.strip()) + "\n"
