"""C14: regenerates coq/Gen/OverrideOps.v from /repo's current sources (through
harness/cmd/goextract): the operator tables of the override evaluators, the lookup order of
resolveOverrideValue, the fields CloneModuleForOverrides copies and the locations
ProcessOverrides and its helpers (incl. overrideRemapExprHandles' remapPtr) write.
Obligations over them: coq/Overrides/GenOblig.v."""
import re

PO = "ir/process_overrides.go"
MSLPC = "msl/internal/codegen/pipeline_constants.go"


def type_switch_cases(src):
    """`switch x.(type) { case A: ... return E ... }` -> [(A, [every returned expression])]"""
    out = []
    cur = None
    for line in src.splitlines():
        s = line.strip()
        m = re.match(r"case (.+):$", s)
        if m:
            cur = [m.group(1), []]
            out.append(cur)
            continue
        if s == "default:":
            cur = ["default", []]
            out.append(cur)
            continue
        m = re.match(r"return (.+)$", s)
        if m and cur is not None:
            cur[1].append(m.group(1))
    return [(c, " | ".join(r)) for c, r in out]


FN_FIELDS = [("Expressions", "fn-expressions"), ("ExpressionTypes", "fn-expression-types"), ("LocalVars", "fn-local-vars"),
             ("NamedExpressions", "fn-named-expressions"), ("Body", "fn-body")]


def classify_clone(lhs):
    """LHS of an assignment in CloneModuleForOverrides -> (container, location class) or None (local)"""
    if not lhs.startswith("dst"):
        return None
    if lhs == "dst":
        return ("module", "shallow-copy")
    m = re.fullmatch(r"dst\.(Overrides|GlobalExpressions|Constants|Functions|EntryPoints)", lhs)
    if m:
        return ("module", {"Overrides": "overrides", "GlobalExpressions": "global-expressions", "Constants": "constants",
                           "Functions": "functions", "EntryPoints": "entry-points"}[m.group(1)])
    if lhs == "dst.Overrides[i].Init":
        return ("module", "override-init")
    if lhs == "dst.Overrides[i].ID":
        return ("module", "override-id")
    m = re.fullmatch(r"dst\.(Functions\[i\]|EntryPoints\[i\]\.Function)\.(\w+)(\[j\]\.Init|\[k\])?", lhs)
    if m:
        cont = "functions" if m.group(1).startswith("Functions") else "entry-points"
        f = dict(FN_FIELDS).get(m.group(2))
        if f is None:
            return ("?", lhs)
        if m.group(3) == "[j].Init":
            f = "fn-local-init"
        return (cont, f)
    if lhs in ("dst.Functions[i]", "dst.EntryPoints[i]"):
        return ("functions" if "Functions" in lhs else "entry-points", "element")
    return ("?", lhs)


LOCAL_ROOTS = {"oldExprs", "newExprs", "handleMap", "kind", "eo", "ok", "ch", "_", "isConst", "newH", "evaluated", "res", "err",
               "old", "newNamed", "remap", "remapPtr", "k", "f", "exchange", "gv", "initHandle", "val", "lit", "resolvedValues",
               "overrideToConstant", "geHandle", "result", "inRange", "rangeStart", "rangeLast", "s", "h"}


def classify_write(fn, lhs):
    """LHS of an assignment inside ProcessOverrides / helpers -> location class, None for
    function-local storage, ('?', lhs) when not understood."""
    if fn == "overrideRemapExprHandles":
        # the expression kind is a by-value copy (k, s, l, q, m, lv, qv) and the slices are fresh
        # (comps, incomings): only `*p` (remapPtr) writes through storage shared with the
        # caller's module, the pointee of an optional operand of an image expression
        if lhs == "*p":
            return "expression-pointer"
        if re.fullmatch(r"(s|l|q|m|lv|qv)\.\w+", lhs) or re.fullmatch(r"(comps|incomings)\[\w+\]", lhs) or lhs in ("h", "comps", "incomings", "s", "l", "q", "m", "k", "lv", "qv", "remap", "remapPtr"):
            return None
        return ("?", "%s: %s" % (fn, lhs))
    if lhs.startswith("module.GlobalExpressions"):
        return "global-expressions"
    if lhs.startswith("module.Constants"):
        return "constants"
    if lhs in ("fn.Expressions",):
        return "fn-expressions"
    if lhs.startswith("fn.ExpressionTypes"):
        return "fn-expression-types"
    if lhs == "fn.Body":
        return "fn-body"
    if lhs == "*fn.LocalVars[i].Init":
        return "fn-local-init"
    if lhs == "fn.NamedExpressions":
        return "fn-named-expressions"
    if lhs == "block[i].Kind":
        return "block-element"                # the top-level body and, through the recursion, nested blocks
    if lhs == "k.Arguments[j]":
        return "call-arguments"
    if lhs in ("*k.Result", "*k.Value", "*k.BreakIf", "*exchange.Compare", "*p"):
        return "statement-pointer"
    if lhs == "s.Cases[j].Body":
        return "nested-block"                 # element of the Cases slice shared with the caller's statement
    if lhs.startswith("newNamed[") or lhs.startswith("handleMap[") or lhs.startswith("resolvedValues[") or lhs.startswith("overrideToConstant["):
        return None
    root = re.match(r"\*?(\w+)", lhs).group(1)
    if root in LOCAL_ROOTS and "[" not in lhs.split(".", 1)[0] and not lhs.startswith("*"):
        return None                           # field of a local copy (k.Range.Start, s.Block, ...) or a local variable
    return ("?", "%s: %s" % (fn, lhs))


def generate(g, tools):
    reqs = [
        {"kind": "consts", "file": "ir/expression.go"},
        {"kind": "switchmap", "file": PO, "name": "EvalBinaryFloat"},
        {"kind": "switchmap", "file": PO, "name": "EvalUnaryFloat"},
        {"kind": "funcsrc", "file": PO, "name": "EvalBinaryFloat"},
        {"kind": "funcsrc", "file": PO, "name": "EvalUnaryFloat"},
        {"kind": "switchmap", "file": PO, "name": "makeOverrideLiteral"},
        {"kind": "funcsrc", "file": PO, "name": "makeLiteralFromProto"},
        {"kind": "funcsrc", "file": PO, "name": "LiteralToFloat"},
        {"kind": "funcsrc", "file": PO, "name": "resolveOverrideValue"},
        {"kind": "switchmap", "file": MSLPC, "name": "evalBinaryOp"},
        {"kind": "assigns", "file": MSLPC, "name": "evalBinaryOp"},
        {"kind": "assigns", "file": PO, "name": "CloneModuleForOverrides"},
        {"kind": "assigns", "file": PO, "name": "ProcessOverrides"},
        {"kind": "assigns", "file": PO, "name": "rebuildFunctionExpressions"},
        {"kind": "assigns", "file": PO, "name": "remapBlockHandles"},
        {"kind": "assigns", "file": PO, "name": "evaluateGlobalInitializers"},
        {"kind": "assigns", "file": PO, "name": "filterEmitsInBlock"},
        {"kind": "assigns", "file": PO, "name": "overrideRemapExprHandles"},
    ]
    (consts, ebf, euf, ebf_src, euf_src, mol, mlfp_src, ltf_src, rov_src, msl_sw, msl_as,
     a_clone, a_po, a_rfe, a_rbh, a_egi, a_feb, a_oreh) = g.extract(tools, reqs)
    S = g.coq_string

    def pairs(name, rows, comment=""):
        return ("(* %s *)\n" % comment if comment else "") + "Definition %s : list (string * string) := [\n%s]%%string.\n" % (
            name, ";\n".join("  (%s, %s)" % (S(a), S(b)) for a, b in rows))

    def strs(name, xs, comment=""):
        return ("(* %s *)\n" % comment if comment else "") + "Definition %s : list string := [%s]%%string.\n" % (
            name, "; ".join(S(x) for x in xs))

    out = ["From Coq Require Import List ZArith String.", "Import ListNotations.", "Open Scope Z_scope.", ""]
    for tname, dname in (("BinaryOperator", "binary_operator_consts"), ("UnaryOperator", "unary_operator_consts")):
        rows = [(n, int(v)) for n, v, t in consts if t == tname]
        if not rows:
            raise g.GenError("no constants of type %s in ir/expression.go" % tname)
        out.append("Definition %s : list (string * Z) := [\n%s]%%string.\n" % (
            dname, ";\n".join("  (%s, %d)" % (S(n), v) for n, v in rows)))
    out.append(pairs("eval_binary_float_cases", ebf, "EvalBinaryFloat: case -> last returned expression"))
    # guards inside the cases (`if right == 0 { return 0 }`): every `if COND {` with the next return
    guards = re.findall(r"if (.+?) \{\s*return (.+?)\s*\}", ebf_src)
    out.append(pairs("eval_binary_float_guards", guards, "EvalBinaryFloat: `if c { return e }` inside the cases"))
    out.append(pairs("eval_unary_float_cases", euf, "EvalUnaryFloat"))
    out.append(pairs("eval_unary_float_guards", re.findall(r"if (.+?) \{\s*return (.+?)\s*\}", euf_src)))
    out.append(pairs("make_override_literal_cases", mol, "makeOverrideLiteral: scalar kind -> literal"))
    out.append(pairs("make_literal_from_proto_cases", type_switch_cases(mlfp_src), "makeLiteralFromProto"))
    out.append(pairs("literal_to_float_cases", type_switch_cases(ltf_src), "LiteralToFloat"))
    # resolveOverrideValue: order in which the sources of a value are consulted
    marks = [("id", rov_src.find("constants[key]")), ("name", rov_src.find("constants[ov.Name]")),
             ("init", rov_src.find("ov.Init != nil")), ("error", rov_src.find("fmt.Errorf("))]
    if any(p < 0 for _n, p in marks):
        raise g.GenError("resolveOverrideValue: lookup sites not found: %s" % marks)
    out.append(strs("resolve_order", [n for n, _p in sorted(marks, key=lambda x: x[1])], "resolveOverrideValue: order of the sources"))
    # MSL evalBinaryOp: cases of `switch op` zipped with the assignments to `result`
    mcases = [c for c, _r in msl_sw if c.startswith("ir.Binary")]
    massign = [rhs for kind, lhs, rhs in msl_as if kind == "assign" and lhs == "result"]
    if len(mcases) != len(massign):
        raise g.GenError("msl evalBinaryOp: %d operator cases but %d assignments to result" % (len(mcases), len(massign)))
    out.append(pairs("msl_eval_binary_cases", list(zip(mcases, massign)), "msl evalBinaryOp: case -> result expression"))
    out.append(strs("msl_eval_binary_result_kinds", [c for c, _r in msl_sw if c.startswith("ir.Literal")], "result takes the left literal's kind"))
    # clone
    cl = {}
    unknown = []
    for kind, lhs, _rhs in a_clone:
        if kind != "assign":
            continue
        c = classify_clone(lhs)
        if c is None:
            continue
        if c[0] == "?":
            unknown.append("CloneModuleForOverrides: " + c[1])
            continue
        cl.setdefault(c[0], [])
        if c[1] not in cl[c[0]]:
            cl[c[0]].append(c[1])
    out.append(strs("clone_module", sorted(cl.get("module", [])), "CloneModuleForOverrides: module-level storage given to the clone"))
    out.append(strs("clone_functions", sorted(cl.get("functions", [])), "per element of Module.Functions"))
    out.append(strs("clone_entry_points", sorted(cl.get("entry-points", [])), "per element of Module.EntryPoints (its Function)"))
    # writes
    wr = []
    for fn, rows in (("ProcessOverrides", a_po), ("rebuildFunctionExpressions", a_rfe), ("remapBlockHandles", a_rbh),
                     ("evaluateGlobalInitializers", a_egi), ("filterEmitsInBlock", a_feb), ("overrideRemapExprHandles", a_oreh)):
        for kind, lhs, _rhs in rows:
            if kind != "assign":
                continue
            c = classify_write(fn, lhs)
            if c is None:
                continue
            if isinstance(c, tuple):
                unknown.append(c[1])
                continue
            if c not in wr:
                wr.append(c)
    out.append(strs("process_written", sorted(wr), "locations ProcessOverrides and its helpers assign through"))
    out.append(strs("unclassified_assignments", unknown, "assignments the translator did not understand (must be empty)"))
    return [g.write("Gen/OverrideOps.v", "\n".join(out) + "\n")]
