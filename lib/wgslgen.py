"""Typed generator of WGSL-core compute programs (DESIGN Appendix C).

Type-directed, top-down: expressions are generated *of a requested type* from
the productions applicable at that type, so every program is well typed by
construction.  Loops have explicit bounded counters so executions terminate.
Array indices are in bounds by construction (constants, `% N`, bounded loop
counters).  Output: an AST (JSON-able dict, consumed by coq/Wgsl/Sem.v through
tool `wgslrun`), its WGSL text, and input data for every buffer.

AST shapes
  type  : "i32" | "u32" | "f32" | "bool" | ["vec", n, scalar] | ["mat", c, r] | ["arr", n|None, type] | ["struct", name]
          | ["ptr", "function", type]
  expr  : {"e": "lit", "t": scalar, "v": bits|bool}
          {"e": "var", "n": name}
          {"e": "un", "op": "-"|"!"|"~", "a": expr}
          {"e": "bin", "op": str, "a": expr, "b": expr}
          {"e": "call", "f": name, "args": [expr]}           user function
          {"e": "builtin", "f": name, "args": [expr]}
          {"e": "cons", "t": type, "args": [expr]}            constructor / zero value (no args)
          {"e": "idx", "a": expr, "i": expr} {"e": "mem", "a": expr, "m": index} {"e": "swz", "a": expr, "p": [i...]}
          {"e": "conv", "t": scalar, "a": expr} {"e": "bitcast", "t": scalar, "a": expr}
          {"e": "addr", "a": expr} {"e": "deref", "a": expr} {"e": "arraylen", "a": expr}
  stmt  : {"s": "let"|"var", "n": name, "t": type, "e": expr|None} {"s": "assign", "l": expr, "e": expr}
          {"s": "compound", "op": str, "l": expr, "e": expr} {"s": "incr"|"decr", "l": expr}
          {"s": "if", "c": expr, "then": [stmt], "else": [stmt]}
          {"s": "switch", "e": expr, "cases": [{"sel": [expr|"default"], "body": [stmt]}]}
          {"s": "loop", "body": [stmt], "cont": [stmt], "break_if": expr|None}
          {"s": "for", "init": stmt|None, "c": expr|None, "upd": stmt|None, "body": [stmt]} {"s": "while", "c": expr, "body": [stmt]}
          {"s": "break"} {"s": "continue"} {"s": "return", "e": expr|None} {"s": "callstmt", "f": name, "args": [expr]}
          {"s": "block", "body": [stmt]}
"""

SCALARS = ["i32", "u32", "f32", "bool"]
M32 = 1 << 32

INT_POOL = [0, 1, 2, 3, 5, 7, 31, 32, 33, 255, 256, 65535, 0x7FFFFFFF, 0x80000000, 0xFFFFFFFF, 0xFFFFFFFE, 0x80000001, 12345]
# floats on which + - * are exact for small operand counts (small integers and halves), as bit patterns
F_EXACT = [0x00000000, 0x3F800000, 0xBF800000, 0x40000000, 0xC0000000, 0x40400000, 0x3F000000, 0xBF000000,
           0x40800000, 0x40A00000, 0xC0400000, 0x41000000, 0x3FC00000]
F_SPECIAL = [0x80000000, 0x7F800000, 0xFF800000, 0x7FC00000, 0x00000001, 0x007FFFFF, 0x00800000, 0x7F7FFFFF,
             0x4F000000, 0xCF000000, 0x4F800000, 0x3EAAAAAB, 0x3DCCCCCD]


def is_vec(t):
    return isinstance(t, list) and t[0] == "vec"


def is_scalar(t):
    return isinstance(t, str)


def unsized(t):
    return isinstance(t, list) and t[0] == "arr" and (t[1] is None or unsized(t[2]))


def tstr(t):
    if is_scalar(t):
        return t
    if t[0] == "vec":
        return "vec%d<%s>" % (t[1], t[2])
    if t[0] == "mat":
        return "mat%dx%d<f32>" % (t[1], t[2])
    if t[0] == "arr":
        return "array<%s>" % tstr(t[2]) if t[1] is None else "array<%s, %d>" % (tstr(t[2]), t[1])
    if t[0] == "struct":
        return t[1]
    if t[0] == "ptr":
        return "ptr<%s, %s>" % (t[1], tstr(t[2]))
    raise ValueError(t)


def lit(t, v):
    return {"e": "lit", "t": t, "v": v}


def f32_text(bits):
    import struct
    x = struct.unpack("<f", struct.pack("<I", bits))[0]
    if x != x or x in (float("inf"), float("-inf")):
        raise ValueError("non-finite literal")
    s = repr(x)
    if "e" in s or "E" in s:
        # exact decimal expansion is long; use hex float notation via bitcast instead
        return None
    if "." not in s:
        s += ".0"
    return s + "f"


def _root_name(e):
    while isinstance(e, dict) and e.get("e") != "var":
        e = e.get("a")
    return e["n"] if isinstance(e, dict) else ""


class Gen:
    def __init__(self, rng, opts=None):
        self.rng = rng
        self.o = dict(max_depth=4, n_helpers=2, n_stmts=8, floats=True, matrices=True, structs=True, pointers=True,
                      atomics=False, workgroup=True, raw_shifts=False, f2i_safe=True, special_floats=False, loops=True,
                      avoid=(), dyn_index=True,
                      # default-neutral switches used by the text back-end checks (C05): see _safe_divisor, iclamp
                      vec_select_cond=True, safe_int_div=False, ordered_int_clamp=False, switch_tail_if=True)
        if opts:
            self.o.update(opts)
        self.structs = []      # {"name", "members": [{"n", "t"}]}
        self.globals = []      # {"n", "space", "t", "group", "binding"}
        self.consts = []       # {"n", "t", "e"}
        self.funcs = []        # {"n", "params": [{"n","t"}], "ret": t|None, "body"}
        self.uid = 0
        self.no_calls = 0

    def fresh(self, p):
        """names restart in every function (so one spelling is bound to different kinds of entity in different
        functions); `let`, `var` and pointer-lets share the prefix x.  Never spells a predeclared name."""
        self.uid += 1
        if p in ("l", "v"):
            p = "x"
        return "%s_%d" % (p, self.uid)

    def new_function_scope(self):
        self.uid = 0

    # ---------------------------------------------------------------- types
    def scalar(self, allow_bool=False):
        ks = ["i32", "u32"] + (["f32"] if self.o["floats"] else []) + (["bool"] if allow_bool else [])
        return self.rng.choice(ks)

    def value_type(self, depth=0, host=False):
        """a constructible type; host=True: host-shareable (no bool)"""
        if self.o.get("agg_bias") and depth < 2 and self.o["matrices"] and self.o["floats"] and self.rng.chance(1, self.o["agg_bias"]):
            # option agg_bias=k (C04, off by default): one type in k is a (mostly non-square) matrix or an array of a composite
            if self.rng.chance(1, 2):
                c = self.rng.range(2, 4)
                return ["mat", c, self.rng.choice([r for r in (2, 3, 4) if r != c] + [c])]
            return ["arr", self.rng.range(2, 4), self.value_type(depth + 1, host)]
        r = self.rng.below(10)
        if r < 4 or depth >= 2:
            return self.scalar(allow_bool=not host)
        if r < 7:
            return ["vec", self.rng.range(2, 4), self.scalar(allow_bool=not host and self.rng.chance(1, 5))]
        if r == 7 and self.o["matrices"] and self.o["floats"]:
            return ["mat", self.rng.range(2, 4), self.rng.range(2, 4)]
        if r == 8:
            return ["arr", self.rng.range(1, 4), self.value_type(depth + 1, host)]
        if self.o["structs"] and self.structs:
            cands = [s for s in self.structs if (not host) or s.get("host", True)]
            if cands:
                return ["struct", self.rng.choice(cands)["name"]]
        return self.scalar(allow_bool=not host)

    def make_struct(self):
        name = self.fresh("S")
        ms = []
        for i in range(self.rng.range(1, 4)):
            ms.append({"n": "m%d" % i, "t": self.value_type(1, host=True)})
        self.structs.append({"name": name, "members": ms, "host": True})
        return name

    def struct_def(self, name):
        for s in self.structs:
            if s["name"] == name:
                return s
        raise KeyError(name)

    # ---------------------------------------------------------------- expressions
    def lit_of(self, t):
        if t == "bool":
            return lit("bool", self.rng.chance(1, 2))
        if t == "f32":
            pool = F_EXACT + (F_SPECIAL if self.o["special_floats"] else [])
            v = self.rng.choice(pool)
            if v in (0x7F800000, 0xFF800000, 0x7FC00000):
                v = 0x3F800000
            return lit("f32", v)
        v = self.rng.choice(INT_POOL) if self.rng.chance(2, 3) else self.rng.below(M32)
        return lit(t, v)

    def small_u32(self, n):
        return lit("u32", self.rng.below(n))

    def leaves(self, env, t):
        """in-scope expressions of exactly type t (values)"""
        out = []
        for name, (vt, kind) in env.items():
            if kind == "fn":
                continue
            self._paths(({"e": "var", "n": name}), vt, t, out, 0)
        return out

    def _paths(self, e, vt, want, out, depth):
        if isinstance(vt, list) and vt[0] == "ptr":
            self._paths({"e": "deref", "a": e}, vt[2], want, out, depth)
            return
        if vt == want and not unsized(vt):
            out.append(e)
        if depth >= 3:
            return
        if is_vec(vt):
            if want == vt[2]:
                out.append({"e": "idx", "a": e, "i": self.small_index(vt[1])})
                out.append({"e": "swz", "a": e, "p": [self.rng.below(vt[1])]})
            if is_vec(want) and want[2] == vt[2] and self.rng.chance(1, 2):
                out.append({"e": "swz", "a": e, "p": [self.rng.below(vt[1]) for _ in range(want[1])]})
        elif isinstance(vt, list) and vt[0] == "mat":
            col = ["vec", vt[2], "f32"]
            self._paths({"e": "idx", "a": e, "i": self.small_index(vt[1])}, col, want, out, depth + 1)
        elif isinstance(vt, list) and vt[0] == "arr":
            n = vt[1]
            if n is None:
                i = {"e": "bin", "op": "%", "a": self.index_expr_u32(), "b": {"e": "arraylen", "a": {"e": "addr", "a": e}}}
            elif self.rng.chance(1, 2):
                i = lit("i32", self.rng.below(n))
            else:
                i = {"e": "bin", "op": "%", "a": self.index_expr_u32(), "b": lit("u32", n)}
            self._paths({"e": "idx", "a": e, "i": i}, vt[2], want, out, depth + 1)
        elif isinstance(vt, list) and vt[0] == "struct":
            for k, m in enumerate(self.struct_def(vt[1])["members"]):
                self._paths({"e": "mem", "a": e, "m": k, "name": m["n"]}, m["t"], want, out, depth + 1)

    def small_index(self, n):
        """index into a vector / the columns of a matrix: a literal, or (one time in three) a run-time value kept in range"""
        if self.o["dyn_index"] and self.rng.chance(1, self.o.get("dyn_index_den", 3)):
            return {"e": "bin", "op": "%", "a": self.index_expr_u32(), "b": lit("u32", n)}
        return lit("i32", self.rng.below(n))

    def index_expr_u32(self):
        """a cheap u32 expression available everywhere (set per function by caller)"""
        cands = self._idx_sources or [lit("u32", self.rng.below(8))]
        return self.rng.choice(cands)

    def expr(self, env, t, depth):
        """an expression of type t"""
        rng = self.rng
        if depth <= 0 or rng.chance(1, 5):
            ls = self.leaves(env, t)
            if ls and rng.chance(4, 5):
                # locals first, half of the time: otherwise the many paths into the module-scope buffers crowd
                # them out and a function's own variables are written but hardly ever read
                loc = [l for l in ls if _root_name(l).startswith("x_")]
                if loc and rng.chance(1, 2):
                    return rng.choice(loc)
                return rng.choice(ls)
            return self.construct(env, t, 0)
        prods = []
        if t in ("i32", "u32"):
            prods = ["arith", "arith", "bit", "shift", "unary", "builtin_int", "conv", "select", "call", "leaf", "bitcast"]
        elif t == "f32":
            prods = ["arith", "arith", "unary", "builtin_f", "conv", "select", "call", "leaf", "dot"]
        elif t == "bool":
            prods = ["cmp", "cmp", "logic", "not", "leaf", "any_all", "select", "idconv"]
        elif is_vec(t):
            prods = ["varith", "cons", "vbuiltin", "select", "leaf", "leaf", "vcmp" if t[2] == "bool" else "varith", "matvec" if t[2] == "f32" else "cons"]
            if t[2] in ("i32", "u32") and self.o.get("vbitcast", True):
                prods.append("vbitcast")
        else:
            prods = ["cons", "leaf", "leaf", "call"]
        p = rng.choice(prods)
        d = depth - 1
        if p == "leaf":
            return self.expr(env, t, 0)
        if p == "arith":
            op = rng.choice(["+", "-", "*", "/", "%"] if t != "f32" else ["+", "-", "*"])
            if op in ("/", "%") and self.o["safe_int_div"]:
                return self._safe_div(op, t, self.expr(env, t, d), t, self.expr(env, t, d))
            return {"e": "bin", "op": op, "a": self.expr(env, t, d), "b": self.expr(env, t, d)}
        if p == "bit":
            return {"e": "bin", "op": rng.choice(["&", "|", "^"]), "a": self.expr(env, t, d), "b": self.expr(env, t, d)}
        if p == "shift":
            amt = self.expr(env, "u32", d)
            if not self.o["raw_shifts"]:
                amt = {"e": "bin", "op": "%", "a": amt, "b": lit("u32", 32)}
            return {"e": "bin", "op": rng.choice(["<<", ">>"]), "a": self.expr(env, t, d), "b": amt}
        if p == "unary":
            if t == "u32":
                return {"e": "un", "op": "~", "a": self.expr(env, t, d)}
            return {"e": "un", "op": rng.choice(["-", "~"] if t == "i32" else ["-"]), "a": self.expr(env, t, d)}
        if p == "builtin_int":
            f = rng.choice([x for x in ["abs", "min", "max", "clamp", "countOneBits", "countLeadingZeros", "countTrailingZeros",
                                        "reverseBits", "firstLeadingBit", "firstTrailingBit", "extractBits", "insertBits"]
                            if x not in self.o["avoid"] and x + ":" + t not in self.o["avoid"]])
            if f == "clamp" and self.o["ordered_int_clamp"]:
                return self.fclamp(env, t, d)
            if f in ("min", "max"):
                return {"e": "builtin", "f": f, "args": [self.expr(env, t, d), self.expr(env, t, d)]}
            if f == "clamp":
                return {"e": "builtin", "f": f, "args": [self.expr(env, t, d), self.expr(env, t, d), self.expr(env, t, d)]}
            if f == "extractBits":
                return {"e": "builtin", "f": f, "args": [self.expr(env, t, d), self.expr(env, "u32", 0), self.expr(env, "u32", 0)]}
            if f == "insertBits":
                return {"e": "builtin", "f": f, "args": [self.expr(env, t, d), self.expr(env, t, d), self.expr(env, "u32", 0), self.expr(env, "u32", 0)]}
            return {"e": "builtin", "f": f, "args": [self.expr(env, t, d)]}
        if p == "builtin_f":
            f = rng.choice([x for x in ["abs", "min", "max", "clamp", "floor", "ceil", "trunc", "round", "sign", "fma", "saturate"]
                            if x + ":f32" not in self.o["avoid"]])
            n = {"min": 2, "max": 2, "clamp": 3, "fma": 3}.get(f, 1)
            if f == "clamp":
                return self.fclamp(env, t, d)
            return {"e": "builtin", "f": f, "args": [self.expr(env, t, d) for _ in range(n)]}
        if p == "idconv":
            return {"e": "conv", "t": t, "a": self.expr(env, t, d)}
        if p == "conv":
            if rng.chance(1, 6):
                return {"e": "conv", "t": t, "a": self.expr(env, t, d)}      # identity conversion: i32(i), f32(x), bool(b)
            src = rng.choice([s for s in SCALARS if s != t and (s != "f32" or self.o["floats"])])
            a = self.expr(env, src, d)
            if src == "f32" and t in ("i32", "u32") and self.o["f2i_safe"]:
                # keep the operand in a range every target converts identically
                a = {"e": "builtin", "f": "clamp", "args": [a, lit("f32", 0x00000000 if t == "u32" else 0xC47A0000), lit("f32", 0x447A0000)]}
            return {"e": "conv", "t": t, "a": a}
        if p == "bitcast":
            src = rng.choice(["i32", "u32"] + (["f32"] if self.o["floats"] and self.o["special_floats"] else []))
            return {"e": "bitcast", "t": t, "a": self.expr(env, src, d)}
        if p == "select":
            return {"e": "builtin", "f": "select", "args": [self.expr(env, t, d), self.expr(env, t, d),
                                                          self.expr(env, "bool" if not is_vec(t) or rng.chance(1, 2) or not self.o["vec_select_cond"]
                                                                    else ["vec", t[1], "bool"], d)]}
        if p == "call":
            fs = [f for f in self.funcs if f["ret"] == t and f["n"] in env and self.no_calls == 0 and self._callable(f)]
            if fs:
                f = rng.choice(fs)
                args = [self.arg_for(env, q["t"], d) for q in f["params"]]
                if all(a is not None for a in args):
                    return {"e": "call", "f": f["n"], "args": args}
            return self.expr(env, t, d)
        if p == "dot":
            n = rng.range(2, 4)
            vt = ["vec", n, "f32"]
            return {"e": "builtin", "f": "dot", "args": [self.expr(env, vt, d), self.expr(env, vt, d)]}
        if p == "cmp":
            st = self.scalar()
            op = rng.choice(["==", "!=", "<", "<=", ">", ">="])
            return {"e": "bin", "op": op, "a": self.expr(env, st, d), "b": self.expr(env, st, d)}
        if p == "logic":
            return {"e": "bin", "op": rng.choice(["&&", "||", "&", "|"]), "a": self.expr(env, "bool", d), "b": self.expr(env, "bool", d)}
        if p == "not":
            return {"e": "un", "op": "!", "a": self.expr(env, "bool", d)}
        if p == "any_all":
            vt = ["vec", rng.range(2, 4), "bool"]
            return {"e": "builtin", "f": rng.choice(["any", "all"]), "args": [self.expr(env, vt, d)]}
        if p == "vbitcast":
            # bitcast between integer vectors of one width; the operand is often a swizzle (an inline-typed vector)
            src = ["vec", t[1], "u32" if t[2] == "i32" else "i32"]
            return {"e": "bitcast", "t": t, "a": self.expr(env, src, d if rng.chance(1, 2) else 0)}
        if p == "varith":
            if t[2] == "bool":
                return self.expr(env, t, 0)
            ops = ["+", "-", "*"] + (["/", "%", "&", "|", "^"] if t[2] != "f32" else [])
            op = rng.choice(ops)
            a = self.expr(env, t, d)
            bt = t if rng.chance(2, 3) or op in ("&", "|", "^") else t[2]
            b = self.expr(env, bt, d)
            if rng.chance(1, 2) and not is_scalar(b) is False:
                pass
            if op in ("/", "%") and self.o["safe_int_div"]:
                return self._safe_div(op, t, a, bt, b)
            return {"e": "bin", "op": op, "a": a, "b": b}
        if p == "vcmp":
            st = self.scalar()
            vt = ["vec", t[1], st]
            return {"e": "bin", "op": rng.choice(["==", "!=", "<", "<=", ">", ">="]), "a": self.expr(env, vt, d), "b": self.expr(env, vt, d)}
        if p == "vbuiltin":
            if t[2] == "bool":
                return {"e": "un", "op": "!", "a": self.expr(env, t, d)}
            f = rng.choice([x for x in ["abs", "min", "max", "clamp"] + (["floor", "ceil"] if t[2] == "f32" else ["countOneBits"])
                            if x + ":" + t[2] not in self.o["avoid"]])
            n = {"min": 2, "max": 2, "clamp": 3}.get(f, 1)
            if f == "clamp" and (t[2] == "f32" or self.o["ordered_int_clamp"]):
                return self.fclamp(env, t, d)
            return {"e": "builtin", "f": f, "args": [self.expr(env, t, d) for _ in range(n)]}
        if p == "matvec" and self.o["matrices"]:
            # mat(c x r) * vec(c) -> vec(r)
            c = rng.range(2, 4)
            return {"e": "bin", "op": "*", "a": self.expr(env, ["mat", c, t[1]], d), "b": self.expr(env, ["vec", c, "f32"], d)}
        return self.construct(env, t, d)

    def fclamp(self, env, t, d):
        """float clamp with low <= high (WGSL leaves the choice between two formulas open otherwise)"""
        a = self.expr(env, t, max(0, d - 1))
        b = self.expr(env, t, 0)
        return {"e": "builtin", "f": "clamp", "args": [self.expr(env, t, d),
                                                        {"e": "builtin", "f": "min", "args": [a, b]},
                                                        {"e": "builtin", "f": "max", "args": [a, b]}]}

    def _safe_div(self, op, t, a, bt, b):
        """option safe_int_div: integer `a / b`, `a % b` (t: type of a and of the result, bt: type of b, the same or
        its component type) on operands for which every target language defines the result: divisor in 1..65535,
        left operand of a signed % non-negative"""
        k = t if is_scalar(t) else t[2]

        def splat(ty, v):
            return lit(k, v) if is_scalar(ty) else {"e": "cons", "t": ty, "args": [lit(k, v)]}
        b = {"e": "bin", "op": "|", "a": {"e": "bin", "op": "&", "a": b, "b": splat(bt, 0xFFFF)}, "b": splat(bt, 1)}
        if op == "%" and k == "i32":
            a = {"e": "bin", "op": "&", "a": a, "b": splat(t, 0x7FFFFFFF)}
        return {"e": "bin", "op": op, "a": a, "b": b}

    def arg_for(self, env, t, d):
        if isinstance(t, list) and t[0] == "ptr":
            # address of a local variable of that type
            cands = [n for n, (vt, kind) in env.items() if kind == "var" and vt == t[2]]
            if cands:
                return {"e": "addr", "a": {"e": "var", "n": self.rng.choice(cands)}}
            return None
        return self.expr(env, t, d)

    def construct(self, env, t, d):
        if is_scalar(t):
            return self.lit_of(t)
        if self.rng.chance(1, 8):
            return {"e": "cons", "t": t, "args": []}
        if t[0] == "vec":
            n = t[1]
            r = self.rng.below(4)
            if r == 0:
                return {"e": "cons", "t": t, "args": [self.expr(env, t[2], d)]}          # splat
            if r == 1 and n >= 3:
                return {"e": "cons", "t": t, "args": [self.expr(env, ["vec", n - 1, t[2]], d), self.expr(env, t[2], d)]}
            return {"e": "cons", "t": t, "args": [self.expr(env, t[2], d) for _ in range(n)]}
        if t[0] == "mat":
            col = ["vec", t[2], "f32"]
            return {"e": "cons", "t": t, "args": [self.expr(env, col, d) for _ in range(t[1])]}
        if t[0] == "arr":
            return {"e": "cons", "t": t, "args": [self.expr(env, t[2], max(0, d - 1)) for _ in range(t[1])]}
        if t[0] == "struct":
            return {"e": "cons", "t": t, "args": [self.expr(env, m["t"], max(0, d - 1)) for m in self.struct_def(t[1])["members"]]}
        raise ValueError(t)

    # ---------------------------------------------------------------- lvalues
    def lvalues(self, env, want=None):
        """assignable reference expressions with their types: locals (var), pointer params, writable globals"""
        out = []
        for name, (vt, kind) in env.items():
            if kind in ("var", "gvar_rw"):
                self._lpaths({"e": "var", "n": name}, vt, out, 0)
            elif kind == "let" and isinstance(vt, list) and vt[0] == "ptr":
                self._lpaths({"e": "deref", "a": {"e": "var", "n": name}}, vt[2], out, 0)
        if want is not None:
            out = [(e, t) for e, t in out if t == want]
        return out

    def _lpaths(self, e, vt, out, depth):
        if not unsized(vt):
            out.append((e, vt))
        if depth >= 3:
            return
        if is_vec(vt):
            out.append(({"e": "idx", "a": e, "i": self.small_index(vt[1])}, vt[2]))
            out.append(({"e": "swz", "a": e, "p": [self.rng.below(vt[1])]}, vt[2]))
        elif vt[0] == "mat" if isinstance(vt, list) else False:
            self._lpaths({"e": "idx", "a": e, "i": self.small_index(vt[1])}, ["vec", vt[2], "f32"], out, depth + 1)
        elif isinstance(vt, list) and vt[0] == "arr":
            n = vt[1]
            if n is None:
                i = {"e": "bin", "op": "%", "a": self.index_expr_u32(), "b": {"e": "arraylen", "a": {"e": "addr", "a": e}}}
            elif self.rng.chance(1, 2):
                i = lit("i32", self.rng.below(n))
            else:
                i = {"e": "bin", "op": "%", "a": self.index_expr_u32(), "b": lit("u32", n)}
            self._lpaths({"e": "idx", "a": e, "i": i}, vt[2], out, depth + 1)
        elif isinstance(vt, list) and vt[0] == "struct":
            for k, m in enumerate(self.struct_def(vt[1])["members"]):
                self._lpaths({"e": "mem", "a": e, "m": k, "name": m["n"]}, m["t"], out, depth + 1)

    # ---------------------------------------------------------------- statements
    def block(self, env, n, depth, in_loop, ret_t, in_switch=False, allow_return=True):
        env = dict(env)
        out = []
        if (in_loop or in_switch) and getattr(self, "_in_helper", False) and not self.o.get("helper_ret_nested", True):
            allow_return = False      # option helper_ret_nested=False (C13): no `return` inside a loop or switch of a helper
        saved, self._in_loop = getattr(self, "_in_loop", False), in_loop     # read by _callable
        for _ in range(n):
            out += self.stmt(env, depth, in_loop, ret_t, in_switch, allow_return)
        self._in_loop = saved
        return out

    def _callable(self, f):
        """option loop_calls="nolocals" (C13): inside loops only helpers without local variables (their own or those of
        the helpers they call) are called"""
        return not (self.o.get("loop_calls", "all") == "nolocals" and getattr(self, "_in_loop", False)
                    and getattr(self, "_fn_locals", {}).get(f["n"], False))

    def _note_locals(self, name, body):
        """records whether helper `name` has local variables, its own or those of the helpers it calls (for _callable)"""
        import json
        txt = json.dumps(body)
        tab = self.__dict__.setdefault("_fn_locals", {})
        tab[name] = '"s": "var"' in txt or any(v and '"f": "%s"' % n in txt for n, v in tab.items())

    def _switch_extras(self, env, st, spare, cases):
        """options switch_multi / switch_calls (C13).  switch_multi: selector values not used yet join the existing
        clauses at a random position (`case 4u, 2u, 0u:`), and one time in four `default` joins a clause
        (`case 1u, default:`); switch_calls: one case body starts with a call of a helper (call statement or
        `x = h(..);`).  Decisions are drawn from a forked generator: apart from fresh names the rest of the program is
        the one generated without these options."""
        main = self.rng
        r = self.rng = main.fork("switch_extras")
        try:
            named = [c for c in cases if c["sel"] != ["default"]]
            if self.o.get("switch_multi") and named:
                for v in spare:
                    if r.chance(2, 3):
                        c = r.choice(named)
                        c["sel"].insert(r.below(len(c["sel"]) + 1), lit(st, v))
                if r.chance(1, 4):
                    c = r.choice(named)
                    cases[:] = [x for x in cases if x["sel"] != ["default"]]
                    c["sel"].insert(r.below(len(c["sel"]) + 1), "default")
            if self.o.get("switch_calls") and self.no_calls == 0:
                for f in r.shuffle([f for f in self.funcs if f["n"] in env and self._callable(f)])[:3]:
                    args = [self.arg_for(env, q["t"], 1) for q in f["params"]]
                    if any(a is None for a in args):
                        continue
                    call = {"e": "call", "f": f["n"], "args": args}
                    lvs = self.lvalues(env, want=f["ret"]) if f["ret"] is not None else []
                    if f["ret"] is None:
                        s = {"s": "callstmt", "f": f["n"], "args": args}
                    elif lvs:
                        g = [x for x in lvs if self._root_kind(env, x[0]) == "gvar_rw"]
                        s = {"s": "assign", "l": r.choice(g if g and r.chance(2, 3) else lvs)[0], "e": call}
                    else:
                        s = {"s": "let", "n": self.fresh("l"), "t": f["ret"], "e": call}
                    r.choice(cases)["body"].insert(0, s)
                    break
        finally:
            self.rng = main

    def _small_helpers(self, env):
        """option small_helpers (C13): one or two helpers s0, s1 of the shape every inlining policy accepts: scalar
        parameters, no local variables, no control flow, no calls; `return a OP e;`, one time in two after one store to a
        writable module-scope variable.  Drawn from a forked generator."""
        main = self.rng
        r = self.rng = main.fork("small_helpers")
        self.no_calls += 1
        try:
            for k in range(r.range(1, 2)):
                name = "s%d" % k
                self.new_function_scope()
                t = r.choice(["u32", "i32"] + (["f32"] if self.o["floats"] else []))
                params = [{"n": "a%d_%d" % (k, i), "t": t if i == 0 else self.scalar()} for i in range(r.range(1, 2))]
                fenv = dict(env)
                for q in params:
                    fenv[q["n"]] = (q["t"], "let")
                self._idx_sources = [lit("u32", r.below(16))] + [{"e": "var", "n": q["n"]} for q in params if q["t"] == "u32"]
                body = []
                lvs = [x for x in self.lvalues(fenv) if x[1] in ("i32", "u32", "f32")]
                if lvs and r.chance(1, 2):
                    l, lt = r.choice(lvs)
                    body.append({"s": "assign", "l": l, "e": self.expr(fenv, lt, 2)})
                op = r.choice(["+", "-", "*"] + (["^", "|"] if t != "f32" else []))
                body.append({"s": "return", "e": {"e": "bin", "op": op, "a": {"e": "var", "n": params[0]["n"]}, "b": self.expr(fenv, t, 2)}})
                self.funcs.append({"n": name, "params": params, "ret": t, "body": body})
                env[name] = (t, "fn")
        finally:
            self.no_calls -= 1
            self.rng = main

    def stmt(self, env, depth, in_loop, ret_t, in_switch, allow_return):
        rng = self.rng
        d = self.o["max_depth"]
        choices = ["let", "var", "assign", "assign", "assign", "compound", "incr"]
        if self.o["pointers"] and any(k == "var" for _n, (_t, k) in env.items()):
            choices.append("ptrlet")
        if depth > 0:
            choices += ["if", "if", "switch", "block"]
            if self.o["loops"]:
                choices += ["for", "loop", "while"]
        if in_loop:
            choices += ["break_if", "continue_if"]
        if any(f["ret"] is None for f in self.funcs if f["n"] in env and self._callable(f)):
            choices.append("callstmt")
        if allow_return and rng.chance(1, 12):
            choices.append("return_if")
        c = rng.choice(choices)
        if c == "let":
            t = self.value_type()
            n = self.fresh("l")
            s = {"s": "let", "n": n, "t": t, "e": self.expr(env, t, d - 1)}
            env[n] = (t, "let")
            return [s]
        if c == "ptrlet":
            # let p = &v;  (pointer to a local variable or to one of its components)
            cands = [(e, t) for e, t in self.lvalues(env) if self._root_kind(env, e) == "var" and e.get("e") != "swz"
                     and not (e.get("e") == "idx" and is_vec(self._type_of_base(env, e)))]
            if not cands:
                return []
            e, t = rng.choice(cands)
            n = self.fresh("l")
            env[n] = (["ptr", "function", t], "let")
            return [{"s": "let", "n": n, "t": ["ptr", "function", t], "e": {"e": "addr", "a": e}}]
        if c == "var":
            t = self.value_type()
            n = self.fresh("v")
            s = {"s": "var", "n": n, "t": t, "e": self.expr(env, t, d - 1) if rng.chance(3, 4) else None}
            env[n] = (t, "var")
            return [s]
        if c in ("assign", "compound", "incr"):
            lvs = self.lvalues(env)
            if not lvs:
                return self.stmt(env, depth, in_loop, ret_t, in_switch, allow_return) if rng.chance(1, 2) else []
            # prefer stores to storage buffers
            g = [x for x in lvs if self._root_kind(env, x[0]) == "gvar_rw"]
            l, t = rng.choice(g if g and rng.chance(2, 3) else lvs)
            if l.get("e") == "swz" and len(l["p"]) != 1:
                return []
            if c == "assign":
                return [{"s": "assign", "l": l, "e": self.expr(env, t, d - 1)}]
            if c == "incr":
                if t in ("i32", "u32"):
                    return [{"s": rng.choice(["incr", "decr"]), "l": l}]
                return []
            if t in ("i32", "u32"):
                op = rng.choice(["+", "-", "*", "/", "%", "&", "|", "^"])
            elif t == "f32":
                op = rng.choice(["+", "-", "*"])
            elif is_vec(t) and t[2] != "bool":
                op = rng.choice(["+", "-", "*"])
            else:
                return []
            self.no_calls += 1
            try:
                rhs = self.expr(env, t, d - 2)
            finally:
                self.no_calls -= 1
            if op in ("/", "%") and self.o["safe_int_div"]:
                # (the left operand is the variable itself: x = x op rhs' spelled out)
                return [{"s": "assign", "l": l, "e": self._safe_div(op, t, l, t, rhs)}]
            return [{"s": "compound", "op": op, "l": l, "e": rhs}]
        if c == "if":
            st = {"s": "if", "c": self.expr(env, "bool", d - 1),
                  "then": self.block(env, rng.range(1, 3), depth - 1, in_loop, ret_t, in_switch, allow_return),
                  "else": self.block(env, rng.range(0, 2), depth - 1, in_loop, ret_t, in_switch, allow_return)}
            if rng.chance(1, 3):
                # `else if` continuation (rendered as such): its condition and arms are where a traversal that only
                # follows plain else blocks loses references
                st["else"] = [{"s": "if", "c": self.expr(env, "bool", d - 1),
                               "then": self.block(env, rng.range(1, 2), depth - 1, in_loop, ret_t, in_switch, allow_return),
                               "else": st["else"]}]
                st["elif"] = True
            return [st]
        if c == "switch":
            st = rng.choice(["i32", "u32"])
            sel = {"e": "bin", "op": "%", "a": self.expr(env, st, d - 2), "b": lit(st, 5)}
            if self.o["safe_int_div"] and st == "i32":
                sel["a"] = {"e": "bin", "op": "&", "a": sel["a"], "b": lit("i32", 0x7FFFFFFF)}
            vals = rng.shuffle(list(range(0, 5)))
            cases = []
            k = 0
            for _ in range(rng.range(1, 3)):
                nsel = rng.range(1, 2)
                sels = [lit(st, v) for v in vals[k:k + nsel]]
                k += nsel
                cases.append({"sel": sels, "body": self.block(env, rng.range(1, 2), depth - 1, in_loop, ret_t, True, allow_return)})
            dflt = {"sel": ["default"], "body": self.block(env, rng.range(0, 2), depth - 1, in_loop, ret_t, True, allow_return)}
            cases.insert(rng.below(len(cases) + 1), dflt)
            if rng.chance(1, 3) and cases[0]["sel"] != ["default"]:
                cases[0]["body"].append({"s": "break"})
            elif rng.chance(1, 4):
                # every selector clause ends in `break;`; the default clause too only on request: a switch ALL of whose
                # clauses end by leaving it is a recorded SPIR-V finding (spv-switch-all-break-merge-unreachable)
                for cs in cases:
                    if cs["sel"] != ["default"] or self.o.get("switch_all_break"):
                        cs["body"].append({"s": "break"})
            if self.o["switch_tail_if"]:
                self._switch_tail_if(env, cases, in_loop)
            if self.o.get("switch_multi") or self.o.get("switch_calls"):
                self._switch_extras(env, st, vals[k:], cases)     # options of C13, off by default
            return [{"s": "switch", "e": sel, "cases": cases}]
        if c == "block":
            return [{"s": "block", "body": self.block(env, rng.range(1, 3), depth - 1, in_loop, ret_t, in_switch, allow_return)}]
        if c == "for":
            i = self.fresh("i")
            n = rng.range(1, 4)
            env2 = dict(env)
            env2[i] = ("i32", "counter")      # readable, never assigned by generated statements
            body = self.block(env2, rng.range(1, 3), depth - 1, True, ret_t, False, allow_return)
            upd = {"s": "incr", "l": {"e": "var", "n": i}} if rng.chance(1, 2) else \
                  {"s": "compound", "op": "+", "l": {"e": "var", "n": i}, "e": lit("i32", 1)}
            return [{"s": "for", "init": {"s": "var", "n": i, "t": "i32", "e": lit("i32", 0)},
                     "c": {"e": "bin", "op": "<", "a": {"e": "var", "n": i}, "b": lit("i32", n)},
                     "upd": upd, "body": self._protect_counter(body, i)}]
        if c == "while":
            i = self.fresh("w")
            n = rng.range(1, 4)
            env2 = dict(env)
            body = self.block(env2, rng.range(1, 2), depth - 1, True, ret_t, False, allow_return)
            # counter incremented first so `continue` cannot skip it
            body = [{"s": "incr", "l": {"e": "var", "n": i}}] + body
            return [{"s": "var", "n": i, "t": "u32", "e": lit("u32", 0)},
                    {"s": "while", "c": {"e": "bin", "op": "<", "a": {"e": "var", "n": i}, "b": lit("u32", n)}, "body": body}]
        if c == "loop":
            i = self.fresh("k")
            n = rng.range(1, 4)
            env2 = dict(env)
            body = self.block(env2, rng.range(1, 3), depth - 1, True, ret_t, False, allow_return)
            cont = [{"s": "incr", "l": {"e": "var", "n": i}}]
            if getattr(self, "tick", None) and rng.chance(2, 3):
                # counter advanced through the helper: k = tick(k)
                cont = [{"s": "assign", "l": {"e": "var", "n": i}, "e": {"e": "call", "f": "tick", "args": [{"e": "var", "n": i}]}}]
            if rng.chance(1, 2):
                lvs = [x for x in self.lvalues(env) if x[1] in ("i32", "u32")]
                if lvs:
                    l, t = rng.choice(lvs)
                    cont.append({"s": "compound", "op": "+", "l": l, "e": lit(t, 1)})
            cond = {"e": "bin", "op": ">=", "a": {"e": "var", "n": i}, "b": lit("u32", n)}
            if rng.chance(1, 2):
                return [{"s": "var", "n": i, "t": "u32", "e": lit("u32", 0)},
                        {"s": "loop", "body": body, "cont": cont, "break_if": cond}]
            return [{"s": "var", "n": i, "t": "u32", "e": lit("u32", 0)},
                    {"s": "loop", "body": [{"s": "if", "c": cond, "then": [{"s": "break"}], "else": []}] + body, "cont": cont, "break_if": None}]
        if c == "break_if":
            inner = [{"s": "break"}] if not in_switch else [{"s": "continue"}]
            return [{"s": "if", "c": self.expr(env, "bool", d - 2), "then": inner, "else": []}]
        if c == "continue_if":
            return [{"s": "if", "c": self.expr(env, "bool", d - 2), "then": [{"s": "continue"}], "else": []}]
        if c == "callstmt":
            f = rng.choice([f for f in self.funcs if f["ret"] is None and f["n"] in env and self._callable(f)])
            args = [self.arg_for(env, q["t"], d - 2) for q in f["params"]]
            if any(a is None for a in args):
                return []
            return [{"s": "callstmt", "f": f["n"], "args": args}]
        if c == "return_if":
            return [{"s": "if", "c": self.expr(env, "bool", d - 2),
                     "then": [{"s": "return", "e": self.expr(env, ret_t, d - 2) if ret_t is not None else None}], "else": []}]
        return []

    def _switch_tail_if(self, env, cases, in_loop):
        """one time in two, a case that is not the last one gets a final `if c { x = e; break; }` (or the mirrored
        `if c { x = e; } else { y = f; break; }`, or `continue` inside a loop): an if with exactly ONE arm that leaves
        the case, so whether control reaches the end of the case body depends on run-time data.  Decisions are drawn
        from a forked generator and no names are introduced: the rest of the program is the one generated without
        this production."""
        main = self.rng
        r = main.fork("switch_tail_if")
        if not r.chance(1, 2):
            return
        cands = [c for c in cases[:-1] if not (c["body"] and c["body"][-1].get("s") in ("break", "continue", "return"))]
        if not cands:
            return
        self.rng = r
        self.no_calls += 1
        try:
            lvs = self.lvalues(env)
            if not lvs:
                return
            d = max(1, self.o["max_depth"] - 2)

            def store():
                g = [x for x in lvs if self._root_kind(env, x[0]) == "gvar_rw"]
                l, t = r.choice(g if g and r.chance(2, 3) else lvs)
                return {"s": "assign", "l": l, "e": self.expr(env, t, d)}
            leave = {"s": "continue"} if in_loop and r.chance(1, 3) else {"s": "break"}
            cond = self.expr(env, "bool", d)
            if r.chance(2, 3):
                tail = {"s": "if", "c": cond, "then": [store(), leave], "else": []}
            else:
                tail = {"s": "if", "c": cond, "then": [store()], "else": [store(), leave]}
            r.choice(cands)["body"].append(tail)
        finally:
            self.no_calls -= 1
            self.rng = main

    def _type_of_base(self, env, e):
        """type of the base expression of an index/member access path (None when unknown)"""
        b = e.get("a")
        path = []
        while b is not None and b.get("e") in ("idx", "mem", "deref"):
            path.append(b)
            b = b.get("a")
        if b is None or b.get("e") != "var":
            return None
        t = env.get(b["n"], (None, None))[0]
        for step in reversed(path):
            if t is None:
                return None
            if step["e"] == "deref":
                t = t[2] if isinstance(t, list) and t[0] == "ptr" else None
            elif step["e"] == "mem":
                t = self.struct_def(t[1])["members"][step["m"]]["t"] if isinstance(t, list) and t[0] == "struct" else None
            else:
                if isinstance(t, list) and t[0] == "arr":
                    t = t[2]
                elif isinstance(t, list) and t[0] == "mat":
                    t = ["vec", t[2], "f32"]
                elif is_vec(t):
                    t = t[2]
                else:
                    t = None
        return t

    def _protect_counter(self, body, i):
        """the loop counter must not be assigned in the body: filter such statements"""
        def touches(s):
            l = s.get("l")
            return l is not None and l.get("e") == "var" and l.get("n") == i
        return [s for s in body if not touches(s)]

    def _root_kind(self, env, e):
        while e.get("e") in ("idx", "mem", "swz", "deref"):
            e = e["a"]
        if e.get("e") == "var":
            return env.get(e["n"], (None, None))[1]
        return None

    # ---------------------------------------------------------------- program
    def program(self):
        rng = self.rng
        if self.o["structs"]:
            for _ in range(rng.range(0, 2)):
                self.make_struct()
        env = {}
        # resources: always one rw storage buffer of u32 for results, plus extras
        binding = 0
        out_t = ["arr", None, rng.choice(["u32", "i32"])]
        self.globals.append({"n": "out0", "space": "storage_rw", "t": out_t, "group": 0, "binding": binding})
        env["out0"] = (out_t, "gvar_rw")
        binding += 1
        for k in range(rng.range(1, 3)):
            space = rng.choice(["storage_rw", "storage_r", "uniform"])
            if space == "uniform":
                t = self.uniform_type()
            else:
                t = rng.choice([["arr", None, self.value_type(1, host=True)], self.value_type(0, host=True),
                                ["arr", rng.range(2, 4), self.value_type(1, host=True)]])
                if is_scalar(t) and space == "storage_rw" and rng.chance(1, 2):
                    t = ["arr", rng.range(2, 5), t]
            n = "g%d" % k
            self.globals.append({"n": n, "space": space, "t": t, "group": rng.below(2), "binding": binding})
            env[n] = (t, "gvar_rw" if space == "storage_rw" else "gvar_r")
            binding += 1
        if rng.chance(1, 2):
            t = self.value_type()
            self.globals.append({"n": "priv0", "space": "private", "t": t, "e": self.const_expr(t, scalar_nonneg=True) if rng.chance(1, 2) and self.flat_init_ok(t) else None})
            env["priv0"] = (t, "gvar_rw")
        if self.o["workgroup"] and rng.chance(1, 3):
            t = self.value_type(1, host=True)
            self.globals.append({"n": "wg0", "space": "workgroup", "t": t})
            env["wg0"] = (t, "gvar_rw")
        for k in range(rng.range(0, 2)):
            t = self.scalar(allow_bool=True) if rng.chance(2, 3) else ["vec", rng.range(2, 4), self.scalar()]
            n = "K%d" % k
            self.consts.append({"n": n, "t": t, "e": self.const_expr(t)})
            env[n] = (t, "const")
        self._idx_sources = []
        # a helper that is the SOLE user of its own buffer and is called only from continuing blocks
        self.tick = None
        if self.o.get("cont_call", True) and self.o["loops"] and rng.chance(1, 2):
            self.globals.append({"n": "gtick", "space": "storage_rw", "t": ["arr", 2, "u32"], "group": 1, "binding": binding})
            binding += 1
            self.funcs.append({"n": "tick", "params": [{"n": "k", "t": "u32"}], "ret": "u32",
                               "body": [{"s": "compound", "op": "+", "l": {"e": "idx", "a": {"e": "var", "n": "gtick"}, "i": lit("i32", 0)}, "e": {"e": "var", "n": "k"}},
                                        {"s": "return", "e": {"e": "bin", "op": "+", "a": {"e": "var", "n": "k"}, "b": lit("u32", 1)}}]})
            self.tick = "tick"
        if self.o.get("small_helpers"):
            self._small_helpers(env)      # option of C13, off by default
        # helper functions (callable from later functions and main; no recursion)
        for k in range(rng.range(0, self.o["n_helpers"])):
            self.helper(env, k)
        # entry point
        self.new_function_scope()
        menv = dict(env)
        menv["gid"] = (["vec", 3, "u32"], "let")
        self._idx_sources = [{"e": "swz", "a": {"e": "var", "n": "gid"}, "p": [0]}, lit("u32", rng.below(16))]
        body = self.block(menv, self.o["n_stmts"], 3, False, None)
        # make sure something observable happens: store a digest of a few locals
        body += self.final_stores(menv)
        self.entry = {"n": "main", "wg": [rng.choice([1, 2, 4]), 1, 1], "params": [{"n": "gid", "builtin": "global_invocation_id"}], "body": body}
        return {"structs": self.structs, "globals": self.globals, "consts": self.consts, "funcs": self.funcs, "entry": self.entry}

    def uniform_type(self):
        # uniform address space: avoid arrays of scalars (stride 16 rule) and bare bool
        r = self.rng.below(3)
        if r == 0:
            return ["vec", 4, self.scalar()]
        if r == 1 and self.o["matrices"] and self.o["floats"]:
            return ["mat", self.rng.choice([2, 3, 4]), 4]
        return ["vec", self.rng.choice([2, 4]), self.scalar()]

    def flat_init_ok(self, t):
        """initialiser shapes of private variables that the lowerer keeps (others are silently dropped: known finding)"""
        return is_scalar(t)   # vector/array constructors may get literals of the wrong scalar kind (known finding)

    def const_expr(self, t, scalar_nonneg=False):
        """module-scope initialiser within what the lowerer handles correctly (see known findings:
        non-literal scalar initialisers of private variables are dropped; nested partial constructors
        in consts get an invalid type handle): literals and flat constructors only."""
        if is_scalar(t):
            e = self.lit_of(t)
            if scalar_nonneg and t != "bool":
                if t == "f32" and e["v"] & 0x80000000:
                    e = lit("f32", e["v"] & 0x7FFFFFFF)
                if t == "i32" and e["v"] & 0x80000000:
                    e = lit("i32", e["v"] & 0x7FFFFFFF)
            return e
        if t[0] == "vec":
            return {"e": "cons", "t": t, "args": [self.const_expr(t[2], scalar_nonneg) for _ in range(t[1])]}
        if t[0] == "mat":
            return {"e": "cons", "t": t, "args": [self.const_expr(["vec", t[2], "f32"], scalar_nonneg) for _ in range(t[1])]}
        if t[0] == "arr":
            return {"e": "cons", "t": t, "args": [self.const_expr(t[2], scalar_nonneg) for _ in range(t[1])]}
        if t[0] == "struct":
            return {"e": "cons", "t": t, "args": [self.const_expr(m["t"]) for m in self.struct_def(t[1])["members"]]}
        raise ValueError(t)

    def helper(self, env, k):
        rng = self.rng
        name = "h%d" % k
        self.new_function_scope()
        params = []
        fenv = {n: v for n, v in env.items()}
        for i in range(rng.range(0, 3)):
            if self.o["pointers"] and rng.chance(1, 4):
                t = ["ptr", "function", self.value_type(1)]
            else:
                t = self.value_type(1) if self.o.get("agg_params", True) else self.scalar(allow_bool=True)
            pn = "p%d_%d" % (k, i)
            params.append({"n": pn, "t": t})
            fenv[pn] = (t, "let")
        ret = self.value_type(1) if rng.chance(3, 4) else None
        self._idx_sources = [lit("u32", rng.below(16))] + [{"e": "var", "n": p["n"]} for p in params if p["t"] == "u32"]
        pro = []
        if self.o["pointers"] and rng.chance(1, 2):
            # a local and a pointer-let to it, early in the helper: the low-numbered spellings are the ones other
            # functions bind to plain `var`s and `let`s, so per-function binding-kind state is exercised
            for _ in range(rng.below(2)):
                t0 = self.scalar()
                n0 = self.fresh("l")
                pro.append({"s": "let", "n": n0, "t": t0, "e": self.expr(fenv, t0, 1)})
                fenv[n0] = (t0, "let")
            t1 = self.value_type(1)
            n1 = self.fresh("v")
            pro.append({"s": "var", "n": n1, "t": t1, "e": self.expr(fenv, t1, 1)})
            fenv[n1] = (t1, "var")
            n2 = self.fresh("l")
            pro.append({"s": "let", "n": n2, "t": ["ptr", "function", t1], "e": {"e": "addr", "a": {"e": "var", "n": n1}}})
            fenv[n2] = (["ptr", "function", t1], "let")
        self._in_helper = True       # read by block (option helper_ret_nested)
        body = pro + self.block(fenv, rng.range(1, 4), 2, False, ret)
        self._in_helper = False
        if ret is not None:
            body.append({"s": "return", "e": self.expr(fenv, ret, 2)})
        elif not self.o.get("helper_ret_nested", True):
            # the lowerer moves the implicit return of a void function into the arms of a trailing if/switch:
            # an explicit `return;` keeps it at the end
            body.append({"s": "return", "e": None})
        self._note_locals(name, body)
        self.funcs.append({"n": name, "params": params, "ret": ret, "body": body})
        env[name] = (ret, "fn")

    def final_stores(self, env):
        out = []
        ot = self.globals[0]["t"][2]
        for k in range(4):
            src_t = self.scalar()
            e = self.expr(env, src_t, 2)
            if src_t == "f32":
                e = {"e": "bitcast", "t": ot, "a": e}
            elif src_t != ot:
                e = {"e": "bitcast", "t": ot, "a": e} if src_t in ("i32", "u32") else {"e": "conv", "t": ot, "a": e}
            idx = {"e": "bin", "op": "%", "a": lit("u32", k), "b": {"e": "arraylen", "a": {"e": "addr", "a": {"e": "var", "n": "out0"}}}}
            out.append({"s": "assign", "l": {"e": "idx", "a": {"e": "var", "n": "out0"}, "i": idx}, "e": e})
        return out


# ---------------------------------------------------------------- rendering

PREC = {"||": 1, "&&": 2, "|": 3, "^": 4, "&": 5, "==": 6, "!=": 6, "<": 7, "<=": 7, ">": 7, ">=": 7, "<<": 8, ">>": 8,
        "+": 9, "-": 9, "*": 10, "/": 10, "%": 10}
SWZ = "xyzw"


def render_expr(e):
    k = e["e"]
    if k == "lit":
        t, v = e["t"], e["v"]
        if t == "bool":
            return "true" if v else "false"
        if t == "u32":
            return "%du" % v
        if t == "i32":
            if v == 0x80000000:
                return "(-2147483647i - 1i)"
            return "%di" % v if v < 0x80000000 else "(-%di)" % (M32 - v)
        s = f32_text(v)
        if s is None:
            return "bitcast<f32>(%du)" % v
        return "(%s)" % s if s.startswith("-") else s
    if k == "var":
        return e["n"]
    if k == "un":
        return "(%s%s)" % (e["op"], render_expr(e["a"]))
    if k == "bin":
        return "(%s %s %s)" % (render_expr(e["a"]), e["op"], render_expr(e["b"]))
    if k == "call" or k == "builtin":
        return "%s(%s)" % (e["f"], ", ".join(render_expr(a) for a in e["args"]))
    if k == "cons":
        return "%s(%s)" % (tstr(e["t"]), ", ".join(render_expr(a) for a in e["args"]))
    if k == "idx":
        return "%s[%s]" % (render_expr(e["a"]), render_expr(e["i"]))
    if k == "mem":
        return "%s.%s" % (render_expr(e["a"]), e["name"])
    if k == "swz":
        return "%s.%s" % (render_expr(e["a"]), "".join(SWZ[i] for i in e["p"]))
    if k == "conv":
        return "%s(%s)" % (e["t"], render_expr(e["a"]))
    if k == "bitcast":
        return "bitcast<%s>(%s)" % (tstr(e["t"]), render_expr(e["a"]))
    if k == "addr":
        return "(&%s)" % render_expr(e["a"])
    if k == "deref":
        return "(*%s)" % render_expr(e["a"])
    if k == "arraylen":
        return "arrayLength(%s)" % render_expr(e["a"])
    raise ValueError(k)


def render_stmt(s, ind):
    p = "  " * ind
    k = s["s"]
    if k in ("let", "var"):
        if s["e"] is None:
            return ["%svar %s: %s;" % (p, s["n"], tstr(s["t"]))]
        return ["%s%s %s: %s = %s;" % (p, k, s["n"], tstr(s["t"]), render_expr(s["e"]))]
    if k == "assign":
        return ["%s%s = %s;" % (p, render_expr(s["l"]), render_expr(s["e"]))]
    if k == "compound":
        return ["%s%s %s= %s;" % (p, render_expr(s["l"]), s["op"], render_expr(s["e"]))]
    if k == "incr":
        return ["%s%s++;" % (p, render_expr(s["l"]))]
    if k == "decr":
        return ["%s%s--;" % (p, render_expr(s["l"]))]
    if k == "if":
        out = ["%sif %s {" % (p, render_expr(s["c"]))] + render_block(s["then"], ind + 1)
        if s["else"]:
            if s.get("elif") and len(s["else"]) == 1 and s["else"][0].get("s") == "if":
                inner = render_stmt(s["else"][0], ind)
                return out + ["%s} else %s" % (p, inner[0].lstrip())] + inner[1:]
            out += ["%s} else {" % p] + render_block(s["else"], ind + 1)
        return out + ["%s}" % p]
    if k == "switch":
        out = ["%sswitch %s {" % (p, render_expr(s["e"]))]
        for c in s["cases"]:
            sels = [("default" if x == "default" else render_expr(x)) for x in c["sel"]]
            if sels == ["default"]:
                out.append("%s  default: {" % p)
            else:
                out.append("%s  case %s: {" % (p, ", ".join(sels)))
            out += render_block(c["body"], ind + 2) + ["%s  }" % p]
        return out + ["%s}" % p]
    if k == "loop":
        out = ["%sloop {" % p] + render_block(s["body"], ind + 1)
        if s["cont"] or s["break_if"] is not None:
            out.append("%s  continuing {" % p)
            out += render_block(s["cont"], ind + 2)
            if s["break_if"] is not None:
                out.append("%s    break if %s;" % (p, render_expr(s["break_if"])))
            out.append("%s  }" % p)
        return out + ["%s}" % p]
    if k == "for":
        init = render_stmt(s["init"], 0)[0].rstrip(";") if s["init"] else ""
        upd = render_stmt(s["upd"], 0)[0].rstrip(";") if s["upd"] else ""
        cond = render_expr(s["c"]) if s["c"] else ""
        return ["%sfor (%s; %s; %s) {" % (p, init, cond, upd)] + render_block(s["body"], ind + 1) + ["%s}" % p]
    if k == "while":
        return ["%swhile %s {" % (p, render_expr(s["c"]))] + render_block(s["body"], ind + 1) + ["%s}" % p]
    if k == "break":
        return [p + "break;"]
    if k == "continue":
        return [p + "continue;"]
    if k == "return":
        return [p + ("return %s;" % render_expr(s["e"]) if s["e"] is not None else "return;")]
    if k == "callstmt":
        return ["%s%s(%s);" % (p, s["f"], ", ".join(render_expr(a) for a in s["args"]))]
    if k == "block":
        return [p + "{"] + render_block(s["body"], ind + 1) + [p + "}"]
    raise ValueError(k)


def render_block(b, ind):
    out = []
    for s in b:
        out += render_stmt(s, ind)
    return out


SPACE = {"storage_rw": "var<storage, read_write>", "storage_r": "var<storage, read>", "uniform": "var<uniform>",
         "private": "var<private>", "workgroup": "var<workgroup>"}


def render(prog, reverse=False):
    """reverse=True: entry point first, helpers in reverse order, then globals, constants and structs
    (module-scope declarations may be used before they are declared in WGSL)."""
    if reverse:
        parts = _render_parts(prog)
        return "\n".join(parts["entry"] + [l for f in reversed(parts["funcs"]) for l in f] + parts["globals"]
                         + parts["consts"] + parts["structs"]) + "\n"
    p = _render_parts(prog)
    return "\n".join(p["structs"] + p["consts"] + p["globals"] + [l for f in p["funcs"] for l in f] + p["entry"]) + "\n"


def _render_parts(prog):
    parts = {"structs": [], "consts": [], "globals": [], "funcs": [], "entry": []}
    out = parts["structs"]
    for s in prog["structs"]:
        out.append("struct %s {" % s["name"])
        for m in s["members"]:
            out.append("  %s: %s," % (m["n"], tstr(m["t"])))
        out.append("}")
    out = parts["consts"]
    for c in prog["consts"]:
        out.append("const %s: %s = %s;" % (c["n"], tstr(c["t"]), render_expr(c["e"])))
    out = parts["globals"]
    for g in prog["globals"]:
        attr = "@group(%d) @binding(%d) " % (g["group"], g["binding"]) if g["space"] in ("storage_rw", "storage_r", "uniform") else ""
        init = " = %s" % render_expr(g["e"]) if g.get("e") is not None else ""
        out.append("%s%s %s: %s%s;" % (attr, SPACE[g["space"]], g["n"], tstr(g["t"]), init))
    for f in prog["funcs"]:
        out = []
        ps = ", ".join("%s: %s" % (q["n"], tstr(q["t"])) for q in f["params"])
        ret = " -> %s" % tstr(f["ret"]) if f["ret"] is not None else ""
        out.append("fn %s(%s)%s {" % (f["n"], ps, ret))
        out += render_block(f["body"], 1)
        out.append("}")
        parts["funcs"].append(out)
    out = parts["entry"]
    e = prog["entry"]
    out.append("@compute @workgroup_size(%d, %d, %d)" % tuple(e["wg"]))
    out.append("fn %s(@builtin(global_invocation_id) gid: vec3<u32>) {" % e["n"])
    out += render_block(e["body"], 1)
    out.append("}")
    return parts


# ---------------------------------------------------------------- input data (IR/Values JSON codec)

def gen_value(rng, prog, t, runtime_len=None, exact=True):
    if t == "i32":
        return {"i": rng.choice(INT_POOL) if rng.chance(2, 3) else rng.below(M32)}
    if t == "u32":
        return {"u": rng.choice(INT_POOL) if rng.chance(2, 3) else rng.below(M32)}
    if t == "f32":
        return {"f": rng.choice(F_EXACT if exact or rng.chance(2, 3) else F_SPECIAL)}
    if t == "bool":
        return {"b": rng.chance(1, 2)}
    if t[0] == "vec":
        return {"vec": [gen_value(rng, prog, t[2], exact=exact) for _ in range(t[1])]}
    if t[0] == "mat":
        return {"mat": [{"vec": [gen_value(rng, prog, "f32", exact=exact) for _ in range(t[2])]} for _ in range(t[1])]}
    if t[0] == "arr":
        n = t[1] if t[1] is not None else (runtime_len or rng.range(1, 5))
        return {"arr": [gen_value(rng, prog, t[2], exact=exact) for _ in range(n)]}
    if t[0] == "struct":
        s = [x for x in prog["structs"] if x["name"] == t[1]][0]
        return {"st": [gen_value(rng, prog, m["t"], exact=exact) for m in s["members"]]}
    raise ValueError(t)


def gen_inputs(rng, prog, exact=True):
    """one value per global in declaration order (None for private/workgroup: zero/initialiser), and gid"""
    gl = []
    for g in prog["globals"]:
        if g["space"] in ("private", "workgroup"):
            gl.append(None)
        else:
            gl.append(gen_value(rng, prog, g["t"], exact=exact))
    gid = {"vec": [{"u": rng.below(4)}, {"u": 0}, {"u": 0}]}
    return {"globals": gl, "args": [gid]}


def generate(rng, opts=None):
    g = Gen(rng, opts)
    prog = g.program()
    return prog, render(prog)
