"""A small tokenizer for the C-like text the HLSL / MSL / GLSL backends emit
(C16).  Independent of naga: written against the lexical grammars of the
target languages (identifiers [A-Za-z_][A-Za-z0-9_]*, pp-numbers, string and
character literals, // and /* */ comments, preprocessor lines, punctuators).

tokens(text) -> list of (kind, text) with kind in
  'id'   identifier or keyword
  'num'  numeric literal (pp-number: digits, letters, '.', exponent signs)
  'str'  string / char literal
  'pp'   a whole preprocessor line (#include <...>, #version ..., #extension ...)
  'op'   punctuator
Comments and blanks are dropped.  Identifiers are read with Unicode letters
allowed (so that a raw non-ASCII name stays one token; the caller decides whether
the target language permits it).  Anything else (e.g. '$', '@', a control
character) is returned as ('bad', ch): the emitted text is not lexically legal."""
import re

_OPS = ["<<=", ">>=", "...", "->*", "::", "->", "++", "--", "<<", ">>", "<=", ">=", "==", "!=", "&&", "||",
        "+=", "-=", "*=", "/=", "%=", "&=", "|=", "^=", "##"]
_MASTER = re.compile(
    r"(?P<ws>[ \t\r\f\v]+)"
    r"|(?P<nl>\n)"
    r"|(?P<lc>//[^\n]*)"
    r"|(?P<bc>/\*.*?(?:\*/|\Z))"
    r"|(?P<id>[^\W\d]\w*)"          # Unicode letters accepted here; non-ASCII identifiers are judged by the caller
    # pp-number: optional leading '.', a digit, then [0-9A-Za-z_.] and e+/e-/p+/p-
    r"|(?P<num>\.?[0-9](?:[eEpP][+-]|[0-9A-Za-z_.])*)"
    r"|(?P<str>\"(?:\\.|[^\"\\\n])*\"?|'(?:\\.|[^'\\\n])*'?)"
    r"|(?P<op>" + "|".join(re.escape(o) for o in _OPS) + r"|[{}\[\]()<>;:,.?~!+\-*/%&|^=#])"
    r"|(?P<bad>.)", re.S)
_PPLINE = re.compile(r"#[^\n]*")


def tokens(text):
    out = []
    line_start = True
    i = 0
    n = len(text)
    while i < n:
        if line_start and text[i] == "#":
            m = _PPLINE.match(text, i)
            out.append(("pp", " ".join(m.group(0).split())))
            i = m.end()
            line_start = False
            continue
        m = _MASTER.match(text, i)
        k = m.lastgroup
        i = m.end()
        if k == "nl":
            line_start = True
        elif k == "ws" or k == "lc" or k == "bc":
            pass
        else:
            line_start = False
            out.append((k, m.group(0)))
    return out


def identifiers(toks):
    return [t for k, t in toks if k == "id"]
