"""C14: generator of WGSL programs with `override` declarations + pipeline-constant value
maps, encoders for the extracted Coq tool (coq/Extract/OverridesExtract.v) and decoders for
harness/cmd/ovrdrive results.

Expression encoding (shared with Coq, all numeric):
  ty    = 0 bool | 1 i32 | 2 u32 | 3 f32
  LIT   = [0, 0|1] | [1, v, sfx(0 none,1 i,2 u)] | [2, f64bits, sfx(0 none,1 f)]
  EXPR  = [0, LIT] | [1, i] | [2, ty, LIT] | [3, uop, EXPR] | [4, bop, EXPR, EXPR]
"""
import re
import struct

BOOL, I32, U32, F32 = 0, 1, 2, 3
TYNAME = ["bool", "i32", "u32", "f32"]
TYNUM = {n: i for i, n in enumerate(TYNAME)}
BOPS = ["+", "-", "*", "/", "%", "==", "!=", "<", "<=", ">", ">=", "&", "^", "|", "&&", "||", "<<", ">>"]
UOPS = ["-", "!", "~"]
ADD, SUB, MUL, DIV, MOD, EQ, NE, LT, LE, GT, GE, BAND, BXOR, BOR, LAND, LOR, SHL, SHR = range(18)
NEG, NOT, BNOT = range(3)
ARITH = [ADD, SUB, MUL, DIV, MOD]
CMP = [EQ, NE, LT, LE, GT, GE]
BIT = [BAND, BXOR, BOR]

NAN_BITS = 0x7FF8000000000000


def f64bits(x):
    return struct.unpack("<Q", struct.pack("<d", x))[0]


def f64frombits(b):
    return struct.unpack("<d", struct.pack("<Q", b))[0]


def f32bits_of_float(x):
    try:
        return struct.unpack("<I", struct.pack("<f", x))[0]
    except OverflowError:
        return 0x7F800000 if x > 0 else 0xFF800000


def norm_lit(l):
    """[ty, bits] with every f32 NaN mapped to one canonical pattern."""
    if l is None:
        return None
    t, b = l
    if t == F32 and (b & 0x7F800000) == 0x7F800000 and (b & 0x7FFFFF) != 0:
        return [F32, 0x7FC00000]
    return [t, b]


# ---------------------------------------------------------------- literal pools

INT_POOL = [0, 1, 2, 3, 4, 5, 7, 8, 9, 15, 16, 31, 32, 33, 100, 255, 256, 1000, 65535, 65536,
            16777215, 16777216, 16777217, 33554433, 2147483647]
U_EXTRA = [2147483648, 4000000000, 4294967295]
SMALL_INT = [0, 1, 2, 3, 4, 5, 7, 8, 9, 12, 15, 16, 31, 100]
FLOAT_TEXT = ["0.0", "0.5", "1.0", "1.5", "2.0", "2.5", "3.0", "0.1", "0.2", "0.3", "2.718", "3.14159", "10.0",
              "100.0", "1e3", "0.001", "0.25", "16777217.0", "1e10", "3.0e38", "1e-40", "7.0", "0.75", "123.456",
              "4294967296.0", "0.333333343267"]


def float_text_ok(txt):
    b = f64bits(float(txt))
    return (b & ((1 << 29) - 1)) != (1 << 28)        # not a binary32 rounding midpoint


FLOAT_TEXT = [t for t in FLOAT_TEXT if float_text_ok(t)]


def lit_int(v, sfx):
    return [0, [1, v, sfx]], "%d%s" % (v, ["", "i", "u"][sfx])


def lit_float(txt, sfx):
    return [0, [2, f64bits(float(txt)), sfx]], txt + ["", "f"][sfx]


def lit_bool(b):
    return [0, [0, 1 if b else 0]], "true" if b else "false"


def ovname(i):
    """names without trailing digits (the GLSL/MSL namers append `_` to those)"""
    return "ov" + "abcdefghijklmnopqrstuvwxyz"[i]


# ---------------------------------------------------------------- expressions

class Gen:
    """One program.  Overrides are generated in dependency order (an initialiser refers
    to earlier overrides only), which is also the order naga's DependencyOrder keeps."""

    def __init__(self, rng, profile):
        self.r = rng
        self.p = profile
        self.decls = []          # dicts: name, id, ty(declared or None), real_ty, init (EXPR|None), text
        self.consts = []         # module `const`s: (name, ty, LITEXPR, text)
        self.lets = []           # function-level lets so far (name, ty, e): usable as leaves
        self.in_fn = False

    # -- leaves
    def literal(self, t, small=False, concrete=False):
        r = self.r
        if t == BOOL:
            return lit_bool(r.chance(1, 2))
        if t == F32:
            if r.chance(1, 6):
                v = r.choice(SMALL_INT)
                return lit_int(v, 0)                      # abstract int in f32 context
            sfx = 1 if r.chance(self.p.get("fsuffix", 1), 12) else 0
            return lit_float(r.choice(FLOAT_TEXT[:14] if small else FLOAT_TEXT), sfx)
        pool = SMALL_INT if small else (INT_POOL + (U_EXTRA if t == U32 else []))
        v = r.choice(pool)
        if r.chance(1, 10) and not small:
            v = r.below(1 << (31 if t == I32 else 32))
        want = 1 if t == I32 else 2
        sfx = want if concrete or (t == U32 and (v >= (1 << 31) or r.chance(2, 3))) or (t == I32 and r.chance(1, 5)) else 0
        return lit_int(v, sfx)

    def leaf(self, t, small=False, refs=True, concrete=False):
        r = self.r
        if self.in_fn:
            prev = [l for l in self.lets if l["ty"] == t]
            if prev and r.chance(1, 4):
                l = r.choice(prev)
                return l["e"], l["name"]
        cands = [i for i, d in enumerate(self.decls) if d["real_ty"] == t] if refs else []
        if cands and r.chance(self.p.get("ref", 3), 5):
            i = r.choice(cands)
            return [1, i], self.decls[i]["name"]
        cc = [c for c in self.consts if c[1] == t]
        if cc and r.chance(self.p.get("constref", 1), 10):
            c = r.choice(cc)
            return [2, c[1], c[2][1]], c[0]
        return self.literal(t, small, concrete)

    def expr(self, t, depth, small=False, refs=True, concrete=False):
        """concrete: integer literal leaves carry a suffix (inside operators, so that no
        purely abstract integer sub-expression can overflow the target type: that would be
        a shader-creation error, a different property)"""
        r = self.r
        if depth <= 0 or r.chance(1, 4):
            return self.leaf(t, small, refs, concrete)
        if t == BOOL:
            k = r.below(10)
            if k < 6:
                ot = r.choice([I32, U32, F32, I32, U32])
                op = r.choice(CMP)
                if r.chance(1, 8):
                    ot, op = BOOL, r.choice([EQ, NE])
                a, ta = self.expr(ot, depth - 1, small, refs, True)
                b, tb = self.expr(ot, depth - 1, small, refs, r.chance(1, 2))
                return [4, op, a, b], "(%s %s %s)" % (ta, BOPS[op], tb)
            if k < 8:
                op = r.choice([LAND, LOR, BAND, BOR])
                a, ta = self.expr(BOOL, depth - 1, small, refs)
                b, tb = self.expr(BOOL, depth - 1, small, refs)
                return [4, op, a, b], "(%s %s %s)" % (ta, BOPS[op], tb)
            a, ta = self.expr(BOOL, depth - 1, small, refs)
            return [3, NOT, a], "!(%s)" % ta
        if t == F32:
            k = r.below(10)
            if k < 8:
                op = r.choice([ADD, SUB, MUL, DIV, ADD, SUB, MUL])
                a, ta = self.expr(F32, depth - 1, small, refs)
                b, tb = self.expr(F32, depth - 1, small, refs)
                return [4, op, a, b], "(%s %s %s)" % (ta, BOPS[op], tb)
            a, ta = self.expr(F32, depth - 1, small, refs)
            return [3, NEG, a], "-(%s)" % ta
        # integers
        k = r.below(20)
        if k < 9:
            op = r.choice(ARITH)
            a, ta = self.expr(t, depth - 1, small, refs, True)
            b, tb = self.expr(t, depth - 1, small, refs, r.chance(1, 2))
            return [4, op, a, b], "(%s %s %s)" % (ta, BOPS[op], tb)
        if k < 13:
            op = r.choice(BIT)
            a, ta = self.expr(t, depth - 1, small, refs, True)
            b, tb = self.expr(t, depth - 1, small, refs, r.chance(1, 2))
            return [4, op, a, b], "(%s %s %s)" % (ta, BOPS[op], tb)
        if k < 16:
            op = r.choice([SHL, SHR])
            a, ta = self.expr(t, depth - 1, small, refs, True)
            n = r.choice([0, 1, 2, 3, 4, 8, 16, 31, 31, 32, 33])
            b, tb = lit_int(n, 2)
            if r.chance(1, 4):
                cands = [i for i, d in enumerate(self.decls) if d["real_ty"] == U32] if refs else []
                if cands:
                    i = r.choice(cands)
                    b, tb = [1, i], self.decls[i]["name"]
            return [4, op, a, b], "(%s %s %s)" % (ta, BOPS[op], tb)
        if k < 18 and t == I32:
            a, ta = self.expr(t, depth - 1, small, refs, True)
            return [3, NEG, a], "-(%s)" % ta
        a, ta = self.expr(t, depth - 1, small, refs, True)
        return [3, BNOT, a], "~(%s)" % ta

    # -- declarations
    def add_const(self):
        t = self.r.choice([I32, U32, F32, BOOL, I32])
        l, txt = self.literal(t, small=True)
        if l[1][0] == 1 and t == F32:
            l, txt = lit_float("2.5", 0)
        name = "K%d" % len(self.consts)
        self.consts.append((name, t, l, "const %s: %s = %s;" % (name, TYNAME[t], txt)))

    def add_override(self, t=None, with_init=None, with_id=None, declared=None, depth=None):
        r = self.r
        i = len(self.decls)
        if t is None:
            t = r.choice([I32, I32, U32, F32, BOOL])
        name = ovname(i)
        has_id = r.chance(1, 3) if with_id is None else with_id
        oid = None
        if has_id:
            used = {d["id"] for d in self.decls}
            oid = r.choice([0, 1, 2, 7, 42, 1300, 65535, r.below(65536)])
            while oid in used:
                oid = r.below(65536)
        has_init = r.chance(5, 6) if with_init is None else with_init
        init, txt = (None, None)
        if has_init:
            init, txt = self.expr(t, r.below(3) if depth is None else depth, small=(declared is False))
        decl_ty = t
        if declared is False and has_init:
            decl_ty = None
            t = infer_ty(init, self.decls)
        d = {"name": name, "id": oid, "ty": decl_ty, "real_ty": t, "init": init}
        s = ""
        if oid is not None:
            s += "@id(%d) " % oid
        s += "override %s" % name
        if decl_ty is not None:
            s += ": %s" % TYNAME[t]
        if has_init:
            s += " = %s" % txt
        d["text"] = s + ";"
        self.decls.append(d)
        return d


def infer_ty(e, decls):
    """Concretised WGSL type of an expression (mirror of Spec.concretize over eval)."""
    def go(e):
        k = e[0]
        if k == 0:
            l = e[1]
            if l[0] == 0:
                return BOOL
            if l[0] == 1:
                return [None, I32, U32][l[2]] if l[2] else "aint"
            return F32 if l[2] else "afloat"
        if k == 1:
            return decls[e[1]]["real_ty"]
        if k == 2:
            return e[1]
        if k == 3:
            return go(e[2])
        op = e[1]
        if op in CMP or op in (LAND, LOR):
            return BOOL
        a = go(e[2])
        if op in (SHL, SHR):
            return a
        b = go(e[3])
        for x, y in ((a, b), (b, a)):
            if x == "aint":
                return y
        for x, y in ((a, b), (b, a)):
            if x == "afloat":
                return y if y != "aint" else "afloat"
        return a
    t = go(e)
    return I32 if t == "aint" else F32 if t == "afloat" else t


def raw_ty(e, decls):
    """type of an expression before concretisation: BOOL/I32/U32/F32 or 'aint'/'afloat'"""
    k = e[0]
    if k == 0:
        l = e[1]
        if l[0] == 0:
            return BOOL
        if l[0] == 1:
            return [None, I32, U32][l[2]] if l[2] else "aint"
        return F32 if l[2] else "afloat"
    if k == 1:
        return decls[e[1]]["real_ty"]
    if k == 2:
        return e[1]
    if k == 3:
        return raw_ty(e[2], decls)
    op = e[1]
    if op in CMP or op in (LAND, LOR):
        return BOOL
    a = raw_ty(e[2], decls)
    if op in (SHL, SHR):
        return a
    return join_ty(a, raw_ty(e[3], decls))


def join_ty(a, b):
    if a == "aint":
        return b
    if b == "aint":
        return a
    if a == "afloat":
        return b
    if b == "afloat":
        return a
    return a


def operand_ty(e, decls):
    """concretised type of the operands of a binary node (left operand for shifts)"""
    if e[1] in (SHL, SHR):
        t = raw_ty(e[2], decls)
    else:
        t = join_ty(raw_ty(e[2], decls), raw_ty(e[3], decls))
    return I32 if t == "aint" else F32 if t == "afloat" else t


def raw_tyname(e, decls, operand=False):
    if operand:
        t = raw_ty(e[2], decls) if e[1] in (SHL, SHR) else join_ty(raw_ty(e[2], decls), raw_ty(e[3], decls))
    else:
        t = raw_ty(e, decls)
    return {"aint": "abstract-int", "afloat": "abstract-float"}.get(t) or TYNAME[t]


def retag(lit, t):
    """a value obtained for an abstract operand in its concretised type, re-expressed in
    the type t the operator actually uses (None if not representable)"""
    if lit is None:
        return None
    lt, b = lit
    if lt == t:
        return [lt, b]
    if lt == I32 and t == U32:
        return [U32, b] if b < (1 << 31) else None
    if lt == I32 and t == F32:
        v = b - (1 << 32) if b >= (1 << 31) else b
        return [F32, f32bits_of_float(float(v))]
    return None


def subexprs(e):
    """post-order list of sub-expressions (children before parents)"""
    out = []
    if e[0] == 3:
        out += subexprs(e[2])
    elif e[0] == 4:
        out += subexprs(e[2]) + subexprs(e[3])
    out.append(e)
    return out


def expr_text(e, decls, consts):
    k = e[0]
    if k == 0:
        l = e[1]
        if l[0] == 0:
            return "true" if l[1] else "false"
        if l[0] == 1:
            return "%d%s" % (l[1], ["", "i", "u"][l[2]])
        return repr(f64frombits(l[1])) + ["", "f"][l[2]]
    if k == 1:
        return decls[e[1]]["name"]
    if k == 2:
        return "const:%s" % TYNAME[e[1]]
    if k == 3:
        return "%s(%s)" % (UOPS[e[1]], expr_text(e[2], decls, consts))
    return "(%s %s %s)" % (expr_text(e[2], decls, consts), BOPS[e[1]], expr_text(e[3], decls, consts))


def refs_override(e):
    if e[0] == 1:
        return True
    if e[0] == 3:
        return refs_override(e[2])
    if e[0] == 4:
        return refs_override(e[2]) or refs_override(e[3])
    return False


# ---------------------------------------------------------------- value maps

def value_for(r, t):
    """(float, class)"""
    k = r.below(16)
    if k == 0:
        return float("nan"), "nan"
    if k == 1:
        return r.choice([float("inf"), float("-inf")]), "inf"
    if k == 2:
        return r.choice([1e10, -1e10, 4294967296.0, -2147483649.0, 1e300, 3.5e38, 1.8e19]), "huge"
    if k == 3:
        return r.choice([3.7, -3.7, 0.5, -0.5, 2.999999, 1e-3]), "fractional"
    if k == 4:
        return r.choice([-1.0, -7.0, -2147483648.0]), "negative"
    if k == 5:
        return r.choice([0.0, -0.0]), "zero"
    if t == F32:
        return r.choice([0.1, 1.5, -2.25, 3.14159, 1e-3, 123456.789, 16777217.0, 1e-46, 2.5]), "plain"
    if t == BOOL:
        return r.choice([1.0, 0.0, 2.0, 1.0]), "plain"
    if t == U32:
        return float(r.choice([1, 2, 5, 9, 64, 255, 4294967295, 2147483648, 65536, r.below(1 << 32)])), "plain"
    return float(r.choice([1, 2, 5, 9, 64, 255, 2147483647, 65536, r.below(1 << 31)])), "plain"


def make_vmap(r, decls, profile):
    m = []
    classes = {}
    for d in decls:
        k = r.below(10)
        need = d["init"] is None
        if k < (7 if need else profile.get("supply", 4)):
            v, c = value_for(r, d["real_ty"])
            how = r.below(4)
            if d["id"] is not None and how < 2:
                m.append([str(d["id"]), f64bits(v)])
                if how == 0 and r.chance(1, 2):      # both keys, different values: id must win
                    v2, _ = value_for(r, d["real_ty"])
                    m.append([d["name"], f64bits(v2)])
            else:
                m.append([d["name"], f64bits(v)])      # by name (also allowed for an override with @id)
            classes[d["name"]] = c
    if r.chance(1, 5):
        m.append([r.choice(["nosuch", "99999", "ov", "-1"]), f64bits(1.0)])
    return r.shuffle(m), classes


# ---------------------------------------------------------------- programs

PROFILES = {
    # single operator applied to overrides/literals: every operator x type gets exercised
    "unit": {"n": (1, 3), "depth": 1, "ref": 4, "supply": 3, "fsuffix": 0, "constref": 0},
    "mixed": {"n": (2, 6), "depth": 2, "ref": 3, "supply": 4, "fsuffix": 1, "constref": 1},
    "values": {"n": (1, 4), "depth": 0, "ref": 2, "supply": 9, "fsuffix": 0, "constref": 0},
}


def program(rng, kind):
    prof = PROFILES[kind]
    g = Gen(rng, prof)
    r = rng
    if prof.get("constref") and r.chance(1, 3):
        for _ in range(r.range(1, 2)):
            g.add_const()
    n = r.range(*prof["n"])
    for i in range(n):
        declared = None
        d = prof["depth"]
        depth = d if kind == "unit" and i > 0 else r.below(d + 1)
        if kind == "mixed" and r.chance(1, 8):
            declared = False
            depth = min(depth, 1)
        g.add_override(declared=declared, depth=depth)
    # global initialisers derived from overrides
    globs = []
    if kind != "values" and r.chance(1, 2):
        for k in range(r.range(1, 2)):
            t = r.choice([I32, U32, F32, BOOL, I32])
            for _try in range(8):
                e, txt = g.expr(t, r.range(1, 2))
                if refs_override(e):
                    gname = "gv" + "abcd"[k]
                    globs.append({"name": gname, "ty": t, "init": e, "text": "var<private> %s: %s = %s;" % (gname, TYNAME[t], txt)})
                    break
    # workgroup size
    wg = []
    wgtxt = "1"
    ints = [i for i, d in enumerate(g.decls) if d["real_ty"] in (I32, U32)]
    if ints and r.chance(1, 3):
        i = r.choice(ints)
        t = g.decls[i]["real_ty"]
        e, txt = [1, i], g.decls[i]["name"]
        if r.chance(1, 2):
            l, lt = lit_int(r.choice([1, 2, 3]), 0)
            op = r.choice([ADD, MUL])
            e, txt = [4, op, e, l], "%s %s %s" % (txt, BOPS[op], lt)
        wg = [e, lit_int(2, 0)[0]]
        wgtxt = "%s, 2" % txt
    # function-level lets: one operator per let, operands = overrides / literals / earlier lets
    lets = []
    body = []
    if kind != "values":
        nl = r.range(1, 5)
        g.in_fn = True
        for k in range(nl):
            t = r.choice([I32, U32, F32, BOOL, I32, BOOL])
            e, txt = g.expr(t, 1, small=r.chance(1, 2))
            if not refs_override(e) or any(txt == l["name"] for l in lets):
                continue                  # no override involved / a mere alias of an earlier let (same IR handle)
            name = "r%d" % len(lets)
            lets.append({"name": name, "ty": t, "e": e})
            g.lets = lets
            body.append("  let %s = %s;" % (name, txt))
    g.in_fn = False
    # statements that exercise the clone (nested block / return value / call argument)
    shape = r.below(6) if kind == "mixed" else 0
    extra_fn = ""
    first_i32 = next((d["name"] for d in g.decls if d["real_ty"] == I32), None)
    if shape and first_i32 is None:
        shape = 0
    if shape == 1:
        body.append("  let s1 = %s + ob[1];\n  if (s1 > 3) { ob[0] = s1 * 2; }" % first_i32)
    elif shape == 2:
        extra_fn = "fn hf(x: i32) -> i32 { let y = %s + x; return y * 2; }\n" % first_i32
        body.append("  ob[0] = hf(1);")
    elif shape == 3:
        extra_fn = "fn hg(x: i32) -> i32 { return x; }\n"
        body.append("  let s3 = %s + ob[1];\n  let z3 = hg(s3);\n  ob[0] = z3;" % first_i32)
    elif shape == 4:
        body.append("  var li = %s;\n  loop { if (li > 10) { break; } li = li + 1; }\n  ob[0] = li;" % first_i32)
    src = []
    for c in g.consts:
        src.append(c[3])
    for d in g.decls:
        src.append(d["text"])
    for gl in globs:
        src.append(gl["text"])
    src.append("@group(0) @binding(0) var<storage, read_write> ob: array<i32>;")
    src.append(extra_fn + "@compute @workgroup_size(%s)\nfn main() {" % wgtxt)
    src += body
    # keep every override and global alive
    for d in g.decls:
        src.append("  _ = %s;" % d["name"])
    for gl in globs:
        src.append("  _ = %s;" % gl["name"])
    src.append("}")
    vmap, vclasses = make_vmap(r, g.decls, prof)
    return {"kind": kind, "decls": g.decls, "consts": g.consts, "globals": globs, "wg": wg, "lets": lets,
            "src": "\n".join(src) + "\n", "vmap": vmap, "vclasses": vclasses, "shape": shape}


# ---------------------------------------------------------------- ovrdrive trees -> numeric

def lit_of_tree(t):
    if t is None or t.get("k") != "lit" or t.get("t") not in TYNUM:
        return None
    return norm_lit([TYNUM[t["t"]], int(t["v"])])


def gtree(t):
    """lowered global expression tree -> the Coq GTREE encoding (None if unexpected)."""
    if t is None:
        return None
    k = t.get("k")
    if k == "lit":
        l = lit_of_tree(t)
        return [0, l] if l else ["?", t.get("t")]
    if k == "ovr":
        return [1, t["h"]]
    if k == "un":
        return [3, t["op"], gtree(t["e"])]
    if k == "bin":
        return [4, t["op"], gtree(t["l"]), gtree(t["r"])]
    return ["?", k]


def ftree(t):
    if t is None:
        return [5]
    k = t.get("k")
    if k == "lit":
        l = lit_of_tree(t)
        return [0, l] if l else [5]
    if k == "ovr":
        return [1, t["h"]]
    if k == "const":
        l = lit_of_tree(t.get("init"))
        if l is not None and t.get("ovr", -1) >= 0:
            return [2, t["ovr"], l]
        if l is not None:
            return [0, l]          # a module `const` with a literal initialiser: folded like a literal
        return [5]
    if k == "un":
        return [3, t["op"], ftree(t["e"])]
    if k == "bin":
        return [4, t["op"], ftree(t["l"]), ftree(t["r"])]
    return [5]


def norm_tree(t):
    """canonical NaNs inside an encoded tree"""
    if isinstance(t, list):
        if len(t) == 2 and t[0] == 0 and isinstance(t[1], list):
            return [0, norm_lit(t[1])]
        if len(t) == 3 and t[0] == 2 and isinstance(t[2], list):
            return [2, t[1], norm_lit(t[2])]
        return [norm_tree(x) for x in t]
    return t


# ---------------------------------------------------------------- backend text

GLSL_CONST = re.compile(r"^const (\w+) (\w+) = (.*);$", re.M)
MSL_CONST = re.compile(r"^constant (\w+) (\w+) = (.*);$", re.M)


SPECIAL_FLOATS = {"INFINITY": float("inf"), "-INFINITY": float("-inf"), "NAN": float("nan"), "+Inf.0": float("inf"),
                  "Inf.0": float("inf"), "-Inf.0": float("-inf"), "NaN.0": float("nan"), "+NaN.0": float("nan"),
                  "-NaN.0": float("nan")}


def parse_rhs(rhs, declared):
    """literal text of a backend constant -> [ty, bits] in the DECLARED type (C-like
    implicit conversion of the literal), 'zero' for {} forms, None if not a literal."""
    rhs = rhs.strip()
    if rhs in ("{}",) or re.fullmatch(r"\w+ \{\}", rhs):
        return "zero"
    if rhs in ("true", "false"):
        v = 1 if rhs == "true" else 0
        val = ("b", v)
    elif re.fullmatch(r"-?\d+u", rhs):
        val = ("i", int(rhs[:-1]))
    elif re.fullmatch(r"-?\d+", rhs):
        val = ("i", int(rhs))
    elif re.fullmatch(r"-?(\d+\.\d*|\.\d+|\d+)([eE][-+]?\d+)?f?", rhs):
        val = ("f", float(rhs.rstrip("f")))
    elif rhs == "(-2147483647 - 1)":
        val = ("i", -2147483648)
    elif rhs in SPECIAL_FLOATS:
        val = ("f", SPECIAL_FLOATS[rhs])
    else:
        return None
    kind, v = val
    if declared == BOOL:
        return [BOOL, 1 if v else 0] if kind != "f" else [BOOL, 1 if v != 0 else 0]
    if declared in (I32, U32):
        if kind == "f":
            if v != v or v in (float("inf"), float("-inf")):
                return None
            v = int(v)
        return [declared, int(v) & 0xFFFFFFFF]
    if declared == F32:
        return norm_lit([F32, f32bits_of_float(float(v))])
    return None


# ---------------------------------------------------------------- deterministic matrix

def _neg(e_txt):
    e, txt = e_txt
    return [3, NEG, e], "-(%s)" % txt


def _lit_for(t, v):
    """literal (possibly negated) of concrete type t for a Python value"""
    if t == BOOL:
        return lit_bool(bool(v))
    if t == F32:
        if v < 0:
            return _neg(lit_float(repr(-v), 0))
        return lit_float(repr(float(v)), 0)
    sfx = 1 if t == I32 else 2
    if v < 0:
        return _neg(lit_int(-v, sfx)) if v != -(1 << 31) else ([4, SUB, _neg(lit_int(2147483647, 1))[0], lit_int(1, 1)[0]], "(-(2147483647i) - 1i)")
    return lit_int(v, sfx)


MATRIX_VALUES = {
    I32: [(7, 4), (-7, 2), (2147483647, 1), (7, 0), (-(1 << 31), -1), (100000, 100000), (3, 5)],
    U32: [(7, 4), (4294967295, 2), (7, 0), (3, 5), (100000, 100000), (4000000000, 3)],
    F32: [(1.5, 0.25), (0.1, 0.2), (3e38, 10.0), (1.0, 0.0), (-2.5, 2.5), (16777216.0, 1.0)],
    BOOL: [(True, False), (True, True), (False, False), (False, True)],
}
SHIFT_VALUES = {I32: [(1, 3), (255, 31), (1, 32), (-1, 1), (-8, 33), (1073741824, 1)],
                U32: [(1, 3), (255, 31), (1, 32), (4294967295, 1), (8, 33), (2147483648, 1)]}


def _prog(decls, globs, lets, wg=None, wgtxt="1", vmap=None, kind="matrix", consts=()):
    src = [c[3] for c in consts]
    src += [d["text"] for d in decls]
    src += [g["text"] for g in globs]
    src.append("@group(0) @binding(0) var<storage, read_write> ob: array<i32>;")
    src.append("@compute @workgroup_size(%s)\nfn main() {" % wgtxt)
    src += ["  let %s = %s;" % (l["name"], l["text"]) for l in lets]
    src += ["  _ = %s;" % d["name"] for d in decls]
    src += ["  _ = %s;" % g["name"] for g in globs]
    src.append("}")
    return {"kind": kind, "decls": decls, "consts": list(consts), "globals": globs, "wg": wg or [], "lets": lets,
            "src": "\n".join(src) + "\n", "vmap": vmap or [], "vclasses": {}, "shape": 0}


def _decl(i, t, init_txt, oid=None, declared=True):
    init, txt = init_txt if init_txt else (None, None)
    name = ovname(i)
    s = ("@id(%d) " % oid if oid is not None else "") + "override %s" % name
    if declared:
        s += ": %s" % TYNAME[t]
    if init is not None:
        s += " = %s" % txt
    return {"name": name, "id": oid, "ty": t if declared else None, "real_ty": t, "init": init, "text": s + ";"}


def matrix_programs(full=True):
    """every operator x operand type x a few operand pairs, each at three sites: default
    initialiser of a derived override, derived global initialiser, function-level let;
    with an (irrelevant) pipeline constant so that the backends' PipelineConstants paths run"""
    out = []
    trigger = [["unrelated_key", f64bits(1.0)]]
    for t in (I32, U32, F32, BOOL):
        ops = []
        if t != BOOL:
            ops += [(o, t) for o in ARITH if not (t == F32 and o == MOD)] + [(o, BOOL) for o in CMP]
        else:
            ops += [(EQ, BOOL), (NE, BOOL), (LAND, BOOL), (LOR, BOOL), (BAND, BOOL), (BOR, BOOL)]
        if t in (I32, U32):
            ops += [(o, t) for o in BIT]
        for op, rt in ops:
            for (x, y) in MATRIX_VALUES[t]:
                a = _decl(0, t, _lit_for(t, x))
                ye, ytxt = _lit_for(t, y)
                e, txt = [4, op, [1, 0], ye], "(%s %s %s)" % (a["name"], BOPS[op], ytxt)
                b = _decl(1, rt, (e, txt))
                out.append(_prog([a, b], [], [], vmap=trigger))
                out.append(_prog([a], [{"name": "gva", "ty": rt, "init": e, "text": "var<private> gva: %s = %s;" % (TYNAME[rt], txt)}], [], vmap=trigger))
                out.append(_prog([a], [], [{"name": "ra", "ty": rt, "e": e, "text": txt}], vmap=trigger))
        if t in (I32, U32):
            for op in (SHL, SHR):
                for (x, n) in SHIFT_VALUES[t]:
                    a = _decl(0, t, _lit_for(t, x))
                    ne, ntxt = lit_int(n, 2)
                    e, txt = [4, op, [1, 0], ne], "(%s %s %s)" % (a["name"], BOPS[op], ntxt)
                    out.append(_prog([a, _decl(1, t, (e, txt))], [], [], vmap=trigger))
                    out.append(_prog([a], [], [{"name": "ra", "ty": t, "e": e, "text": txt}], vmap=trigger))
        # unary
        for uo in ((NEG, BNOT) if t == I32 else (BNOT,) if t == U32 else (NEG,) if t == F32 else (NOT,)):
            for (x, _y) in MATRIX_VALUES[t][:5]:
                a = _decl(0, t, _lit_for(t, x))
                e, txt = [3, uo, [1, 0]], "%s(%s)" % (UOPS[uo], a["name"])
                out.append(_prog([a, _decl(1, t, (e, txt))], [], [], vmap=trigger))
                out.append(_prog([a], [], [{"name": "ra", "ty": t, "e": e, "text": txt}], vmap=trigger))
    # supplied values: type x value class x (by name / by id) x (with / without default)
    vals = [float("nan"), float("inf"), float("-inf"), 1e10, -1e10, 4294967296.0, 4294967295.0, -2147483649.0, -2147483648.0,
            2147483648.0, 3.7, -3.7, -0.5, 0.5, -0.0, 0.0, 1.0, 2.0, 7.0, 0.1, 3.5e38, 3.4e38, 1e-46, 16777217.0]
    if not full:
        vals = [float("nan"), float("inf"), 1e10, 4294967296.0, -2147483649.0, 3.7, -0.5, -0.0, 2.0, 0.1, 3.5e38, 16777217.0]
    for t in (BOOL, I32, U32, F32):
        for v in vals:
            for byid in ((False, True) if full else (False,)):
                for with_default in (True, False):
                    a = _decl(0, t, _lit_for(t, 1 if t != F32 else 1.0) if with_default else None, oid=77 if byid else None)
                    # a derived override shows which value dependants see
                    e, txt = [1, 0], a["name"]
                    b = _decl(1, t, (e, txt))
                    out.append(_prog([a, b], [], [], vmap=[["77" if byid else a["name"], f64bits(v)]], kind="matrix-values"))
    # purely abstract float arithmetic (WGSL: evaluated in binary64, converted once)
    for op, x, y in ((ADD, "0.1", "2.718"), (SUB, "0.1", "0.3"), (MUL, "0.1", "0.1"), (DIV, "0.1", "0.3")):
        xe, xt = lit_float(x, 0)
        ye, yt = lit_float(y, 0)
        for vm in ([], trigger):
            out.append(_prog([_decl(0, F32, ([4, op, xe, ye], "(%s %s %s)" % (xt, BOPS[op], yt)))], [], [], vmap=vm))
    out.append(_prog([_decl(0, F32, _neg(lit_float("2.5", 0)))], [], [], vmap=trigger))
    out.append(_prog([_decl(0, I32, _neg(lit_int(5, 0)))], [], [], vmap=trigger))
    # composition: each operator is right on converted operands, the float64 intermediate is not converted
    for t, sfx in ((I32, 1), (U32, 2)):
        a = _decl(0, t, lit_int(7, sfx))
        two, twot = lit_int(2, sfx)
        e = [4, MUL, [4, DIV, [1, 0], two], two]
        txt = "((%s / %s) * %s)" % (a["name"], twot, twot)
        out.append(_prog([a, _decl(1, t, (e, txt))], [], [], vmap=trigger))
        out.append(_prog([a], [{"name": "gva", "ty": t, "init": e, "text": "var<private> gva: %s = %s;" % (TYNAME[t], txt)}], [], vmap=trigger))
    a = _decl(0, F32, lit_float("16777216.0", 0))
    one, onet = lit_float("1.0", 0)
    e = [4, ADD, [4, ADD, [1, 0], one], one]
    out.append(_prog([a, _decl(1, F32, (e, "((%s + %s) + %s)" % (a["name"], onet, onet)))], [], [], vmap=trigger))
    # a derived override sees the supplied float64, not the converted value
    for t, v in ((I32, 3.7), (U32, 3.7), (F32, 0.1), (BOOL, 2.0)):
        a = _decl(0, t, _lit_for(t, 1 if t != F32 else 1.0))
        if t == BOOL:
            e, txt = [3, NOT, [1, 0]], "!(%s)" % a["name"]
        else:
            two, twot = _lit_for(t, 2 if t != F32 else 3.0)
            e, txt = [4, MUL, [1, 0], two], "(%s * %s)" % (a["name"], twot)
        out.append(_prog([a, _decl(1, t, (e, txt))], [], [], vmap=[[a["name"], f64bits(v)]]))
        out.append(_prog([a], [{"name": "gva", "ty": t, "init": e, "text": "var<private> gva: %s = %s;" % (TYNAME[t], txt)}], [],
                         vmap=[[a["name"], f64bits(v)]]))
    # references to an override the MSL pass left unresolved (NaN = not set)
    for t in (I32, U32, F32):
        a = _decl(0, t, _lit_for(t, 1 if t != F32 else 1.0))
        two, twot = _lit_for(t, 2 if t != F32 else 3.0)
        e, txt = [4, MUL, [1, 0], two], "(%s * %s)" % (a["name"], twot)
        out.append(_prog([a, _decl(1, t, (e, txt))], [], [], vmap=[[a["name"], f64bits(float("nan"))]]))
    # overrides the MSL pass cannot resolve (unary default) referenced by others
    for t, ue, second in ((I32, _neg(lit_int(5, 1)), lit_int(1, 1)), (U32, ([3, BNOT, lit_int(8, 2)[0]], "~(8u)"), lit_int(1, 2)),
                          (F32, _neg(lit_float("2.5", 0)), lit_float("1.5", 0)), (BOOL, ([3, NOT, lit_bool(True)[0]], "!(true)"), None)):
        a = _decl(0, t, ue)
        out.append(_prog([a, _decl(1, t, ([1, 0], a["name"]))], [], [], vmap=trigger))
        if second is not None:
            e, txt = [4, ADD, [1, 0], second[0]], "(%s + %s)" % (a["name"], second[1])
            out.append(_prog([a, _decl(1, t, (e, txt))], [], [], vmap=trigger))
    # ... and an unresolved override without type annotation (not compared itself) referenced by another
    for t, ie, e2 in ((U32, ([4, BOR, lit_int(12, 2)[0], lit_int(3, 2)[0]], "(12u | 3u)"), lambda n: ([4, GT, [1, 0], lit_int(1, 2)[0]], "(%s > 1u)" % n)),
                      (BOOL, ([4, BOR, lit_bool(True)[0], lit_bool(False)[0]], "(true | false)"), lambda n: ([4, EQ, [1, 0], lit_bool(True)[0]], "(%s == true)" % n))):
        a = _decl(0, t, ie, declared=False)
        out.append(_prog([a, _decl(1, BOOL, e2(a["name"]))], [], [], vmap=trigger))
    # sign of zero, abstract division by zero, constant left operand of && / || in a function
    out.append(_prog([_decl(0, F32, _neg(lit_int(0, 0)))], [], [], vmap=trigger))
    out.append(_prog([_decl(0, F32, ([4, DIV, lit_int(5, 0)[0], lit_int(0, 0)[0]], "(5 / 0)"))], [], [], vmap=trigger))
    a = _decl(0, BOOL, lit_bool(True))
    for op, lv in ((LAND, True), (LOR, False)):
        e, txt = [4, op, lit_bool(lv)[0], [1, 0]], "(%s %s %s)" % ("true" if lv else "false", BOPS[op], a["name"])
        out.append(_prog([a], [], [{"name": "ra", "ty": BOOL, "e": e, "text": txt}], vmap=trigger))
    # a derived bool sees a raw NaN
    a = _decl(0, BOOL, lit_bool(True))
    out.append(_prog([a, _decl(1, BOOL, ([3, NOT, [1, 0]], "!(%s)" % a["name"]))], [], [], vmap=[[a["name"], f64bits(float("nan"))]]))
    # abstract-int division evaluated in floating point
    out.append(_prog([_decl(0, F32, ([4, DIV, lit_int(100, 0)[0], lit_int(9, 0)[0]], "(100 / 9)"))], [], [], vmap=trigger))
    # derived global initialisers whose lowering drops them; defaults dropped inside an operator
    for t, leaf in ((I32, "const"), (F32, "fsuffix")):
        a = _decl(0, t, _lit_for(t, 3 if t == I32 else 1.5))
        if leaf == "const":
            l, ltxt = _lit_for(I32, 3)
            c = [("KA", I32, l, "const KA: i32 = %s;" % ltxt)]
            x, xt = [2, I32, l[1]], "KA"
        else:
            c = []
            x, xt = lit_float("2.5", 1)
        e, txt = [4, ADD, [1, 0], x], "(%s + %s)" % (a["name"], xt)
        out.append(_prog([a], [{"name": "gva", "ty": t, "init": e, "text": "var<private> gva: %s = %s;" % (TYNAME[t], txt)}], [], vmap=trigger, consts=c))
        out.append(_prog([a, _decl(1, t, (e, txt))], [], [], vmap=trigger, consts=c))
    # type inferred from a non-literal initialiser
    a = _decl(0, I32, lit_int(3, 1))
    out.append(_prog([a, _decl(1, I32, ([4, ADD, [1, 0], lit_int(1, 1)[0]], "(%s + 1i)" % a["name"]), declared=False)], [], [], vmap=trigger))
    # overflow / error-required cases the value pairs above do not reach
    for t, op, x, y in ((I32, SUB, -2147483647, 5), (I32, ADD, 2147483647, 5), (I32, MUL, 2147483647, 3),
                        (U32, MUL, 4107723037, 16777215)):
        a = _decl(0, t, _lit_for(t, 1))
        ye, ytxt = _lit_for(t, y)
        e, txt = [4, op, [1, 0], ye], "(%s %s %s)" % (a["name"], BOPS[op], ytxt)
        vm = [[a["name"], f64bits(float(x))]]           # large operands arrive as pipeline values (literals are rounded to f32)
        out.append(_prog([a, _decl(1, t, (e, txt))], [], [], vmap=vm))
        out.append(_prog([a], [], [{"name": "ra", "ty": t, "e": e, "text": txt}], vmap=vm))
    for op, x, y in ((MUL, "3e38", "10.0"), (DIV, "1.0", "0.0"), (ADD, "3e38", "3e38")):
        xe, xt = lit_float(x, 0)
        ye, yt = lit_float(y, 0)
        out.append(_prog([_decl(0, F32, ([4, op, xe, ye], "(%s %s %s)" % (xt, BOPS[op], yt)))], [], [], vmap=trigger))
        a = _decl(0, F32, (xe, xt))
        e, txt = [4, op, [1, 0], ye], "(%s %s %s)" % (a["name"], BOPS[op], yt)
        out.append(_prog([a], [], [{"name": "ra", "ty": F32, "e": e, "text": txt}], vmap=trigger))
    for op in (LAND, LOR):
        a = _decl(0, BOOL, lit_bool(True))
        e, txt = [4, op, [1, 0], lit_bool(False)[0]], "(%s %s false)" % (a["name"], BOPS[op])
        out.append(_prog([a], [], [{"name": "ra", "ty": BOOL, "e": e, "text": txt}], vmap=trigger))
    a = _decl(0, F32, lit_float("1.5", 0))
    e, txt = [4, EQ, [1, 0], lit_float("1.5", 0)[0]], "(%s == 1.5)" % a["name"]
    out.append(_prog([a, _decl(1, BOOL, (e, txt))], [], [], vmap=trigger))
    # statement shapes whose storage the clone shares with the caller's module
    a = _decl(0, I32, lit_int(7, 0))
    for shape_src in ("fn hf(x: i32) -> i32 { let y = %s + x; return y * 2; }\n@compute @workgroup_size(1)\nfn main() {\n  ob[0] = hf(1);\n}\n",
                      "fn hg(x: i32) -> i32 { return x; }\n@compute @workgroup_size(1)\nfn main() {\n  let s3 = %s + ob[1];\n  let z3 = hg(s3);\n  ob[0] = z3;\n}\n",
                      "@compute @workgroup_size(1)\nfn main() {\n  let s1 = %s + ob[1];\n  if (s1 > 3) { ob[0] = s1 * 2; }\n}\n"):
        pr = _prog([a], [], [], vmap=trigger)
        pr["src"] = a["text"] + "\n@group(0) @binding(0) var<storage, read_write> ob: array<i32>;\n" + (shape_src % a["name"])
        pr["shape"] = 1
        out.append(pr)
    # lookup order, unknown keys, literal forms, const refs, inferred types, workgroup sizes
    a = _decl(0, I32, lit_int(7, 0), oid=5)
    out.append(_prog([a], [], [], vmap=[["5", f64bits(9.0)], [a["name"], f64bits(100.0)]]))
    out.append(_prog([a], [], [], vmap=[[a["name"], f64bits(100.0)], ["5", f64bits(9.0)]]))
    out.append(_prog([a], [], [], vmap=[[a["name"], f64bits(100.0)]]))
    out.append(_prog([a], [], [], vmap=[["05", f64bits(3.0)], ["+5", f64bits(4.0)], ["5.0", f64bits(6.0)]]))
    for t, le in ((I32, lit_int(16777217, 0)), (I32, lit_int(16777217, 1)), (U32, lit_int(16777217, 2)), (U32, lit_int(4294967295, 2)),
                  (U32, lit_int(16777217, 0)), (F32, lit_float("1.5", 1)), (F32, lit_float("16777217.0", 0)), (F32, lit_int(3, 0)),
                  (I32, lit_int(2147483647, 0)), (BOOL, lit_bool(True))):
        for vm in ([], trigger):
            out.append(_prog([_decl(0, t, le)], [], [], vmap=vm))
            out.append(_prog([_decl(0, t, le, declared=False) if not (t == F32 and le[0][1][0] == 1) and not (t == U32 and le[0][1][2] == 0) else _decl(0, t, le)], [], [], vmap=vm))
    for t in (I32, U32, F32, BOOL):
        l, txt = _lit_for(t, 3 if t != BOOL else True)
        c = ("KA", t, l, "const KA: %s = %s;" % (TYNAME[t], txt))
        for vm in ([], trigger):
            out.append(_prog([_decl(0, t, ([2, t, l[1]], "KA"))], [], [], vmap=vm, consts=[c]))
    for t in (I32, U32):
        a = _decl(0, t, _lit_for(t, 64))
        for vm in ([], trigger, [[a["name"], f64bits(8.0)]]):
            out.append(_prog([a], [], [], wg=[[1, 0], lit_int(2, 0)[0]], wgtxt="%s, 2" % a["name"], vmap=vm))
            out.append(_prog([a], [], [], wg=[[4, MUL, [1, 0], lit_int(2, 0)[0]]], wgtxt="%s * 2" % a["name"], vmap=vm))
    return out
