"""C04 "generated" family: typed random WGSL programs (lib/wgslgen.py) through the MSL back end.

  * gen_programs      N wgslgen programs, kept clear of the constructs with a RECORDED C04 finding (options +
                      meaning-preserving rewrite `clear_of_findings`; the findings keep their dedicated programs in
                      lib/mslprogs.py and the probe table)
  * Single            compile + run ONE (program AST, option set, input) on both interpreters: the oracle of the shrinker
  * shrink_case       lib/shrink.py on a disagreeing program, then `signature` = the construct features that are left
  * disagreement key  "gen:<class of disagreement>:<signature of the shrunk program>": no program index, no seed
"""
import copy
import json
import re

import mslcorr
import mslread
import nagarun
import shrink
import vcheck
import wgslgen

# builtins with a recorded finding (known_findings.jsonl: op:round_f32:tie, op:firstleadingbit_u32:all_ones); the
# float->int saturation findings are avoided by wgslgen's default f2i_safe clamp; dot() is generated on f32 only
AVOID = ("round:f32", "firstLeadingBit")
GEN_OPTS = {"avoid": AVOID, "agg_bias": 5, "dyn_index_den": 2}


def _walk_exprs(x, fn):
    """post-order visit of every dict that is an expression node (has key "e") inside x"""
    if isinstance(x, list):
        for y in x:
            _walk_exprs(y, fn)
    elif isinstance(x, dict):
        for v in list(x.values()):
            _walk_exprs(v, fn)
        if "e" in x:
            fn(x)


CMP_OPS = ("==", "!=", "<", "<=", ">", ">=")


class Typer:
    """types of wgslgen expressions (the AST carries none): env maps a name to (type, "val"|"ref"|"fn")"""
    def __init__(self, prog):
        self.structs = {s["name"]: s for s in prog["structs"]}
        self.funcs = {f["n"]: f for f in prog["funcs"]}

    def of(self, e, env):
        k = e["e"]
        if k == "lit":
            return e["t"]
        if k == "var":
            return env[e["n"]][0]
        if k == "un":
            return self.of(e["a"], env)
        if k == "bin":
            op = e["op"]
            ta, tb = self.of(e["a"], env), self.of(e["b"], env)
            if op in ("&&", "||"):
                return "bool"
            if op in CMP_OPS:
                return ["vec", ta[1], "bool"] if wgslgen.is_vec(ta) else "bool"
            if op in ("<<", ">>"):
                return ta
            if isinstance(ta, list) and ta[0] == "mat":
                if wgslgen.is_vec(tb):
                    return ["vec", ta[2], "f32"]
                if isinstance(tb, list) and tb[0] == "mat":
                    return ["mat", tb[1], ta[2]]
                return ta
            if isinstance(tb, list) and tb[0] == "mat":
                return ["vec", tb[1], "f32"] if wgslgen.is_vec(ta) else tb
            return ta if wgslgen.is_vec(ta) else (tb if wgslgen.is_vec(tb) else ta)
        if k == "call":
            return self.funcs[e["f"]]["ret"]
        if k == "builtin":
            f = e["f"]
            if f in ("any", "all"):
                return "bool"
            if f == "dot":
                return self.of(e["args"][0], env)[2]
            return self.of(e["args"][0], env)
        if k == "cons":
            return e["t"]
        if k == "idx":
            t = self.of(e["a"], env)
            if t[0] == "arr":
                return t[2]
            if t[0] == "mat":
                return ["vec", t[2], "f32"]
            return t[2]
        if k == "mem":
            return self.structs[self.of(e["a"], env)[1]]["members"][e["m"]]["t"]
        if k == "swz":
            t = self.of(e["a"], env)
            return t[2] if len(e["p"]) == 1 else ["vec", len(e["p"]), t[2]]
        if k in ("conv", "bitcast"):
            ta = self.of(e["a"], env)
            return ["vec", ta[1], e["t"]] if wgslgen.is_vec(ta) else e["t"]
        if k == "addr":
            return ["ptr", "function", self.of(e["a"], env)]
        if k == "deref":
            return self.of(e["a"], env)[2]
        if k == "arraylen":
            return "u32"
        raise ValueError(k)


def _eq(a, b):
    return json.dumps(a, sort_keys=True) == json.dumps(b, sort_keys=True)


def clear_of_findings(prog, rng=None):
    """Rewrite that keeps a generated program clear of the recorded C04 findings that cannot be switched off by
    generator options (the rewritten program is what is compiled AND what the reference interprets):

      prog:compose_repeated_vector:constructor   vecN(v, v) with the same sub-vector expression twice: the later
            occurrences are made distinct expressions with the same value.
      prog:select_scalar_operand / prog:rzsw_value_index_operand   naga emits `c ? a : b` for select() with a scalar
            condition, and `uint(i) < n ? v[i] : DefaultConstructible()` for a run-time index into a vector/matrix/array
            VALUE, without enclosing parentheses.  Such a node is left alone where the C++ context delimits it (initialiser
            of a let/var, right side of `=`, return value, call / builtin / constructor argument, conversion operand,
            index inside [ ]); in operand position (binary/unary operator, base of . or [ ], right side of a compound
            assignment, select condition) it is hoisted into a `let` in front of the statement.  All generated
            expressions are total, so the hoisted program is valid; its own meaning is the reference.
    round / firstLeadingBit are avoided through the `avoid` option.

    With rng: additionally, one constructor in three of an array / matrix / vector-from-scalars gets all its components
    replaced by ONE let-bound value (`let r = e; array<T,3>(r, r, r)`): the same IR handle repeated, the shape back ends
    special-case as a "splat" (wgslgen draws every component separately, so it hardly ever produces it)."""
    p = copy.deepcopy(prog)
    ty = Typer(p)

    def fix_cons(x):
        if x.get("e") == "cons" and isinstance(x.get("t"), list) and x["t"][0] == "vec" and 2 <= len(x["args"]) < x["t"][1]:
            a = x["args"]
            if all(_eq(y, a[0]) for y in a[1:]):
                sc = x["t"][2]
                n = x["t"][1] // len(a)
                for i in range(1, len(a)):
                    if sc == "bool":
                        a[i] = {"e": "un", "op": "!", "a": {"e": "un", "op": "!", "a": a[i]}}
                    elif sc == "f32":
                        a[i] = {"e": "bin", "op": "*", "a": a[i], "b": {"e": "cons", "t": ["vec", n, sc], "args": [wgslgen.lit("f32", 0x3F800000)]}}
                    else:
                        a[i] = {"e": "bin", "op": "|", "a": a[i], "b": {"e": "cons", "t": ["vec", n, sc], "args": []}}
    _walk_exprs(p["funcs"], fix_cons)
    _walk_exprs(p["entry"]["body"], fix_cons)

    genv = {}
    for g in p["globals"]:
        genv[g["n"]] = (g["t"], "ref")
    for c in p["consts"]:
        genv[c["n"]] = (c["t"], "val")
    counter = [0]

    def is_chain(e):
        return e["e"] in ("idx", "mem") or (e["e"] == "swz" and len(e["p"]) == 1)

    def chain_dyn(e, env):
        """e is an access chain on a VALUE that naga guards as a whole (buildRZSWBoundsCheck walks Access/AccessIndex
        nodes down to the root, through let-bound names): some index on the way is a run-time value"""
        dyn = False
        while is_chain(e):
            if e["e"] == "idx" and e["i"].get("e") != "lit":
                dyn = True
            e = e["a"]
        if e["e"] == "var":
            kind = env[e["n"]][1]
            return kind == "valdyn" or (kind == "val" and dyn)
        if e["e"] == "deref" or (e["e"] == "swz"):
            return False
        return dyn

    def ternary(e, env):
        """None | "select" | "index": does naga print this node as a bare ?: expression"""
        if e["e"] == "builtin" and e["f"] == "select" and ty.of(e["args"][2], env) == "bool":
            return "select"
        if is_chain(e) and chain_dyn(e, env):
            return "index"
        return None

    def let_kind(e, t, env):
        return "valdyn" if isinstance(t, list) and t[0] != "ptr" and is_chain(e) and chain_dyn(e, env) else "val"

    def visit(e, env, safe, out, hoist):
        """rewrites e's children in place; returns the node that replaces e.  safe: may e be a bare ternary here"""
        k = e["e"]
        kids = []          # (container, key, child is in a delimited position)
        if k in ("un",):
            kids = [(e, "a", False)]
        elif k == "bin":
            kids = [(e, "a", False), (e, "b", False)]
        elif k in ("call", "cons"):
            kids = [(e["args"], i, True) for i in range(len(e["args"]))]
        elif k == "builtin":
            kids = [(e["args"], i, True) for i in range(len(e["args"]))]
            if e["f"] == "select":
                kids[2] = (e["args"], 2, "selcond")
        elif is_chain(e):
            # the chain below is part of the same guarded expression: only its top may need hoisting
            kids = [(e, "a", is_chain(e["a"]) or e["a"]["e"] == "var")] + ([(e, "i", True)] if k == "idx" else [])
        elif k in ("swz", "deref", "addr"):
            kids = [(e, "a", False)]
        elif k in ("conv", "bitcast"):
            kids = [(e, "a", True)]
        elif k == "arraylen":
            kids = [(e, "a", True)]
        for cont, key, s in kids:
            c = cont[key]
            child_safe = (s is True) or (s == "selcond" and ternary(c, env) == "select")
            cont[key] = visit(c, env, child_safe, out, hoist)
        if rng is not None and hoist and k == "cons" and len(e["args"]) >= 2 and isinstance(e["t"], list) and \
                (e["t"][0] in ("arr", "mat") or (e["t"][0] == "vec" and len(e["args"]) == e["t"][1])) and rng.chance(1, 3):
            counter[0] += 1
            n = "r_%d" % counter[0]
            t = ty.of(e["args"][0], env)
            out.append({"s": "let", "n": n, "t": t, "e": e["args"][0]})
            env[n] = (t, let_kind(e["args"][0], t, env))
            e["args"] = [{"e": "var", "n": n} for _ in e["args"]]
        kind = ternary(e, env)
        if kind and not safe:
            t = ty.of(e, env)
            if not hoist:
                return {"e": "cons", "t": t, "args": []}
            counter[0] += 1
            n = "t_%d" % counter[0]
            out.append({"s": "let", "n": n, "t": t, "e": e})
            env[n] = (t, let_kind(e, t, env))
            return {"e": "var", "n": n}
        return e

    def block(b, env):
        env = dict(env)
        i = 0
        while i < len(b):
            s = b[i]
            k = s["s"]
            pre = []
            for fld, safe in (("e", k != "compound"), ("l", True), ("c", True)):
                if isinstance(s.get(fld), dict) and k not in ("for", "while", "loop"):
                    s[fld] = visit(s[fld], env, safe, pre, True)
            if k == "callstmt":
                for j in range(len(s["args"])):
                    s["args"][j] = visit(s["args"][j], env, True, pre, True)
            if k in ("for", "while"):
                env2 = dict(env)
                if k == "for" and s.get("init"):
                    if isinstance(s["init"].get("e"), dict):
                        s["init"]["e"] = visit(s["init"]["e"], env, True, [], False)
                    env2[s["init"]["n"]] = (s["init"]["t"], "ref")
                if s.get("c") is not None:
                    s["c"] = visit(s["c"], env2, True, [], False)
                if k == "for" and s.get("upd"):
                    for fld in ("e", "l"):
                        if isinstance(s["upd"].get(fld), dict):
                            s["upd"][fld] = visit(s["upd"][fld], env2, False, [], False)
                block(s["body"], env2)
            elif k == "loop":
                benv = block(s["body"], env)
                cenv = block(s["cont"], benv)
                if s.get("break_if") is not None:
                    s["break_if"] = visit(s["break_if"], cenv, True, [], False)
            elif k == "if":
                block(s["then"], env)
                block(s["else"], env)
            elif k == "switch":
                for c in s["cases"]:
                    block(c["body"], env)
            elif k == "block":
                block(s["body"], env)
            if k in ("let", "var"):
                t = s["t"]
                env[s["n"]] = (t, "ref" if k == "var" or (isinstance(t, list) and t[0] == "ptr") else let_kind(s["e"], t, env))
            if pre:
                b[i:i] = pre
                i += len(pre)
            i += 1
        return env

    for f in p["funcs"]:
        env = dict(genv)
        for q in f["params"]:
            env[q["n"]] = (q["t"], "ref" if isinstance(q["t"], list) and q["t"][0] == "ptr" else "val")
        counter[0] = 0
        block(f["body"], env)
        ty.funcs[f["n"]] = f
    env = dict(genv)
    env["gid"] = (["vec", 3, "u32"], "val")
    counter[0] = 0
    block(p["entry"]["body"], env)
    return p


def gen_programs(rng, n, opts=None):
    """[(name, ast, wgsl text)]"""
    out = []
    o = dict(GEN_OPTS)
    if opts:
        o.update(opts)
    for k in range(n):
        r = rng.fork("gen/%d" % k)
        prog, _src = wgslgen.generate(r.fork("p"), o)
        prog = clear_of_findings(prog, r.fork("repeat"))
        out.append(("gen%d" % k, prog, wgslgen.render(prog)))
    return out


# ------------------------------------------------------------------ classification

ILLFORMED_DC = "ill-formed: DefaultConstructible() as an operand"


def illformed_dc(text):
    """`DefaultConstructible()` has only a conversion-function TEMPLATE (operator T() &&): C++ can use it where a target
    type exists (second/third operand of ?: whose other operand is typed, initialiser, argument) but not as the operand
    of a postfix, unary or binary operator (`DefaultConstructible().x`, `DefaultConstructible() < 6.5`: no T can be
    deduced; the text does not compile).  Returns the offending snippets (token context)."""
    try:
        toks = mslread.tokenize(text)
    except mslread.OutOfFragment:
        return []
    out = []
    for i, (k, v) in enumerate(toks):
        if k == "id" and v == "DefaultConstructible" and i + 3 < len(toks) and toks[i + 1][1] == "(" and toks[i + 2][1] == ")":
            if toks[i - 1][1] == "struct":
                continue
            if toks[i + 3][1] not in (";", ")", ",", ":", "}"):
                out.append(" ".join(t[1] for t in toks[max(0, i - 8):i + 6]))
    return out


def classify(plan, setname, a, b, has_wg=False, all_parsed=True, illformed=None):
    """(class, detail) of one pair of results; class is one of
       agree | differ | msl-fail:<kind> | oof:<why> | undefined | intentional"""
    if not a.get("ok"):
        return "undefined", "%s %s" % (a.get("kind"), str(a.get("msg"))[:80])
    if illformed:
        return "msl-fail:" + ILLFORMED_DC, "the emitted text does not compile: ... %s ..." % illformed[0]
    if setname == "v31_nozero" and has_wg:
        return "intentional", "workgroup memory deliberately not zero-initialised"
    if not b.get("ok"):
        msg = str(b.get("msg"))
        if all_parsed and msg.startswith(("not modelled: unknown identifier", "not modelled: unknown function")):
            # every item of the text was read, so the name is declared nowhere: the MSL does not compile
            return "msl-fail:undeclared name", msg
        if b.get("kind") in ("outoffuel", "decode", "crash") or msg.startswith("not modelled"):
            return "oof:interpreter", "%s %s" % (b.get("kind"), msg[:80])
        return "msl-fail:" + msg_class(msg), msg
    for h in plan.storage_handles():
        x = mslcorr.canon(a["globals"][h])
        y = mslcorr.canon(b["buffers"].get(str(plan.slot[h])))
        d = mslcorr.first_diff(x, y)
        if d:
            return "differ", "global %s (%s): %s" % (h, plan.ir["GlobalVariables"][h]["Name"], d)
    return "agree", ""


def msg_class(msg):
    """interpreter message with names and numbers removed: `UB: read of uninitialised x_3` -> `UB: read of uninitialised N`"""
    m = msg.split(":")
    head = ":".join(m[:2]) if msg.startswith("UB") else m[0]
    head = re.sub(r"\b[A-Za-z_]+\d\w*\b", "N", head)
    head = re.sub(r"\d+", "N", head)
    return head.strip()[:60]


class Single:
    """compile + run one program at a time (the shrinker's oracle)"""
    def __init__(self, tools, enums, irrun, mslrun, fuel):
        self.tools, self.enums, self.irrun, self.mslrun, self.fuel = tools, enums, irrun, mslrun, fuel
        self.last = None

    def status(self, prog, setname, inp_by_name, k, rt_len):
        """inp_by_name: {global name: value} (so that deleting a global during shrinking keeps the others' inputs)"""
        src = wgslgen.render(prog)
        r = nagarun.run_batch(self.tools["msldrive"], "compile",
                              [{"id": 0, "src": src, "want": ["ir"], "data": {"optsets": [mslcorr.OPTSETS[setname]]}}]).get(0) or {}
        if "ir" not in r:
            return "rejected", ""
        m = (r.get("msl") or {}).get(setname, {})
        if "text" not in m:
            return "rejected-msl", str(m)[:100]
        try:
            ast = mslread.parse(m["text"])
        except mslread.OutOfFragment as e:
            return "oof:reader", str(e)
        plan = mslcorr.Plan(self.enums, r["ir"], 0)
        if plan.why:
            return "oof:plan", plan.why
        epn = mslcorr.entry_names(m["info"]).get("main", "main")
        if not [f for f in ast["funcs"] if f["name"] == epn]:
            return "oof:reader", "entry point unparsed"
        inp = input_for(plan, inp_by_name, k, rt_len)
        if inp is None:
            return "noinput", ""
        ill = illformed_dc(m["text"])

        def run_msl():
            if ill:
                return {"ok": False, "kind": "fail", "msg": ILLFORMED_DC}        # decided statically: no need to run
            try:
                return vcheck.run_model(self.mslrun, [plan.msl_request(mslcorr.ast_for_model(ast), epn, inp, self.fuel)], timeout=60)[0]
            except Exception as e:
                return {"ok": False, "kind": "crash", "msg": str(e)[-200:]}
        from concurrent.futures import ThreadPoolExecutor
        with ThreadPoolExecutor(2) as ex:
            fb = ex.submit(run_msl)
            a = vcheck.run_model(self.irrun, [plan.ir_request(inp, self.fuel)], timeout=60)[0]
            b = fb.result()
        has_wg = any(sp == "SpaceWorkGroup" and h in plan.used for h, sp, b_, ty in plan.globals)
        c, d = classify(plan, setname, a, b, has_wg, not ast["unparsed"], ill)
        self.last = {"src": src, "msl": m["text"], "detail": d, "input": inp}
        return c, d


def input_by_name(plan, inp):
    return {plan.ir["GlobalVariables"][h]["Name"]: inp["globals"][h] for h, sp, b, ty in plan.globals if inp["globals"][h] is not None}


def input_for(plan, by_name, k, rt_len):
    gl = []
    for h, sp, b, ty in plan.globals:
        if sp in ("SpaceStorage", "SpaceUniform") and h in plan.used:
            v = by_name.get(plan.ir["GlobalVariables"][h]["Name"])
            if v is None:
                return None
            gl.append(v)
        else:
            gl.append(None)
    return {"globals": gl, "rt_len": rt_len, "k": k}


def shrink_case(single, prog, setname, inp_by_name, k, rt_len, cls, max_rounds=3, budget=400, deadline=None):
    """smallest program (greedy statement deletion, then expression reduction) on which the same class of
    disagreement is still observed; at most `budget` oracle calls and never past `deadline` (time.time())"""
    import time
    calls = [0]

    def still(p):
        calls[0] += 1
        if calls[0] > budget or (deadline is not None and time.time() > deadline):
            return False
        c, _d = single.status(p, setname, inp_by_name, k, rt_len)
        return c == cls
    try:
        small = shrink.shrink(prog, still, max_rounds=max_rounds)
    except Exception:
        small = prog
    small = drop_unused(small, still)
    try:
        small = shrink_exprs(small, still)
        small = shrink.shrink(small, still, max_rounds=1)
        small = drop_unused(small, still)
    except Exception:
        pass
    c, d = single.status(small, setname, inp_by_name, k, rt_len)
    if c != cls:
        small = prog
        c, d = single.status(small, setname, inp_by_name, k, rt_len)
    return small, dict(single.last or {}, cls=c, detail=d)


def expr_slots(prog):
    """[(container, key, env, role)] for the expression slots of every statement; env: name -> (type, kind) in scope;
    role "l" for assignment targets (only their index expressions are reduced)"""
    out = []
    genv = {}
    for g in prog["globals"]:
        genv[g["n"]] = (g["t"], "ref")
    for c in prog["consts"]:
        genv[c["n"]] = (c["t"], "val")

    def block(b, env):
        env = dict(env)
        for s in b:
            k = s["s"]
            for fld in ("e", "c", "break_if"):
                if isinstance(s.get(fld), dict) and k not in ("for", "while"):
                    out.append((s, fld, env, "e"))
            if isinstance(s.get("l"), dict):
                out.append((s, "l", env, "l"))
            if k == "callstmt":
                for j in range(len(s["args"])):
                    out.append((s["args"], j, env, "e"))
            if k in ("for", "while"):
                env2 = dict(env)
                if k == "for" and s.get("init"):
                    env2[s["init"]["n"]] = (s["init"]["t"], "ref")
                block(s["body"], env2)
            elif k == "loop":
                benv = block(s["body"], env)
                block(s["cont"], benv)
            elif k == "if":
                block(s["then"], env)
                block(s["else"], env)
            elif k == "switch":
                for c in s["cases"]:
                    block(c["body"], env)
            elif k == "block":
                block(s["body"], env)
            if k in ("let", "var"):
                env[s["n"]] = (s["t"], "ref" if k == "var" else "val")
        return env
    for f in prog["funcs"]:
        env = dict(genv)
        for q in f["params"]:
            env[q["n"]] = (q["t"], "val")
        block(f["body"], env)
    env = dict(genv)
    env["gid"] = (["vec", 3, "u32"], "val")
    block(prog["entry"]["body"], env)
    return out


def zero_expr(t):
    if t == "bool":
        return wgslgen.lit("bool", False)
    if isinstance(t, str):
        return wgslgen.lit(t, 0)
    return {"e": "cons", "t": t, "args": []}


def shrink_exprs(prog, still, max_rounds=2):
    """expression-level shrinking: every sub-expression is replaced by the zero value of its type, or by an operand of
    the same type, when the disagreement survives (types from Typer; pointers and assignment targets are left alone)"""
    ty = Typer(prog)

    def kids(e):
        k = e["e"]
        if k in ("un", "conv", "bitcast", "mem", "swz"):
            return [(e, "a")]
        if k == "bin":
            return [(e, "a"), (e, "b")]
        if k in ("call", "builtin", "cons"):
            return [(e["args"], i) for i in range(len(e["args"]))]
        if k == "idx":
            return [(e, "a"), (e, "i")]
        return []

    def is_min(e):
        return e["e"] == "lit" or (e["e"] == "cons" and not e["args"]) or e["e"] == "var"

    def reduce(cont, key, env, role):
        e = cont[key]
        changed = False
        if role == "l":
            # assignment target: only the indices inside the path
            while e["e"] in ("idx", "mem", "swz", "deref"):
                if e["e"] == "idx" and e["i"]["e"] != "lit":
                    changed |= reduce(e, "i", env, "e")
                e = e["a"]
            return changed
        try:
            t = ty.of(e, env)
        except Exception:
            return False
        if t is None or (isinstance(t, list) and (t[0] == "ptr" or wgslgen.unsized(t))):
            return False
        if not is_min(e):
            cands = [zero_expr(t)]
            for c, ck in kids(e):
                try:
                    if ty.of(c[ck], env) == t:
                        cands.append(c[ck])
                except Exception:
                    pass
            for cand in cands:
                cont[key] = cand
                ok = False
                try:
                    ok = still(prog)
                except Exception:
                    ok = False
                if ok:
                    reduce(cont, key, env, role)
                    return True
                cont[key] = e
        if e["e"] in ("arraylen", "addr", "deref"):
            return False
        for c, ck in kids(e):
            changed |= reduce(c, ck, env, "e")
        return changed

    for _ in range(max_rounds):
        any_change = False
        for cont, key, env, role in expr_slots(prog):
            if isinstance(cont[key], dict):
                any_change |= reduce(cont, key, env, role)
        if not any_change:
            break
    return prog


def drop_unused(prog, still):
    """helper functions, constants and globals that the shrunk program no longer mentions"""
    p = copy.deepcopy(prog)
    for coll in ("funcs", "consts", "globals", "structs"):
        i = 0
        while i < len(p[coll]):
            if coll == "globals" and p[coll][i]["n"] == "out0":
                i += 1
                continue
            saved = p[coll][i]
            del p[coll][i]
            ok = False
            try:
                ok = still(p)
            except Exception:
                ok = False
            if not ok:
                p[coll].insert(i, saved)
                i += 1
    return p


# ------------------------------------------------------------------ signature of a (shrunk) program

def _ty_tag(t):
    if isinstance(t, str):
        return t
    if t[0] == "vec":
        return "vec"
    if t[0] == "mat":
        return "mat%dx%d" % (t[1], t[2]) if t[1] != t[2] else "matsq"
    if t[0] == "arr":
        return "arr" if t[1] is not None else "rtarr"
    return t[0]


def signature(prog):
    """construct features of a program: statement shapes (with their nesting context where it matters to a back end:
    calls inside `continuing`, `if` with a terminating arm at the end of a switch case, ...), expression kinds,
    builtins, type shapes of declarations and parameters.  After shrinking this names the construct a disagreement
    needs; it contains no identifiers, literals or indices."""
    feats = set()

    def expr(x, ctx):
        def fn(e):
            k = e["e"]
            if k in ("builtin",):
                feats.add("b:" + e["f"])
            elif k == "call":
                feats.add("call" + ctx)
            elif k in ("bin", "un"):
                feats.add("op:" + e["op"])
            elif k == "cons":
                feats.add("cons:" + _ty_tag(e["t"]) + ("" if e["args"] else ":zero"))
            elif k == "idx":
                feats.add("idx:" + ("const" if e["i"].get("e") == "lit" else "dyn"))
            elif k in ("swz", "mem", "conv", "bitcast", "addr", "deref", "arraylen"):
                feats.add(k)
        _walk_exprs(x, fn)

    def terminates(b):
        return bool(b) and b[-1].get("s") in ("break", "continue", "return")

    def block(b, ctx):
        for s in b:
            k = s["s"]
            feats.add("s:" + k + ctx if k in ("callstmt", "return", "break", "continue") else "s:" + k)
            for f in ("e", "l", "c", "break_if"):
                if isinstance(s.get(f), dict):
                    expr(s[f], ctx)
            if k in ("let", "var") and s.get("t") is not None:
                feats.add("decl:" + _ty_tag(s["t"]) + ("" if s.get("e") is not None else ":noinit"))
            if k == "if":
                if terminates(s["then"]) != terminates(s["else"]):
                    feats.add("if:one-arm-terminates" + ctx)
                block(s["then"], ctx)
                block(s["else"], ctx)
            elif k == "switch":
                for c in s["cases"]:
                    if c["body"] and c["body"][-1].get("s") == "if":
                        feats.add("switch:case-ends-in-if")
                    if len(c["sel"]) > 1:
                        feats.add("switch:multi-selector")
                    block(c["body"], "@switch")
            elif k == "loop":
                block(s["body"], "@loop")
                block(s["cont"], "@continuing")
                if s.get("break_if") is not None:
                    feats.add("break-if")
            elif k == "for":
                if s.get("init"):
                    block([s["init"]], ctx)
                if s.get("upd"):
                    block([s["upd"]], "@continuing")
                block(s["body"], "@loop")
            elif k == "while":
                block(s["body"], "@loop")
            elif k == "block":
                block(s["body"], ctx)
    for f in prog["funcs"]:
        feats.add("fn")
        for q in f["params"]:
            feats.add("param:" + _ty_tag(q["t"]))
        if f["ret"] is not None:
            feats.add("ret:" + _ty_tag(f["ret"]))
        block(f["body"], "")
    block(prog["entry"]["body"], "")
    for g in prog["globals"]:
        if g["n"] != "out0":
            feats.add("g:%s:%s" % (g["space"], _ty_tag(g["t"])))
    for c in prog["consts"]:
        feats.add("const:" + _ty_tag(c["t"]))
    return ",".join(sorted(feats))


# features nearly every program has: they say nothing about the construct a disagreement needs
BORING = ("s:assign", "s:let", "s:var", "idx:const", "addr", "arraylen", "op:%", "bitcast", "swz", "mem",
          "decl:u32", "decl:i32", "decl:f32", "decl:bool", "decl:vec", "cons:vec", "cons:vec:zero", "fn")


def key_of(cls, small):
    import hashlib
    sig = ",".join(f for f in signature(small).split(",") if f and f not in BORING and not f.startswith("g:"))
    return "gen:%s:%s" % (cls, sig if len(sig) <= 160 else sig[:120] + "#" + hashlib.sha256(sig.encode()).hexdigest()[:10])
