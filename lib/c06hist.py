"""C06 - constant evaluation must not depend on the HISTORY of uses of a constant (round 3).

The value a module constant contributes to a constant expression is a function of its declaration only.  The
lowerer keeps per-module tables of evaluated constants; an evaluation that converts a table entry IN PLACE (e.g.
abstract-int -> f32 for a float slot of a composite constant) changes what every later use sees.  This family is
metamorphic: a program P(MIDDLE) declares `const N = k;`, then MIDDLE - one declaration that merely USES N (in a
float slot, an integer slot, a struct constructor, a vector operation, an array type ...) -, then an entry point whose
results depend on N being an abstract INTEGER (integer division / remainder before a conversion, an array size, a shift).
For every MIDDLE the lowered program, run by the reference interpreter (irrun), must leave exactly the buffer contents
of P(empty); acceptance must not change either.  Placing MIDDLE after the entry point is a second control."""
import json

import nagarun

KS = [2, 3, 7]
MIDDLES = [
    ("none", ""),
    ("vec2f_with_expr", "const M0 = vec2<f32>(N, 1.0 + 0.5);"),
    ("vec2f_literals", "const M0 = vec2<f32>(N, 1.5);"),
    ("vec3f_two_uses", "const M0 = vec3<f32>(N, 2.0 * 0.25, N);"),
    ("array_f32", "const M0 = array<f32, 2>(N, 2.0 * 0.25);"),
    ("struct_f32_member", "struct P { a: f32, b: i32 }\nconst M0 = P(N, 1);"),
    ("struct_both", "struct P { a: f32, b: i32 }\nconst M0 = P(N, N);"),
    ("vector_binary", "const M0 = vec2<f32>(N, 1.0) * vec2<f32>(2.0, 2.0);"),
    ("mat_cols", "const M0 = mat2x2<f32>(vec2<f32>(N, 0.5 + 0.5), vec2<f32>(0.0, N));"),
    ("scalar_f32_typed", "const M0: f32 = N;"),
    ("scalar_f32_expr", "const M0: f32 = N * 1.5;"),
    ("scalar_f16_like", "const M0 = f32(N) + 0.25;"),
    ("vec2i_with_expr", "const M0 = vec2<i32>(N, 1 + 2);"),
    ("vec2u_with_expr", "const M0 = vec2<u32>(N, 1 + 2);"),
    ("private_var_f32", "var<private> m0: vec2<f32> = vec2<f32>(N, 1.0 + 0.5);"),
    ("override_f32", "override M0: f32 = N;"),
    ("helper_fn_float_use", "fn mh() -> vec2<f32> { return vec2<f32>(N, 1.0 + 0.5); }"),
    ("helper_fn_let_f32", "fn mh() -> f32 { let t: f32 = N; return t + 0.5; }"),
    ("second_abstract_const", "const N2 = N * 2;\nconst M0 = vec2<f32>(N2, N + 0.5);"),
    ("abstract_float_const", "const NF = N + 0.5;\nconst M0 = vec2<f32>(NF, NF * 2.0);"),
    ("select_mix", "const M0 = select(vec2<f32>(N, 1.0 + 1.0), vec2<f32>(0.0, N), true);"),
    ("max_float", "const M0 = max(vec2<f32>(N, 0.25 * 2.0), vec2<f32>(1.0, 1.0));"),
]

TAIL = """@group(0) @binding(0) var<storage, read_write> o: array<f32, 12>;
var<private> arr: array<i32, N>;
@compute @workgroup_size(1) fn main() {
  o[0] = f32(N / 4);
  o[1] = f32(7 / N);
  o[2] = f32(N % 3);
  o[3] = f32(9 % N);
  o[4] = f32(1 << N);
  o[5] = f32(N);
  o[6] = f32(-N / 2);
  arr[N - 1] = 5;
  o[7] = f32(arr[N - 1]) + f32(arr[0]);
  var loc: array<u32, N + 1>;
  loc[N] = 9u;
  o[8] = f32(loc[N]);
  let v = vec2<i32>(N, N / 2);
  o[9] = f32(v.x + v.y);
  o[10] = f32(N) / 4.0;
}
"""


def programs():
    out = []
    for k in KS:
        head = "const N = %d;\n" % k
        for name, mid in MIDDLES:
            out.append(("hist_k%d_%s" % (k, name), k, name, "before", head + mid + "\n" + TAIL))
            if mid:
                out.append(("hist_k%d_%s_after" % (k, name), k, name, "after", head + TAIL + mid + "\n"))
    return out


def run(ctx, tools, irrun_exe, run_model):
    """run_model(exe, [json]) -> [json].  Reports through ctx.violation; returns stats."""
    P = programs()
    res = nagarun.parallel_batches(tools["nagadrive"], "compile", [{"id": i, "src": p[4], "want": ["ir"]} for i, p in enumerate(P)],
                                   per_job_timeout=30.0, chunk=16)
    jobs, idx = [], []
    zero = {"arr": [{"f": 0}] * 12}
    acc = {}
    for i, p in enumerate(P):
        r = res.get(i) or {}
        acc[i] = "ir" in r and not r.get("err")
        if acc[i]:
            gl = [None] * len(r["ir"]["GlobalVariables"])
            for h, g in enumerate(r["ir"]["GlobalVariables"]):
                if g["Name"] == "o":
                    gl[h] = zero
            jobs.append({"ir": r["ir"], "ep": 0, "globals": gl, "args": [], "fuel": 20000})
            idx.append(i)
    outs = dict(zip(idx, run_model(irrun_exe, jobs)))
    st = {"programs": len(P), "accepted": sum(1 for v in acc.values() if v), "compared": 0, "agree": 0, "reference_not_run": 0}
    base = {p[1]: i for i, p in enumerate(P) if p[2] == "none"}
    seen = set()
    for i, p in enumerate(P):
        name, k, mname, where, src = p
        if mname == "none":
            continue
        b = base[k]
        if not acc[b]:
            st["reference_not_run"] += 1
            continue

        def obs(j):
            if not acc[j]:
                return ("rejected", str((res.get(j) or {}).get("err"))[:160])
            o = outs.get(j) or {}
            if not o.get("ok"):
                return ("fail", o.get("kind"), str(o.get("msg"))[:120])
            r = res[j]["ir"]
            for h, g in enumerate(r["GlobalVariables"]):
                if g["Name"] == "o":
                    return ("ok", json.dumps(o["globals"][h]))
            return ("ok", None)
        a, c = obs(b), obs(i)
        if a[0] != "ok":
            st["reference_not_run"] += 1
            continue
        if c[0] == "rejected" and "'M0'" in c[1] or c[0] == "rejected" and ("'NF'" in c[1] or "'N2'" in c[1] or "'m0'" in c[1]):
            # the front end does not accept the MIDDLE declaration itself (acceptance of valid programs is C08's property)
            st["middle_rejected"] = st.get("middle_rejected", 0) + 1
            continue
        st["compared"] += 1
        if a == c:
            st["agree"] += 1
            continue
        key = "const-history:%s:%s:%s" % (mname, where, c[0])
        if key in seen:
            continue
        seen.add(key)
        ctx.violation("constant evaluation depends on an unrelated use of the constant: with `%s` declared %s the entry point, the "
                      "integer-sensitive uses of `const N = %d` (N / 4, 7 / N, N %% 3, 1 << N, array<i32, N> ...) evaluate differently "
                      "than without it: %s versus %s" % (MIDDLES[[m[0] for m in MIDDLES].index(mname)][1], where, k, c, a),
                      files={"with.wgsl": src, "without.wgsl": P[b][4]}, key=key)
    return st
