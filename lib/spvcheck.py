"""C01 / C15 tie machinery: differential validation of naga's SPIR-V output against the IR
reference interpreter, and the probe of the per-operator instruction templates.

  run_pair(tools, exe_ir, exe_spv, src, inputs)   compile src (ir + spv), run `irrun` and `spvrun`
                                                  on the same inputs, compare final buffers bit-exactly
  probe_table(tools)                              one tiny WGSL program per (operator, kind, shape);
                                                  returns the abstracted templates (gen.py `spvoptable`)

Values travel in the JSON codec of coq/IR/Values.v: {"i":bits} {"u":bits} {"f":bits} {"b":bool}
{"vec":[..]} {"mat":[cols..]} {"arr":[..]} {"st":[..]}.
"""
import json
import os
import re
import struct

import nagarun
import vcheck

FUEL = 400000

# --------------------------------------------------------------------------
# IR dump helpers

_ENUMS = None


def ir_enums():
    """(type name -> {number: constant name}) from coq/Gen/IrEnums.v (regenerated from the Go sources)."""
    global _ENUMS
    if _ENUMS is None:
        p = os.path.join(vcheck.COQ, "Gen", "IrEnums.v")
        txt = open(p).read()
        out = {}
        for m in re.finditer(r'\("([A-Za-z0-9_]+)", \[([^\]]*)\]\)', txt):
            out[m.group(1)] = {int(a): b for a, b in re.findall(r'\((-?\d+), "([^"]+)"\)', m.group(2))}
        _ENUMS = out
    return _ENUMS


def enum_name(ty, n):
    return ir_enums().get(ty, {}).get(n, "%s#%s" % (ty, n))


BUILTIN_NAMES = {
    "BuiltinGlobalInvocationID": "GlobalInvocationId", "BuiltinLocalInvocationID": "LocalInvocationId",
    "BuiltinLocalInvocationIndex": "LocalInvocationIndex", "BuiltinWorkGroupID": "WorkgroupId",
    "BuiltinNumWorkGroups": "NumWorkgroups",
}

DEFAULT_BUILTINS = {
    "GlobalInvocationId": {"vec": [{"u": 0}, {"u": 0}, {"u": 0}]},
    "LocalInvocationId": {"vec": [{"u": 0}, {"u": 0}, {"u": 0}]},
    "WorkgroupId": {"vec": [{"u": 0}, {"u": 0}, {"u": 0}]},
    "NumWorkgroups": {"vec": [{"u": 1}, {"u": 1}, {"u": 1}]},
    "LocalInvocationIndex": {"u": 0},
}


def scalar_tag(sc):
    k = enum_name("ScalarKind", sc["Kind"])
    if sc["Width"] != 4 and k != "ScalarBool":
        return None
    return {"ScalarSint": "i", "ScalarUint": "u", "ScalarFloat": "f", "ScalarBool": "b"}.get(k)


def make_value(ir, th, leaf, rt_len=4):
    """A value of IR type handle th; leaf(tag) -> scalar payload (bits or bool). None = type outside the fragment."""
    inner = ir["Types"][th]["Inner"]
    t = inner["_t"]
    if t in ("ScalarType", "AtomicType"):
        sc = inner if t == "ScalarType" else inner["Scalar"]
        tag = scalar_tag(sc)
        if tag is None:
            return None
        return {tag: leaf(tag)}
    if t == "VectorType":
        tag = scalar_tag(inner["Scalar"])
        if tag is None:
            return None
        return {"vec": [{tag: leaf(tag)} for _ in range(inner["Size"])]}
    if t == "MatrixType":
        tag = scalar_tag(inner["Scalar"])
        if tag is None:
            return None
        return {"mat": [{"vec": [{tag: leaf(tag)} for _ in range(inner["Rows"])]} for _ in range(inner["Columns"])]}
    if t == "ArrayType":
        n = inner["Size"].get("Constant")
        if n is None:
            n = rt_len
        if n > 4096:
            return None
        out = []
        for _ in range(n):
            v = make_value(ir, inner["Base"], leaf, rt_len)
            if v is None:
                return None
            out.append(v)
        return {"arr": out}
    if t == "StructType":
        out = []
        for mb in inner["Members"]:
            v = make_value(ir, mb["Type"], leaf, rt_len)
            if v is None:
                return None
            out.append(v)
        return {"st": out}
    return None


def bound_globals(ir):
    """[(handle, "group:binding", space name, type handle, access)] for buffer globals."""
    out = []
    for h, g in enumerate(ir["GlobalVariables"]):
        b = g.get("Binding")
        sp = enum_name("AddressSpace", g["Space"])
        if b is not None and sp in ("SpaceStorage", "SpaceUniform"):
            out.append((h, "%d:%d" % (b["Group"], b["Binding"]), sp, g["Type"], g.get("Access", 0)))
    return out


def compute_entry_points(ir):
    """[(index, name)] of compute entry points (Stage name from the regenerated enums)."""
    out = []
    for i, ep in enumerate(ir["EntryPoints"]):
        st = enum_name("ShaderStage", ep.get("Stage", -1))
        if "Compute" in st:
            out.append((i, ep["Name"]))
    return out


def ep_args(ir, epi, builtins):
    """Argument values of entry point epi from the builtin map; None if an argument is not a builtin."""
    fn = ir["EntryPoints"][epi]["Function"]
    args = []
    for a in fn["Arguments"]:
        b = a.get("Binding")
        if b is not None and b.get("_t") == "BuiltinBinding":
            nm = BUILTIN_NAMES.get(enum_name("BuiltinValue", b["Builtin"]))
            if nm is None:
                return None
            args.append(builtins[nm])
            continue
        inner = ir["Types"][a["Type"]]["Inner"]
        if inner["_t"] == "StructType":
            ms = []
            for mb in inner["Members"]:
                bb = mb.get("Binding")
                if bb is None or bb.get("_t") != "BuiltinBinding":
                    return None
                nm = BUILTIN_NAMES.get(enum_name("BuiltinValue", bb["Builtin"]))
                if nm is None:
                    return None
                ms.append(builtins[nm])
            args.append({"st": ms})
            continue
        return None
    return args


def spv_words(hexstr):
    b = bytes.fromhex(hexstr)
    return list(struct.unpack("<%dI" % (len(b) // 4), b))


# --------------------------------------------------------------------------
# compile + run

def compile_many(tools, srcs, opts=None):
    """srcs: list of (name, src) -> dict name -> nagadrive result (want ir, spv)."""
    jobs = []
    for i, (name, src) in enumerate(srcs):
        j = {"id": i, "src": src, "want": ["ir", "spv"]}
        if opts:
            j["opts"] = opts
        jobs.append(j)
    res = nagarun.parallel_batches(tools["nagadrive"], "compile", jobs, per_job_timeout=30.0, chunk=32)
    return {name: res.get(i) for i, (name, _s) in enumerate(srcs)}


def run_model_guarded(exe, jobs, timeout=120, mem=3 << 30):
    """vcheck.run_model with a memory cap and a timeout; a crashed / timed-out run yields
    {"ok": False, "kind": "crash"} for every job of the batch (the caller counts them, never silently)."""
    import resource
    import subprocess

    def lim():
        for l in (resource.RLIM_INFINITY, 1 << 30):
            try:
                resource.setrlimit(resource.RLIMIT_STACK, (l, l))
                break
            except Exception:
                continue
        try:
            resource.setrlimit(resource.RLIMIT_AS, (mem, mem))
        except Exception:
            pass
    inp = "".join(json.dumps(v, separators=(",", ":")) + "\n" for v in jobs)
    try:
        p = subprocess.run([exe], input=inp, stdout=subprocess.PIPE, stderr=subprocess.PIPE, text=True,
                           timeout=timeout, preexec_fn=lim)
        if p.returncode == 0:
            out = [json.loads(l) for l in p.stdout.splitlines() if l.strip()]
            if len(out) == len(jobs):
                return out
        why = "rc %d: %s" % (p.returncode, p.stderr[-300:])
    except subprocess.TimeoutExpired:
        why = "timeout after %ds" % timeout
    if len(jobs) > 1:
        out = []
        for j in jobs:
            out += run_model_guarded(exe, [j], timeout=timeout, mem=mem)
        return out
    return [{"ok": False, "kind": "crash", "msg": why}]


def first_diff(a, b, path=""):
    """Path and the two values at the first differing position of two codec values."""
    if isinstance(a, dict) and isinstance(b, dict) and list(a.keys()) == list(b.keys()) and len(a) == 1:
        k = next(iter(a))
        x, y = a[k], b[k]
        if isinstance(x, list) and isinstance(y, list) and len(x) == len(y):
            for i, (p, q) in enumerate(zip(x, y)):
                if p != q:
                    return first_diff(p, q, "%s.%s[%d]" % (path, k, i))
    return path, a, b


def classify(ir_res, spv_res, keys):
    """-> (class, detail).  classes: agree | differ | ir_out (IR side outside its fragment / failed) |
    spv_ub | spv_impl | spv_nan | spv_unmodelled | spv_fail | fuel"""
    if ir_res.get("kind") == "crash" or spv_res.get("kind") == "crash":
        return "crash", "ir: %s / spv: %s" % (ir_res.get("msg", "-"), spv_res.get("msg", "-"))
    if not ir_res.get("ok"):
        if ir_res.get("kind") == "outoffuel":
            return "fuel", "ir out of fuel"
        return "ir_out", ir_res.get("msg", "")
    if not spv_res.get("ok"):
        k = spv_res.get("kind")
        msg = spv_res.get("msg", "")
        if k == "outoffuel":
            return "fuel", "spv out of fuel"
        if k == "ub":
            if msg.startswith("NAN:"):
                return "spv_nan", msg
            if msg.startswith("IMPL:"):
                return "spv_impl", msg
            return "spv_ub", msg
        if "not modelled" in msg:
            return "spv_unmodelled", msg
        return "spv_fail", "%s: %s" % (k, msg)
    for h, key in keys:
        a = ir_res["globals"][h]
        b = spv_res["buffers"].get(key)
        if a != b:
            path, x, y = first_diff(a, b)
            return "differ", "buffer %s%s: WGSL/IR meaning %s, SPIR-V %s" % (key, path, json.dumps(x), json.dumps(y))
    return "agree", ""


def run_compiled(exe_ir, exe_spv, comp, inputs, ep=None, fuel=FUEL):
    """comp: nagadrive result with ir+spv.  inputs: list of {"buffers": {...}, "builtins": {...}}.
    Returns list of (class, detail, ir_res, spv_res) or None when the program cannot be run at all."""
    if comp is None or "ir" not in comp or "spv" not in comp:
        return None
    ir = comp["ir"]
    eps = compute_entry_points(ir)
    if not eps:
        return None
    epi, epname = eps[0]
    if ep is not None:
        m = [e for e in eps if e[1] == ep]
        if not m:
            return None
        epi, epname = m[0]
    words = spv_words(comp["spv"])
    bg = bound_globals(ir)
    ir_jobs = []
    spv_jobs = []
    for inp in inputs:
        bi = dict(DEFAULT_BUILTINS)
        bi.update(inp.get("builtins") or {})
        args = ep_args(ir, epi, bi)
        if args is None:
            return None
        gl = [None] * len(ir["GlobalVariables"])
        for h, key, _sp, _t, _a in bg:
            if key in inp["buffers"]:
                gl[h] = inp["buffers"][key]
        ir_jobs.append({"ir": ir, "ep": epi, "globals": gl, "args": args, "fuel": fuel})
        spv_jobs.append({"words": words, "ep": epname, "buffers": inp["buffers"], "builtins": bi, "fuel": fuel})
    ir_out = run_model_guarded(exe_ir, ir_jobs)
    spv_out = run_model_guarded(exe_spv, spv_jobs)
    keys = [(h, key) for h, key, _sp, _t, _a in bg if all(key in i["buffers"] for i in inputs)]
    out = []
    for a, b in zip(ir_out, spv_out):
        c, d = classify(a, b, keys)
        out.append((c, d, a, b))
    return out


def run_pair(tools, exe_ir, exe_spv, src, inputs, ep=None, opts=None):
    comp = compile_many(tools, [("p", src)], opts)["p"]
    if comp is None or "err" in comp or "crash" in comp or "panic" in comp or "spv" not in comp:
        return {"compiled": False, "comp": {k: v for k, v in (comp or {}).items() if k in ("err", "stage", "crash", "panic", "spv_err")}}
    return {"compiled": True, "results": run_compiled(exe_ir, exe_spv, comp, inputs, ep=ep), "comp": comp}


# --------------------------------------------------------------------------
# boundary pools

I_POOL = [0, 1, 2, 3, 5, 7, 31, 32, 33, 0xFFFFFFFF, 0xFFFFFFFE, 0x80000000, 0x7FFFFFFF, 0x80000001, 0xFFFF, 0x10000,
          100, 0xFFFFFF9C, 0x55555555, 0xAAAAAAAA]


def f32_bits(x):
    return struct.unpack("<I", struct.pack("<f", x))[0]


F_POOL = [0x00000000, 0x80000000, f32_bits(1.0), f32_bits(-1.0), f32_bits(0.5), f32_bits(-0.5), f32_bits(2.5), f32_bits(-2.5),
          f32_bits(1.5), f32_bits(3.0), f32_bits(-7.25), f32_bits(100.75), 0x00000001, 0x80000001, 0x007FFFFF, 0x00800000,
          0x7F7FFFFF, 0xFF7FFFFF, 0x7F800000, 0xFF800000, 0x7FC00000, f32_bits(2147483648.0), f32_bits(-2147483648.0),
          f32_bits(4294967296.0), f32_bits(2147483520.0), f32_bits(16777216.0), f32_bits(16777217.0), f32_bits(0.1), f32_bits(1e-40)]


def leaf_from(rng, special=None):
    def leaf(tag):
        if tag == "b":
            return rng.chance(1, 2)
        if tag == "f":
            return rng.choice(F_POOL)
        if special is not None and rng.chance(1, 3):
            return rng.choice(special)
        return rng.choice(I_POOL) if rng.chance(3, 4) else rng.below(1 << 32)
    return leaf


def gen_inputs(ir, rng, n, rt_len=4, small_ints=None):
    """n input sets for the buffers of an IR module; None when a buffer type is outside the fragment."""
    out = []
    bg = bound_globals(ir)
    for k in range(n):
        r = rng.fork("in%d" % k)
        bufs = {}
        for h, key, _sp, th, _a in bg:
            v = make_value(ir, th, leaf_from(r, small_ints), rt_len)
            if v is None:
                return None
            bufs[key] = v
        out.append({"buffers": bufs})
    return out


if __name__ == "__main__":
    import sys
    tools = {"nagadrive": os.path.join(vcheck.BUILD, "bin", "nagadrive")}
    exe_ir = os.path.join(vcheck.BUILD, "bin", "irrun_model")
    exe_spv = os.path.join(vcheck.BUILD, "bin", "spvrun_model")
    src = open(sys.argv[1]).read()
    comp = compile_many(tools, [("p", src)])["p"]
    if "ir" not in comp:
        print(comp)
        sys.exit(1)
    rng = vcheck.Rng(int(sys.argv[2]) if len(sys.argv) > 2 else 1)
    inputs = gen_inputs(comp["ir"], rng, int(sys.argv[3]) if len(sys.argv) > 3 else 4, small_ints=[0, 1, 2, 3])
    res = run_compiled(exe_ir, exe_spv, comp, inputs)
    for (c, d, a, b), i in zip(res, inputs):
        print(c, d)
        if c not in ("agree",):
            print("  in:", json.dumps(i["buffers"])[:600])
            print("  ir:", json.dumps(a)[:600])
            print("  spv:", json.dumps(b)[:600])
