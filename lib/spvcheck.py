"""C01 / C15 tie machinery: differential validation of naga's SPIR-V output against the IR
reference interpreter, and the probe of the per-operator instruction templates.

  run_pair(tools, exe_ir, exe_spv, src, inputs)   compile src (ir + spv), run `irrun` and `spvrun`
                                                  on the same inputs, compare final buffers bit-exactly
  probe_table(tools)                              one tiny WGSL program per (operator, kind, shape);
                                                  returns the abstracted templates (gen.py `spvoptable`)

Values travel in the JSON codec of coq/IR/Values.v: {"i":bits} {"u":bits} {"f":bits} {"b":bool}
{"vec":[..]} {"mat":[cols..]} {"arr":[..]} {"st":[..]}.
"""
import json
import os
import re
import struct

import nagarun
import vcheck

FUEL = 60000          # retried once with BIG_FUEL when either side runs out
BIG_FUEL = 1500000

# --------------------------------------------------------------------------
# IR dump helpers

_ENUMS = None


def ir_enums():
    """(type name -> {number: constant name}) from coq/Gen/IrEnums.v (regenerated from the Go sources)."""
    global _ENUMS
    if _ENUMS is None:
        p = os.path.join(vcheck.COQ, "Gen", "IrEnums.v")
        txt = open(p).read()
        out = {}
        for m in re.finditer(r'\("([A-Za-z0-9_]+)", \[([^\]]*)\]\)', txt):
            out[m.group(1)] = {int(a): b for a, b in re.findall(r'\((-?\d+), "([^"]+)"\)', m.group(2))}
        _ENUMS = out
    return _ENUMS


def enum_name(ty, n):
    return ir_enums().get(ty, {}).get(n, "%s#%s" % (ty, n))


BUILTIN_NAMES = {
    "BuiltinGlobalInvocationID": "GlobalInvocationId", "BuiltinLocalInvocationID": "LocalInvocationId",
    "BuiltinLocalInvocationIndex": "LocalInvocationIndex", "BuiltinWorkGroupID": "WorkgroupId",
    "BuiltinNumWorkGroups": "NumWorkgroups",
}

DEFAULT_BUILTINS = {
    "GlobalInvocationId": {"vec": [{"u": 0}, {"u": 0}, {"u": 0}]},
    "LocalInvocationId": {"vec": [{"u": 0}, {"u": 0}, {"u": 0}]},
    "WorkgroupId": {"vec": [{"u": 0}, {"u": 0}, {"u": 0}]},
    "NumWorkgroups": {"vec": [{"u": 1}, {"u": 1}, {"u": 1}]},
    "LocalInvocationIndex": {"u": 0},
}


def scalar_tag(sc):
    k = enum_name("ScalarKind", sc["Kind"])
    if sc["Width"] != 4 and k != "ScalarBool":
        return None
    return {"ScalarSint": "i", "ScalarUint": "u", "ScalarFloat": "f", "ScalarBool": "b"}.get(k)


def make_value(ir, th, leaf, rt_len=4):
    """A value of IR type handle th; leaf(tag) -> scalar payload (bits or bool). None = type outside the fragment."""
    inner = ir["Types"][th]["Inner"]
    t = inner["_t"]
    if t in ("ScalarType", "AtomicType"):
        sc = inner if t == "ScalarType" else inner["Scalar"]
        tag = scalar_tag(sc)
        if tag is None:
            return None
        return {tag: leaf(tag)}
    if t == "VectorType":
        tag = scalar_tag(inner["Scalar"])
        if tag is None:
            return None
        return {"vec": [{tag: leaf(tag)} for _ in range(inner["Size"])]}
    if t == "MatrixType":
        tag = scalar_tag(inner["Scalar"])
        if tag is None:
            return None
        return {"mat": [{"vec": [{tag: leaf(tag)} for _ in range(inner["Rows"])]} for _ in range(inner["Columns"])]}
    if t == "ArrayType":
        n = inner["Size"].get("Constant")
        if n is None:
            n = rt_len
        if n > 4096:
            return None
        out = []
        for _ in range(n):
            v = make_value(ir, inner["Base"], leaf, rt_len)
            if v is None:
                return None
            out.append(v)
        return {"arr": out}
    if t == "StructType":
        out = []
        for mb in inner["Members"]:
            v = make_value(ir, mb["Type"], leaf, rt_len)
            if v is None:
                return None
            out.append(v)
        return {"st": out}
    return None


def bound_globals(ir):
    """[(handle, "group:binding", space name, type handle, access)] for buffer globals."""
    out = []
    for h, g in enumerate(ir["GlobalVariables"]):
        b = g.get("Binding")
        sp = enum_name("AddressSpace", g["Space"])
        if b is not None and sp in ("SpaceStorage", "SpaceUniform"):
            out.append((h, "%d:%d" % (b["Group"], b["Binding"]), sp, g["Type"], g.get("Access", 0)))
    return out


def compute_entry_points(ir):
    """[(index, name)] of compute entry points (Stage name from the regenerated enums)."""
    out = []
    for i, ep in enumerate(ir["EntryPoints"]):
        st = enum_name("ShaderStage", ep.get("Stage", -1))
        if "Compute" in st:
            out.append((i, ep["Name"]))
    return out


def ep_args(ir, epi, builtins):
    """Argument values of entry point epi from the builtin map; None if an argument is not a builtin."""
    fn = ir["EntryPoints"][epi]["Function"]
    args = []
    for a in fn["Arguments"]:
        b = a.get("Binding")
        if b is not None and b.get("_t") == "BuiltinBinding":
            nm = BUILTIN_NAMES.get(enum_name("BuiltinValue", b["Builtin"]))
            if nm is None:
                return None
            args.append(builtins[nm])
            continue
        inner = ir["Types"][a["Type"]]["Inner"]
        if inner["_t"] == "StructType":
            ms = []
            for mb in inner["Members"]:
                bb = mb.get("Binding")
                if bb is None or bb.get("_t") != "BuiltinBinding":
                    return None
                nm = BUILTIN_NAMES.get(enum_name("BuiltinValue", bb["Builtin"]))
                if nm is None:
                    return None
                ms.append(builtins[nm])
            args.append({"st": ms})
            continue
        return None
    return args


def spv_words(hexstr):
    b = bytes.fromhex(hexstr)
    return list(struct.unpack("<%dI" % (len(b) // 4), b))


# --------------------------------------------------------------------------
# compile + run

def compile_many(tools, srcs, opts=None):
    """srcs: list of (name, src) -> dict name -> nagadrive result (want ir, spv)."""
    jobs = []
    for i, (name, src) in enumerate(srcs):
        j = {"id": i, "src": src, "want": ["ir", "spv"]}
        if opts:
            j["opts"] = opts
        jobs.append(j)
    res = nagarun.parallel_batches(tools["nagadrive"], "compile", jobs, per_job_timeout=30.0, chunk=32)
    return {name: res.get(i) for i, (name, _s) in enumerate(srcs)}


def run_model_guarded(exe, jobs, timeout=120, mem=3 << 30):
    """vcheck.run_model with a memory cap and a timeout; a crashed / timed-out run yields
    {"ok": False, "kind": "crash"} for every job of the batch (the caller counts them, never silently)."""
    import resource
    import subprocess

    def lim():
        for l in (resource.RLIM_INFINITY, 1 << 30):
            try:
                resource.setrlimit(resource.RLIMIT_STACK, (l, l))
                break
            except Exception:
                continue
        try:
            resource.setrlimit(resource.RLIMIT_AS, (mem, mem))
        except Exception:
            pass
    inp = "".join(json.dumps(v, separators=(",", ":")) + "\n" for v in jobs)
    try:
        p = subprocess.run([exe], input=inp, stdout=subprocess.PIPE, stderr=subprocess.PIPE, text=True,
                           timeout=timeout, preexec_fn=lim)
        if p.returncode == 0:
            out = [json.loads(l) for l in p.stdout.splitlines() if l.strip()]
            if len(out) == len(jobs):
                return out
        why = "rc %d: %s" % (p.returncode, p.stderr[-300:])
    except subprocess.TimeoutExpired:
        why = "timeout after %ds" % timeout
    if len(jobs) > 1:
        out = []
        for j in jobs:
            out += run_model_guarded(exe, [j], timeout=timeout, mem=mem)
        return out
    return [{"ok": False, "kind": "crash", "msg": why}]


def first_diff(a, b, path=""):
    """Path and the two values at the first differing position of two codec values."""
    if isinstance(a, dict) and isinstance(b, dict) and list(a.keys()) == list(b.keys()) and len(a) == 1:
        k = next(iter(a))
        x, y = a[k], b[k]
        if isinstance(x, list) and isinstance(y, list) and len(x) == len(y):
            for i, (p, q) in enumerate(zip(x, y)):
                if p != q:
                    return first_diff(p, q, "%s.%s[%d]" % (path, k, i))
    return path, a, b


def classify(ir_res, spv_res, keys):
    """-> (class, detail).  classes: agree | differ | ir_out (IR side outside its fragment / failed) |
    spv_ub | spv_impl | spv_nan | spv_unmodelled | spv_fail | fuel"""
    if ir_res.get("kind") == "crash" or spv_res.get("kind") == "crash":
        return "crash", "ir: %s / spv: %s" % (ir_res.get("msg", "-"), spv_res.get("msg", "-"))
    if not ir_res.get("ok"):
        if ir_res.get("kind") == "outoffuel":
            return "fuel", "ir out of fuel"
        return "ir_out", ir_res.get("msg", "")
    if not spv_res.get("ok"):
        k = spv_res.get("kind")
        msg = spv_res.get("msg", "")
        if k == "outoffuel":
            return "fuel", "spv out of fuel"
        if k == "ub":
            if msg.startswith("NAN:"):
                return "spv_nan", msg
            if msg.startswith("IMPL:"):
                return "spv_impl", msg
            return "spv_ub", msg
        if "not modelled" in msg:
            return "spv_unmodelled", msg
        return "spv_fail", "%s: %s" % (k, msg)
    for h, key in keys:
        a = ir_res["globals"][h]
        b = spv_res["buffers"].get(key)
        if a != b:
            path, x, y = first_diff(a, b)
            return "differ", "buffer %s%s: WGSL/IR meaning %s, SPIR-V %s" % (key, path, json.dumps(x), json.dumps(y))
    return "agree", ""


def build_jobs(comp, inputs, ep=None, fuel=FUEL):
    """-> (ir_jobs, spv_jobs, keys) or None when the program cannot be run (no compute entry point,
    entry-point arguments that are not builtins)."""
    if comp is None or "ir" not in comp or "spv" not in comp:
        return None
    ir = comp["ir"]
    eps = compute_entry_points(ir)
    if not eps:
        return None
    epi, epname = eps[0]
    if ep is not None:
        m = [e for e in eps if e[1] == ep]
        if not m:
            return None
        epi, epname = m[0]
    words = spv_words(comp["spv"])
    bg = bound_globals(ir)
    ir_jobs = []
    spv_jobs = []
    for inp in inputs:
        bi = dict(DEFAULT_BUILTINS)
        bi.update(inp.get("builtins") or {})
        args = ep_args(ir, epi, bi)
        if args is None:
            return None
        gl = [None] * len(ir["GlobalVariables"])
        for h, key, _sp, _t, _a in bg:
            if key in inp["buffers"]:
                gl[h] = inp["buffers"][key]
        ir_jobs.append({"ir": ir, "ep": epi, "globals": gl, "args": args, "fuel": fuel})
        spv_jobs.append({"words": words, "ep": epname, "buffers": inp["buffers"], "builtins": bi, "fuel": fuel})
    keys = [(h, key) for h, key, _sp, _t, _a in bg if all(key in i["buffers"] for i in inputs)]
    return ir_jobs, spv_jobs, keys


def run_chunks(exe, jobs, chunk=48, timeout=240):
    out = []
    for i in range(0, len(jobs), chunk):
        out += run_model_guarded(exe, jobs[i:i + chunk], timeout=timeout)
    return out


def run_items(exe_ir, exe_spv, items, fuel=FUEL):
    """items: list of (comp, inputs, ep).  Both interpreters run over ALL jobs in a few processes (the two
    tools in parallel).  Returns, per item, None (cannot be run) or a list of (class, detail, ir_res, spv_res)."""
    from concurrent.futures import ThreadPoolExecutor
    built = [build_jobs(c, inputs, ep, fuel) for c, inputs, ep in items]
    ir_all = []
    spv_all = []
    for b in built:
        if b is not None:
            ir_all += b[0]
            spv_all += b[1]
    with ThreadPoolExecutor(2) as ex:
        fa = ex.submit(run_chunks, exe_ir, ir_all)
        fb = ex.submit(run_chunks, exe_spv, spv_all)
        ir_out, spv_out = fa.result(), fb.result()
    # one retry with more fuel for the jobs that ran out on either side
    # the IR run finished within the small budget but the SPIR-V run needs more than 25x as much: reported as divergence
    quick_ir = set(i for i, a in enumerate(ir_out) if a.get("ok"))
    redo = [i for i, (a, b) in enumerate(zip(ir_out, spv_out)) if a.get("kind") == "outoffuel" or b.get("kind") == "outoffuel"]
    if redo and fuel < BIG_FUEL:
        ij = [dict(ir_all[i], fuel=BIG_FUEL) for i in redo]
        sj = [dict(spv_all[i], fuel=BIG_FUEL) for i in redo]
        with ThreadPoolExecutor(2) as ex:
            fa = ex.submit(run_chunks, exe_ir, ij, 8)
            fb = ex.submit(run_chunks, exe_spv, sj, 8)
            ra, rb = fa.result(), fb.result()
        for i, a, b in zip(redo, ra, rb):
            if i in quick_ir and a.get("ok") and b.get("kind") == "outoffuel":
                b = {"ok": False, "kind": "fail", "msg": "diverges: not finished after %d instruction steps (the IR run finished within %d statement steps)" % (BIG_FUEL, fuel)}
            ir_out[i], spv_out[i] = a, b
    res = []
    pos = 0
    for b in built:
        if b is None:
            res.append(None)
            continue
        n = len(b[0])
        res.append([classify(a, bb, b[2]) + (a, bb) for a, bb in zip(ir_out[pos:pos + n], spv_out[pos:pos + n])])
        pos += n
    return res


def run_compiled(exe_ir, exe_spv, comp, inputs, ep=None, fuel=FUEL):
    """comp: nagadrive result with ir+spv.  inputs: list of {"buffers": {...}, "builtins": {...}}.
    Returns list of (class, detail, ir_res, spv_res) or None when the program cannot be run at all."""
    return run_items(exe_ir, exe_spv, [(comp, inputs, ep)], fuel)[0]


def run_pair(tools, exe_ir, exe_spv, src, inputs, ep=None, opts=None):
    comp = compile_many(tools, [("p", src)], opts)["p"]
    if comp is None or "err" in comp or "crash" in comp or "panic" in comp or "spv" not in comp:
        return {"compiled": False, "comp": {k: v for k, v in (comp or {}).items() if k in ("err", "stage", "crash", "panic", "spv_err")}}
    return {"compiled": True, "results": run_compiled(exe_ir, exe_spv, comp, inputs, ep=ep), "comp": comp}


# --------------------------------------------------------------------------
# boundary pools

I_POOL = [0, 1, 2, 3, 5, 7, 31, 32, 33, 0xFFFFFFFF, 0xFFFFFFFE, 0x80000000, 0x7FFFFFFF, 0x80000001, 0xFFFF, 0x10000,
          100, 0xFFFFFF9C, 0x55555555, 0xAAAAAAAA]


def f32_bits(x):
    return struct.unpack("<I", struct.pack("<f", x))[0]


F_POOL = [0x00000000, 0x80000000, f32_bits(1.0), f32_bits(-1.0), f32_bits(0.5), f32_bits(-0.5), f32_bits(2.5), f32_bits(-2.5),
          f32_bits(1.5), f32_bits(3.0), f32_bits(-7.25), f32_bits(100.75), 0x00000001, 0x80000001, 0x007FFFFF, 0x00800000,
          0x7F7FFFFF, 0xFF7FFFFF, 0x7F800000, 0xFF800000, 0x7FC00000, f32_bits(2147483648.0), f32_bits(-2147483648.0),
          f32_bits(4294967296.0), f32_bits(2147483520.0), f32_bits(16777216.0), f32_bits(16777217.0), f32_bits(0.1), f32_bits(1e-40)]


def leaf_from(rng, special=None):
    def leaf(tag):
        if tag == "b":
            return rng.chance(1, 2)
        if tag == "f":
            return rng.choice(F_POOL)
        if special is not None and rng.chance(1, 3):
            return rng.choice(special)
        return rng.choice(I_POOL) if rng.chance(3, 4) else rng.below(1 << 32)
    return leaf


def gen_inputs(ir, rng, n, rt_len=4, small_ints=None):
    """n input sets for the buffers of an IR module; None when a buffer type is outside the fragment."""
    out = []
    bg = bound_globals(ir)
    for k in range(n):
        r = rng.fork("in%d" % k)
        bufs = {}
        for h, key, _sp, th, _a in bg:
            v = make_value(ir, th, leaf_from(r, small_ints), rt_len)
            if v is None:
                return None
            bufs[key] = v
        out.append({"buffers": bufs})
    return out


if __name__ == "__main__":
    import sys
    tools = {"nagadrive": os.path.join(vcheck.BUILD, "bin", "nagadrive")}
    exe_ir = os.path.join(vcheck.BUILD, "bin", "irrun_model")
    exe_spv = os.path.join(vcheck.BUILD, "bin", "spvrun_model")
    src = open(sys.argv[1]).read()
    comp = compile_many(tools, [("p", src)])["p"]
    if "ir" not in comp:
        print(comp)
        sys.exit(1)
    rng = vcheck.Rng(int(sys.argv[2]) if len(sys.argv) > 2 else 1)
    inputs = gen_inputs(comp["ir"], rng, int(sys.argv[3]) if len(sys.argv) > 3 else 4, small_ints=[0, 1, 2, 3])
    res = run_compiled(exe_ir, exe_spv, comp, inputs)
    for (c, d, a, b), i in zip(res, inputs):
        print(c, d)
        if c not in ("agree",):
            print("  in:", json.dumps(i["buffers"])[:600])
            print("  ir:", json.dumps(a)[:600])
            print("  spv:", json.dumps(b)[:600])


# --------------------------------------------------------------------------
# probe: the instruction template naga emits per (operator, scalar kind, shape)

import spvdis

TY = {"i32": "i", "u32": "u", "f32": "f", "bool": "b"}

BIN_ARITH = [("add", "+"), ("sub", "-"), ("mul", "*"), ("div", "/"), ("mod", "%")]
BIN_CMP = [("eq", "=="), ("ne", "!="), ("lt", "<"), ("le", "<="), ("gt", ">"), ("ge", ">=")]
BIN_BIT = [("and", "&"), ("or", "|"), ("xor", "^")]


def probe_specs():
    """[(key, operand types, result type, expression format over {0},{1},..., vectorisable)]"""
    S = []
    for t in ("i32", "u32", "f32"):
        for n, op in BIN_ARITH:
            S.append(("%s:%s" % (n, t), [t, t], t, "({0} %s {1})" % op, True))
        for n, op in BIN_CMP:
            S.append(("%s:%s" % (n, t), [t, t], "bool", "({0} %s {1})" % op, True))
    for t in ("i32", "u32"):
        for n, op in BIN_BIT:
            S.append(("%s:%s" % (n, t), [t, t], t, "({0} %s {1})" % op, True))
        S.append(("shl:%s" % t, [t, "u32"], t, "({0} << {1})", True))
        S.append(("shr:%s" % t, [t, "u32"], t, "({0} >> {1})", True))
        S.append(("not:%s" % t, [t], t, "(~{0})", True))
    S.append(("eq:bool", ["bool", "bool"], "bool", "({0} == {1})", True))
    S.append(("ne:bool", ["bool", "bool"], "bool", "({0} != {1})", True))
    S.append(("and:bool", ["bool", "bool"], "bool", "({0} & {1})", True))
    S.append(("or:bool", ["bool", "bool"], "bool", "({0} | {1})", True))
    S.append(("lnot:bool", ["bool"], "bool", "(!{0})", True))
    S.append(("neg:i32", ["i32"], "i32", "(-{0})", True))
    S.append(("neg:f32", ["f32"], "f32", "(-{0})", True))
    # conversions and bitcasts
    for src in ("i32", "u32", "f32", "bool"):
        for dst in ("i32", "u32", "f32", "bool"):
            if src != dst:
                S.append(("as_%s:%s" % (dst, src), [src], dst, "%s({0})" % dst, True))
    for src in ("i32", "u32", "f32"):
        for dst in ("i32", "u32", "f32"):
            if src != dst:
                S.append(("bitcast_%s:%s" % (dst, src), [src], dst, "bitcast<%s>({0})" % dst, True))
    for t in ("i32", "u32", "f32", "bool"):
        S.append(("select:%s" % t, [t, t, "bool"], t, "select({0}, {1}, {2})", True))
    # math builtins
    for t in ("i32", "u32", "f32"):
        S.append(("abs:%s" % t, [t], t, "abs({0})", True))
        S.append(("min:%s" % t, [t, t], t, "min({0}, {1})", True))
        S.append(("max:%s" % t, [t, t], t, "max({0}, {1})", True))
        S.append(("clamp:%s" % t, [t, t, t], t, "clamp({0}, {1}, {2})", True))
    S.append(("sign:i32", ["i32"], "i32", "sign({0})", True))
    S.append(("sign:f32", ["f32"], "f32", "sign({0})", True))
    for f in ("floor", "ceil", "trunc", "round", "sqrt", "saturate", "fract", "exp", "exp2", "log", "log2", "sin", "cos", "tan",
              "asin", "acos", "atan", "sinh", "cosh", "tanh", "asinh", "acosh", "atanh", "inverseSqrt", "radians", "degrees"):
        S.append(("%s:f32" % f, ["f32"], "f32", "%s({0})" % f, True))
    for f in ("pow", "atan2", "step"):
        S.append(("%s:f32" % f, ["f32", "f32"], "f32", "%s({0}, {1})" % f, True))
    for f in ("fma", "mix", "smoothstep"):
        S.append(("%s:f32" % f, ["f32", "f32", "f32"], "f32", "%s({0}, {1}, {2})" % f, True))
    for t in ("i32", "u32"):
        for f in ("countOneBits", "countLeadingZeros", "countTrailingZeros", "reverseBits", "firstLeadingBit", "firstTrailingBit"):
            S.append(("%s:%s" % (f, t), [t], t, "%s({0})" % f, True))
        S.append(("extractBits:%s" % t, [t, "u32", "u32"], t, "extractBits({0}, {1}, {2})", False))
        S.append(("insertBits:%s" % t, [t, t, "u32", "u32"], t, "insertBits({0}, {1}, {2}, {3})", False))
    # vector -> scalar reductions (vector shapes only; the result is a scalar)
    S.append(("all:bool", ["bool"], "bool", "all({0})", "reduce"))
    S.append(("any:bool", ["bool"], "bool", "any({0})", "reduce"))
    for t in ("i32", "u32", "f32"):
        S.append(("dot:%s" % t, [t, t], t, "dot({0}, {1})", "reduce"))
    return S


def shaped(t, n):
    return t if n == 1 else "vec%d<%s>" % (n, t)


def probe_source(spec, n):
    key, ots, rt, fmt, vec = spec
    lines = []
    st = lambda t: "u32" if t == "bool" else t            # bool travels as u32 != 0
    rn = 1 if vec == "reduce" else n
    lines.append("@group(0) @binding(0) var<storage,read_write> o: array<%s>;" % shaped(st(rt), rn))
    args = []
    for k, t in enumerate(ots):
        sn = n
        if key.startswith(("extractBits", "insertBits")) and t == "u32" and k >= (1 if key.startswith("extract") else 2):
            sn = 1
        lines.append("@group(0) @binding(%d) var<storage> a%d: array<%s>;" % (k + 1, k, shaped(st(t), sn)))
        if t == "bool":
            args.append("(a%d[0] != %s)" % (k, "0u" if sn == 1 else "vec%d<u32>(0u)" % sn))
        else:
            args.append("a%d[0]" % k)
    e = fmt.format(*args)
    if rt == "bool":
        e = "select(%s, %s, %s)" % ("0u" if rn == 1 else "vec%d<u32>(0u)" % rn, "1u" if rn == 1 else "vec%d<u32>(1u)" % rn, e)
    lines.append("@compute @workgroup_size(1) fn main() { o[0] = %s; }" % e)
    return "\n".join(lines) + "\n"


class SpvMod:
    """Decoded module with the indexes the template abstraction needs."""
    def __init__(self, words):
        _h, self.ins = spvdis.decode(words)
        self.defs = {}
        self.types = {}
        self.binding = {}
        self.funcs = {}           # id -> (param ids, [instrs])
        self.entry = None
        cur = None
        for op, ops in self.ins:
            rid = spvdis.result_id(op, ops)
            if rid is not None:
                self.defs[rid] = (op, ops)
            if op in (19, 20, 21, 22, 23, 24, 28, 29, 30, 32, 33):
                self.types[ops[0]] = (op, ops[1:])
            if op == 71 and len(ops) >= 3 and ops[1] == 33:
                self.binding[ops[0]] = ops[2]
            if op == 15:
                self.entry = ops[1]
            if op == 54:
                cur = (ops[1], [], [])
            elif op == 55 and cur:
                cur[1].append(ops[1])
            elif op == 56 and cur:
                self.funcs[cur[0]] = (cur[1], cur[2])
                cur = None
            elif cur is not None:
                cur[2].append((op, ops))

    def kind(self, tid):
        op, ops = self.types[tid]
        if op == 20:
            return "b"
        if op == 21:
            return "i" if ops[1] == 1 else "u"
        if op == 22:
            return "f"
        if op in (23, 24):
            return self.kind(ops[0])
        raise KeyError("type %d has no component kind" % tid)

    def root_var(self, pid):
        """(variable id, [index ids]) of a pointer built by access chains"""
        idx = []
        while True:
            op, ops = self.defs[pid]
            if op in (65, 66):
                idx = list(ops[3:]) + idx
                pid = ops[2]
            elif op == 59:
                return pid, idx
            else:
                raise KeyError("pointer %d" % pid)


def abstract(m, vid, params=None, depth=0):
    """SSA value -> template (JSON codec of Spv/Catalogue.v texp_of_json)."""
    if depth > 40:
        return {"opaque": "depth"}
    if params and vid in params:
        return {"arg": params.index(vid)}
    if vid not in m.defs:
        return {"opaque": "undefined id"}
    op, ops = m.defs[vid]
    try:
        if op == 61:                                               # OpLoad of a probe operand
            var, _idx = m.root_var(ops[2])
            b = m.binding.get(var)
            if b is None or b < 1:
                return {"opaque": "load of something that is not an operand buffer"}
            return {"arg": b - 1}
        if op == 43:
            return {"c": [m.kind(ops[0]), ops[2]]}
        if op == 41:
            return {"cb": True}
        if op == 42:
            return {"cb": False}
        if op == 46:
            k = m.kind(ops[0])
            return {"cb": False} if k == "b" else {"c": [k, 0]}
        if op in (44, 80):                                         # splat: all constituents the same value
            parts = [abstract(m, x, params, depth + 1) for x in ops[2:]]
            if parts and all(p == parts[0] for p in parts):
                return {"splat": [len(parts), parts[0]]}
            return {"opaque": "composite that is not a splat"}
        if op == 81 and len(ops) == 4:
            return {"extract": [ops[3], abstract(m, ops[2], params, depth + 1)]}
        if op == 57:                                               # helper call
            callee = m.funcs.get(ops[2])
            if callee is None:
                return {"opaque": "call of unknown function"}
            ps, body = callee
            labels = [i for i in body if i[0] == 248]
            rets = [i for i in body if i[0] == 254]
            if len(labels) != 1 or len(rets) != 1:
                return {"opaque": "helper with control flow"}
            hm = abstract(m, rets[0][1][0], ps, depth + 1)
            return {"helper": [hm, [abstract(m, x, params, depth + 1) for x in ops[3:]]]}
        if op == 12:
            return {"ext": [ops[3], m.kind(ops[0]), [abstract(m, x, params, depth + 1) for x in ops[4:]]]}
        if op in spvdis.HAS_TYPE_AND_RESULT and op not in (59, 65, 66, 245, 1, 54, 55):
            return {"op": [op, m.kind(ops[0]), [abstract(m, x, params, depth + 1) for x in ops[2:]]]}
    except KeyError as e:
        return {"opaque": "abstraction: %s" % e}
    return {"opaque": "opcode %d" % op}


def strip_bool_io(t, spec):
    """Remove the u32<->bool plumbing of the probe program around the operator under test."""
    key, ots, rt, _f, _v = spec

    def args_fix(x):
        if isinstance(x, dict):
            if "op" in x:
                opc, k, a = x["op"]
                if opc == 171 and len(a) == 2 and "arg" in a[0] and a[0]["arg"] < len(ots) and ots[a[0]["arg"]] == "bool" \
                        and erase_splat(a[1]) == {"c": ["u", 0]}:
                    return a[0]
                return {"op": [opc, k, [args_fix(y) for y in a]]}
            if "ext" in x:
                return {"ext": [x["ext"][0], x["ext"][1], [args_fix(y) for y in x["ext"][2]]]}
            if "helper" in x:
                return {"helper": [x["helper"][0], [args_fix(y) for y in x["helper"][1]]]}
            if "extract" in x:
                return {"extract": [x["extract"][0], args_fix(x["extract"][1])]}
            if "splat" in x:
                return {"splat": [x["splat"][0], args_fix(x["splat"][1])]}
        return x
    if rt == "bool":
        if "op" in t and t["op"][0] == 169 and len(t["op"][2]) == 3:
            t = t["op"][2][0]
        else:
            return {"opaque": "bool result not wrapped in the probe's OpSelect"}
    return args_fix(t)


def erase_splat(t):
    """The scalar form of a template (what the catalogue holds)."""
    if "splat" in t:
        return erase_splat(t["splat"][1])
    if "op" in t:
        return {"op": [t["op"][0], t["op"][1], [erase_splat(x) for x in t["op"][2]]]}
    if "ext" in t:
        return {"ext": [t["ext"][0], t["ext"][1], [erase_splat(x) for x in t["ext"][2]]]}
    if "helper" in t:
        return {"helper": [erase_splat(t["helper"][0]), [erase_splat(x) for x in t["helper"][1]]]}
    if "extract" in t:
        return {"extract": [t["extract"][0], erase_splat(t["extract"][1])]}
    return t


def template_of(words, spec):
    m = SpvMod(words)
    if m.entry is None or m.entry not in m.funcs:
        return {"opaque": "no entry point"}
    _ps, body = m.funcs[m.entry]
    stores = []
    for op, ops in body:
        if op == 62:
            try:
                var, _ = m.root_var(ops[0])
            except KeyError:
                continue
            if m.binding.get(var) == 0:
                stores.append(ops[1])
    if len(stores) != 1:
        return {"opaque": "expected exactly one store to the output buffer, found %d" % len(stores)}
    return strip_bool_io(abstract(m, stores[0]), spec)


def coq_texp(t):
    K = {"b": "KBool", "i": "KSint", "u": "KUint", "f": "KFloat"}
    if "arg" in t:
        return "TArg %d" % t["arg"]
    if "c" in t:
        return "TConst %s %d" % (K[t["c"][0]], t["c"][1])
    if "cb" in t:
        return "TBoolC %s" % ("true" if t["cb"] else "false")
    if "op" in t:
        return "TOp %d %s [%s]" % (t["op"][0], K[t["op"][1]], "; ".join(coq_texp(x) for x in t["op"][2]))
    if "ext" in t:
        return "TExt %d %s [%s]" % (t["ext"][0], K[t["ext"][1]], "; ".join(coq_texp(x) for x in t["ext"][2]))
    if "helper" in t:
        return "THelper (%s) [%s]" % (coq_texp(t["helper"][0]), "; ".join(coq_texp(x) for x in t["helper"][1]))
    if "extract" in t:
        return "TExtract %d (%s)" % (t["extract"][0], coq_texp(t["extract"][1]))
    if "splat" in t:
        return "TSplat %d (%s)" % (t["splat"][0], coq_texp(t["splat"][1]))
    return "TOpaque \"%s\"" % t.get("opaque", "?").replace('"', "'")


def probe_table(tools):
    """-> list of {"key", "shape", "tpl" (JSON template) | "error", "src"} for every (operator, kind, shape)."""
    specs = probe_specs()
    jobs = []
    meta = []
    for sp in specs:
        for n in ((2, 3, 4) if sp[4] == "reduce" else (1, 2, 3, 4) if sp[4] else (1,)):
            meta.append((sp, n, probe_source(sp, n)))
    comp = compile_many(tools, [("%d" % i, src) for i, (_sp, _n, src) in enumerate(meta)])
    out = []
    for i, (sp, n, src) in enumerate(meta):
        c = comp.get("%d" % i)
        e = {"key": sp[0], "shape": n, "src": src}
        if c is None or "spv" not in c:
            e["error"] = (c or {}).get("err") or (c or {}).get("spv_err") or (c or {}).get("panic") or (c or {}).get("crash") or "no result"
        else:
            e["tpl"] = template_of(spv_words(c["spv"]), sp)
            e["spv"] = c["spv"]
            e["ir"] = c.get("ir")
        out.append(e)
    return out


# --------------------------------------------------------------------------
# generated programs (lib/wgslgen.py)

def uninit_origin(words, msg):
    """Which variable does an "undefined value" failure come from?  -> "private" | "spill" | "local" | "?"
    (spill = a Function variable that naga stores a whole by-value composite into for dynamic indexing)."""
    m = re.search(r"%(\d+)", msg)
    if not m:
        return "?"
    try:
        mod = SpvMod(words)
        op, ops = mod.defs[int(m.group(1))]
        if op != 61:
            return "?"
        var, idx = mod.root_var(ops[2])
        vop, vops = mod.defs[var]
        sc = vops[2]
        if sc == 6:
            return "private"
        if sc == 4:
            return "workgroup"
        if sc == 7:
            for _f, (_ps, body) in mod.funcs.items():
                for o, a in body:
                    if o == 62 and a[0] == var and idx and mod.defs.get(a[1], (0,))[0] in (80, 61, 44, 57, 82, 12, 79):
                        return "spill"
            return "local"
    except (KeyError, IndexError):
        pass
    return "?"


def avoid_uninit_findings(prog):
    """Rewrite of a wgslgen program that keeps it clear of the recorded findings, so that the REST of the
    program is still validated (any disagreement on a rewritten program is then a new violation).
    Meaning-preserving part (private-variable initialisers are dropped / variables without initialiser are
    not zeroed by the SPIR-V backend): every private variable is
    assigned its initialiser (or the zero value) at the start of the entry point, and every
    `var x: T;` gets the explicit initialiser `T()`.  The findings themselves are exercised by the
    dedicated programs private_init / private_zero / loop_var_decl of lib/spvprogs.py."""
    import copy
    p = copy.deepcopy(prog)

    def zero(t):
        return {"e": "cons", "t": t, "args": []}

    def fix_block(b):
        for s in b:
            k = s.get("s")
            if k == "var" and s.get("e") is None:
                s["e"] = zero(s["t"])
            for f in ("then", "else", "body", "cont"):
                if isinstance(s.get(f), list):
                    fix_block(s[f])
            if k == "switch":
                for c in s["cases"]:
                    fix_block(c["body"])
            if k == "for" and isinstance(s.get("init"), dict):
                fix_block([s["init"]])
    def u32(n):
        return {"e": "lit", "t": "u32", "v": n}

    def fix_expr(x):
        """operators with a recorded finding are replaced by neighbours that are emitted correctly
        (the findings stay covered by the probe table and by lib/spvprogs.py)"""
        if isinstance(x, list):
            for y in x:
                fix_expr(y)
            return
        if not isinstance(x, dict):
            return
        for v in list(x.values()):
            fix_expr(v)
        if x.get("e") == "builtin":
            f, a = x["f"], x["args"]
            if f in ("countLeadingZeros", "countTrailingZeros"):
                x["f"] = "countOneBits"
            elif f == "round":
                x["f"] = "trunc"
            elif f == "abs":
                x["f"], x["args"] = "max", [a[0], copy.deepcopy(a[0])]
            elif f == "clamp":
                lo, hi = a[1], a[2]
                x["args"] = [a[0], {"e": "builtin", "f": "min", "args": [lo, hi]},
                             {"e": "builtin", "f": "max", "args": [copy.deepcopy(lo), copy.deepcopy(hi)]}]
            elif f == "extractBits":
                x["args"] = [a[0], {"e": "bin", "op": "%", "a": a[1], "b": u32(16)}, {"e": "bin", "op": "%", "a": a[2], "b": u32(17)}]
            elif f == "insertBits":
                x["args"] = [a[0], a[1], {"e": "bin", "op": "%", "a": a[2], "b": u32(16)}, {"e": "bin", "op": "%", "a": a[3], "b": u32(17)}]
    # module-scope constants of composite type are emitted as OpConstantNull by the SPIR-V backend (recorded finding
    # spv-module-composite-constant-null, program module_const_composite of lib/spvprogs.py): their uses are
    # replaced by their (literal-only) initialiser expression, which is the same value by definition
    comp = {c["n"]: c["e"] for c in p["consts"] if isinstance(c["t"], list)}

    def inline(x):
        if isinstance(x, list):
            for i, y in enumerate(x):
                if isinstance(y, dict) and y.get("e") == "var" and y.get("n") in comp:
                    x[i] = copy.deepcopy(comp[y["n"]])
                else:
                    inline(y)
        elif isinstance(x, dict):
            for k, y in list(x.items()):
                if isinstance(y, dict) and y.get("e") == "var" and y.get("n") in comp:
                    x[k] = copy.deepcopy(comp[y["n"]])
                else:
                    inline(y)
    if comp:
        inline(p["funcs"])
        inline(p["entry"]["body"])
        inline(p["globals"])
    fix_expr(p["funcs"])
    fix_expr(p["entry"]["body"])
    fix_expr(p["consts"])
    fix_expr([g.get("e") for g in p["globals"]])
    pre = []
    for g in p["globals"]:
        if g["space"] == "private":
            pre.append({"s": "assign", "l": {"e": "var", "n": g["n"]}, "e": g.get("e") if g.get("e") is not None else zero(g["t"])})
            g["e"] = None
    for f in p["funcs"]:
        fix_block(f["body"])
    fix_block(p["entry"]["body"])
    p["entry"]["body"] = pre + p["entry"]["body"]
    return p


def generated_inputs(wgslgen, prog, rng, n):
    """n input sets for a wgslgen program: buffers keyed "group:binding" + GlobalInvocationId.
    The invocation is always the first of its workgroup (LocalInvocationId 0: it is the one that runs
    naga's workgroup zero-initialisation), so gid.x is a multiple of the workgroup size."""
    out = []
    wg = prog["entry"]["wg"]
    for j in range(n):
        # finite, exactly representable float inputs only: WGSL lets an implementation assume that NaNs and infinities are
        # not present at run time (a comparison such as `x != y` on a NaN is then indeterminate: SPIR-V's ordered
        # OpFOrdNotEqual and the IR reference disagree there without either being wrong); special values are exercised
        # operator by operator in the probe table, where each operator's NaN / infinity behaviour is classified
        gi = wgslgen.gen_inputs(rng.fork("i%d" % j), prog, exact=True)
        bufs = {}
        for g, v in zip(prog["globals"], gi["globals"]):
            if v is not None:
                bufs["%d:%d" % (g["group"], g["binding"])] = v
        gid = gi["args"][0]
        gid = {"vec": [{"u": gid["vec"][0]["u"] * wg[0]}, {"u": 0}, {"u": 0}]}
        out.append({"buffers": bufs, "builtins": {"GlobalInvocationId": gid,
                                                   "WorkgroupId": {"vec": [{"u": gi["args"][0]["vec"][0]["u"]}, {"u": 0}, {"u": 0}]}}})
    return out


# --------------------------------------------------------------------------
# gen.py generator `spvoptable`: coq/Gen/SpvOpTable.v

LAST_PROBE = None


def gen_spvoptable(gen, tools):
    """Probe every (operator, kind, shape), write coq/Gen/SpvOpTable.v.  A probe program that no longer
    compiles, or whose code cannot be abstracted, yields a TOpaque row (which is in no catalogue entry)."""
    global LAST_PROBE
    tab = probe_table(tools)
    LAST_PROBE = tab
    rows = []
    for e in tab:
        t = e["tpl"] if "tpl" in e else {"opaque": "probe program rejected: %s" % str(e.get("error"))[:120]}
        rows.append("  (%s, %d, %s)" % (gen.coq_string(e["key"]), e["shape"], coq_texp(t)))
    body = "\n".join([
        "From Coq Require Import List ZArith String.", "Import ListNotations.",
        "Require Import Naga.Spv.Ops Naga.Spv.Catalogue.", "Open Scope Z_scope.", "Open Scope string_scope.", "",
        "(* one row per probed (operator:type, shape): the instruction template naga emitted for",
        "   `o[0] = a0[0] OP a1[0]` (operands abstracted, helper-function bodies inlined) *)",
        "Definition table : list probe_row := [", ";\n".join(rows), "]."]) + "\n"
    return [gen.write("Gen/SpvOpTable.v", body)]
