"""Reader for the subset of HLSL that naga's HLSL backend emits (property C03).

parse(text) -> {"structs": [...], "typedefs": [...], "globals": [...], "funcs": [...],
                "out_of_fragment": [{"item": name, "why": reason}, ...]}

The AST is the JSON form decoded by coq/Hlsl/Decode.v (every node is a list whose
first element is a tag).  The reader is deliberately strict: a top-level item it
cannot read completely (unknown type, unknown statement form, texture/sampler
resources, 64-bit or 16-bit literals, ...) is skipped as a whole and listed under
"out_of_fragment"; the interpreter then fails with "unsupported: ..." if the
executed entry point reaches it.  Nothing is guessed.

Trusted: this file (tokeniser, precedence table of C-like operators, literal
conversion).  Float literals are converted to the binary32 pattern they denote by
exact rational arithmetic (round to nearest, ties to even)."""
import re
from fractions import Fraction


class OutOfFragment(Exception):
    pass


# ------------------------------------------------------------------ literals

def f32_bits_of_fraction(q):
    """Correctly rounded (nearest-even) binary32 pattern of a non-negative rational."""
    if q == 0:
        return 0
    # find e with 2^e <= q < 2^(e+1)
    n, d = q.numerator, q.denominator
    e = n.bit_length() - d.bit_length()
    if Fraction(2) ** e > q:
        e -= 1
    if Fraction(2) ** (e + 1) <= q:
        e += 1
    if e < -126:
        e = -126                      # subnormal range: fixed quantum 2^-149
    quantum = Fraction(2) ** (e - 23)
    m = q / quantum                   # significand in units of the quantum
    fl = m.numerator // m.denominator
    rem = m - fl
    if rem > Fraction(1, 2) or (rem == Fraction(1, 2) and fl % 2 == 1):
        fl += 1
    if fl >= (1 << 24):               # rounding carried into the next binade
        fl >>= 1
        e += 1
    if e > 127:
        return 0x7F800000
    if fl < (1 << 23):                # subnormal (e == -126)
        return fl
    return ((e + 127) << 23) | (fl - (1 << 23))


def f32_bits_of_decimal(text):
    m = re.fullmatch(r"(\d*)(?:\.(\d*))?(?:[eE]([+-]?\d+))?", text)
    if not m or (m.group(1) == "" and not m.group(2)):
        raise OutOfFragment("float literal " + text)
    ip, fp, ex = m.group(1) or "0", m.group(2) or "", int(m.group(3) or "0")
    q = Fraction(int(ip + fp), 10 ** len(fp)) * Fraction(10) ** ex
    return f32_bits_of_fraction(q)


# ------------------------------------------------------------------ tokens

TOKEN_RE = re.compile(r"""
    (?P<ws>\s+|//[^\n]*|/\*.*?\*/)
  | (?P<inf>\d+\.\#INF)
  | (?P<num>(?:\d+\.\d*|\.\d+|\d+)(?:[eE][+-]?\d+)?[a-zA-Z]*)
  | (?P<id>[A-Za-z_][A-Za-z_0-9]*)
  | (?P<op><<=|>>=|\+\+|--|<<|>>|<=|>=|==|!=|&&|\|\||\+=|-=|\*=|/=|%=|&=|\|=|\^=|[-+*/%<>=!~&|^?:;,.(){}\[\]])
""", re.X | re.S)


def tokenize(text):
    toks = []
    pos = 0
    n = len(text)
    while pos < n:
        m = TOKEN_RE.match(text, pos)
        if not m:
            raise OutOfFragment("unreadable character %r at %d" % (text[pos], pos))
        pos = m.end()
        k = m.lastgroup
        if k == "ws":
            continue
        toks.append((k, m.group(k)))
    toks.append(("eof", ""))
    return toks


SCALARS = {"int": "int", "uint": "uint", "float": "float", "bool": "bool"}
BASE_TYPE_RE = re.compile(r"(int|uint|float|bool)([2-4])?(?:x([2-4]))?$")
MODIFIERS = {"nointerpolation", "noperspective", "centroid", "sample", "linear", "precise", "row_major",
             "column_major", "const", "in", "uniform"}
ASSIGN_OPS = {"=": None, "+=": "+", "-=": "-", "*=": "*", "/=": "/", "%=": "%", "&=": "&", "|=": "|", "^=": "^",
              "<<=": "<<", ">>=": ">>"}
BINARY_LEVELS = [["||"], ["&&"], ["|"], ["^"], ["&"], ["==", "!="], ["<", "<=", ">", ">="], ["<<", ">>"],
                 ["+", "-"], ["*", "/", "%"]]
OTHER_TYPES = re.compile(r"(half|double|int64_t|uint64_t|min16\w+|min10\w+|min12\w+|"
                         r"Texture\w*|RWTexture\w*|SamplerState|SamplerComparisonState|StructuredBuffer|RWStructuredBuffer|"
                         r"RaytracingAccelerationStructure|RayQuery|RayDesc|ConstantBuffer)$")


class Parser:
    def __init__(self, text):
        self.toks = tokenize(text)
        self.i = 0
        self.named = set()          # struct and typedef names

    # ---- token helpers
    def peek(self, k=0):
        return self.toks[min(self.i + k, len(self.toks) - 1)]

    def at(self, s, k=0):
        t = self.peek(k)
        return t[1] == s and t[0] in ("op", "id")

    def next(self):
        t = self.toks[self.i]
        self.i += 1
        return t

    def expect(self, s):
        t = self.next()
        if t[1] != s:
            raise OutOfFragment("expected %r, found %r" % (s, t[1]))

    def ident(self):
        t = self.next()
        if t[0] != "id":
            raise OutOfFragment("expected identifier, found %r" % (t[1],))
        return t[1]

    # ---- types
    def is_type_start(self, k=0):
        t = self.peek(k)
        if t[0] != "id":
            return False
        s = t[1]
        return bool(BASE_TYPE_RE.match(s)) or s in self.named or s == "void" or s in ("RWByteAddressBuffer", "ByteAddressBuffer") \
            or bool(OTHER_TYPES.match(s))

    def base_type(self):
        s = self.ident()
        if s == "void":
            return ["void"]
        if s == "RWByteAddressBuffer":
            return ["buf", True]
        if s == "ByteAddressBuffer":
            return ["buf", False]
        m = BASE_TYPE_RE.match(s)
        if m:
            k, a, b = m.group(1), m.group(2), m.group(3)
            if a is None:
                return ["scal", k]
            if b is None:
                return ["vec", k, int(a)]
            return ["mat", k, int(a), int(b)]
        if s in self.named:
            return ["named", s]
        raise OutOfFragment("type " + s)

    def array_dims(self):
        dims = []
        while self.at("["):
            self.next()
            t = self.next()
            if t[0] != "num" or not t[1].isdigit():
                raise OutOfFragment("array dimension " + t[1])
            dims.append(int(t[1]))
            self.expect("]")
        return dims

    @staticmethod
    def with_dims(t, dims):
        for d in reversed(dims):
            t = ["arr", t, d]
        return t

    def skip_modifiers(self):
        while self.peek()[0] == "id" and self.peek()[1] in MODIFIERS:
            self.next()

    # ---- expressions
    def expr(self):
        return self.ternary()

    def ternary(self):
        c = self.binary(0)
        if self.at("?"):
            self.next()
            a = self.ternary()
            self.expect(":")
            b = self.ternary()
            return ["cond", c, a, b]
        return c

    def binary(self, level):
        if level == len(BINARY_LEVELS):
            return self.unary()
        e = self.binary(level + 1)
        while self.peek()[0] == "op" and self.peek()[1] in BINARY_LEVELS[level]:
            op = self.next()[1]
            r = self.binary(level + 1)
            e = ["bin", op, e, r]
        return e

    def cast_ahead(self):
        """( type [dims] ) at the cursor?"""
        if not self.at("("):
            return False
        k = 1
        if not self.is_type_start(k):
            return False
        k += 1
        while self.at("[", k):
            if self.peek(k + 1)[0] != "num" or not self.at("]", k + 2):
                return False
            k += 3
        return self.at(")", k)

    def unary(self):
        t = self.peek()
        if t[0] == "op" and t[1] in ("-", "!", "~", "+"):
            self.next()
            return ["un", t[1], self.unary()]
        if t[0] == "op" and t[1] in ("++", "--"):
            raise OutOfFragment("prefix increment")
        if self.cast_ahead():
            self.next()
            ty = self.base_type()
            ty = self.with_dims(ty, self.array_dims())
            self.expect(")")
            return ["cast", ty, self.unary()]
        return self.postfix()

    def args(self):
        self.expect("(")
        out = []
        if not self.at(")"):
            out.append(self.expr())
            while self.at(","):
                self.next()
                out.append(self.expr())
        self.expect(")")
        return out

    def postfix(self):
        e = self.primary()
        while True:
            if self.at("."):
                self.next()
                m = self.ident()
                if self.at("<") and m in ("Load", "Load2", "Load3", "Load4", "Store", "Store2", "Store3", "Store4"):
                    raise OutOfFragment("templated buffer method " + m)
                if self.at("("):
                    e = ["method", e, m, self.args()]
                else:
                    e = ["member", e, m]
            elif self.at("["):
                self.next()
                i = self.expr()
                self.expect("]")
                e = ["index", e, i]
            else:
                return e

    def primary(self):
        t = self.next()
        if t[0] == "inf":
            return ["f", 0x7F800000]
        if t[0] == "num":
            return self.number(t[1])
        if t[0] == "op" and t[1] == "(":
            e = self.expr()
            self.expect(")")
            return e
        if t[0] == "op" and t[1] == "{":
            es = []
            if not self.at("}"):
                es.append(self.expr())
                while self.at(","):
                    self.next()
                    if self.at("}"):
                        break
                    es.append(self.expr())
            self.expect("}")
            return ["init", es]
        if t[0] == "id":
            s = t[1]
            if s == "true":
                return ["b", True]
            if s == "false":
                return ["b", False]
            if self.at("("):
                m = BASE_TYPE_RE.match(s)
                if m:
                    self.i -= 1
                    ty = self.base_type()
                    return ["ctor", ty, self.args()]
                if OTHER_TYPES.match(s):
                    raise OutOfFragment("constructor of " + s)
                return ["call", s, self.args()]
            if self.at("<") and s in ("Load", "Store"):
                raise OutOfFragment("templated call")
            return ["var", s]
        raise OutOfFragment("unexpected token %r in expression" % (t[1],))

    @staticmethod
    def number(s):
        m = re.fullmatch(r"(\d+)([a-zA-Z]*)", s)
        if m:
            digits, suf = m.group(1), m.group(2)
            if suf == "":
                return ["i", int(digits)]
            if suf in ("u", "U"):
                return ["u", int(digits)]
            raise OutOfFragment("integer literal suffix " + suf)
        m = re.fullmatch(r"((?:\d+\.\d*|\.\d+|\d+)(?:[eE][+-]?\d+)?)([a-zA-Z]*)", s)
        if m and m.group(2) in ("", "f", "F"):
            return ["f", f32_bits_of_decimal(m.group(1))]
        raise OutOfFragment("numeric literal " + s)

    # ---- statements
    def block(self):
        self.expect("{")
        out = []
        while not self.at("}"):
            out.append(self.stmt())
        self.expect("}")
        return out

    def stmt_or_block(self):
        if self.at("{"):
            return self.block()
        return [self.stmt()]

    def simple_stmt(self):
        """declaration | assignment | increment | expression  (without the final ';')"""
        save = self.i
        self.skip_modifiers()
        if self.is_type_start() and self.peek(1)[0] == "id":
            ty = self.base_type()
            # naga writes the dimensions of a module-scope array before the name (`static uint[2] x = ...`);
            # read as the array type it evidently stands for (whether DXC/FXC accept this declarator form is an
            # open question recorded in DESIGN.md)
            pre = self.array_dims() if self.at("[") else []
            name = self.ident()
            ty = self.with_dims(ty, pre + self.array_dims())
            init = None
            if self.at("="):
                self.next()
                init = self.expr()
            return ["decl", ty, name, init]
        self.i = save
        e = self.expr()
        t = self.peek()
        if t[0] == "op" and t[1] in ASSIGN_OPS:
            self.next()
            r = self.expr()
            return ["assign", ASSIGN_OPS[t[1]], e, r]
        if t[0] == "op" and t[1] == "++":
            self.next()
            return ["incr", e]
        return ["expr", e]

    def stmt(self):
        t = self.peek()
        if t[0] == "op" and t[1] == "{":
            return ["block", self.block()]
        if t[0] == "op" and t[1] == ";":
            self.next()
            return ["block", []]
        if t[0] == "id":
            s = t[1]
            if s == "if":
                self.next()
                self.expect("(")
                c = self.expr()
                self.expect(")")
                a = self.stmt_or_block()
                b = []
                if self.at("else"):
                    self.next()
                    b = self.stmt_or_block()
                return ["if", c, a, b]
            if s == "while":
                self.next()
                self.expect("(")
                c = self.expr()
                self.expect(")")
                return ["while", c, self.stmt_or_block()]
            if s == "do":
                self.next()
                b = self.stmt_or_block()
                self.expect("while")
                self.expect("(")
                c = self.expr()
                self.expect(")")
                self.expect(";")
                return ["dowhile", b, c]
            if s == "for":
                self.next()
                self.expect("(")
                init = [] if self.at(";") else [self.simple_stmt()]
                self.expect(";")
                c = ["b", True] if self.at(";") else self.expr()
                self.expect(";")
                step = [] if self.at(")") else [self.simple_stmt()]
                self.expect(")")
                return ["for", init, c, step, self.stmt_or_block()]
            if s == "switch":
                self.next()
                self.expect("(")
                e = self.expr()
                self.expect(")")
                self.expect("{")
                cases = []
                while not self.at("}"):
                    if self.at("case"):
                        self.next()
                        lab = self.expr_no_colon()
                        self.expect(":")
                    elif self.at("default"):
                        self.next()
                        self.expect(":")
                        lab = None
                    else:
                        raise OutOfFragment("switch body")
                    body = []
                    while not (self.at("case") or self.at("default") or self.at("}")):
                        body.append(self.stmt())
                    cases.append([lab, body])
                self.expect("}")
                return ["switch", e, cases]
            if s == "break":
                self.next()
                self.expect(";")
                return ["break"]
            if s == "continue":
                self.next()
                self.expect(";")
                return ["continue"]
            if s == "return":
                self.next()
                e = None
                if not self.at(";"):
                    e = self.expr()
                self.expect(";")
                return ["return", e]
            if s == "discard":
                raise OutOfFragment("discard")
        st = self.simple_stmt()
        self.expect(";")
        return st

    def expr_no_colon(self):
        # case labels: a (possibly negated) integer literal
        neg = False
        if self.at("-"):
            self.next()
            neg = True
        t = self.next()
        if t[0] != "num":
            raise OutOfFragment("case label")
        e = self.number(t[1])
        if e[0] not in ("i", "u"):
            raise OutOfFragment("case label")
        return ["un", "-", e] if neg else e

    # ---- top level
    def register(self):
        """: register(u0[, space1]) -> 'u0' | 'u0,space1'"""
        self.expect(":")
        self.expect("register")
        self.expect("(")
        parts = [self.ident()]
        while self.at(","):
            self.next()
            parts.append(self.ident())
        self.expect(")")
        return ",".join(parts)

    def struct_body(self):
        self.expect("{")
        ms = []
        while not self.at("}"):
            self.skip_modifiers()
            ty = self.base_type()
            name = self.ident()
            ty = self.with_dims(ty, self.array_dims())
            if self.at(":"):
                self.next()
                self.ident()
            self.expect(";")
            ms.append([ty, name])
        self.expect("}")
        return ms

    def skip_item(self, start):
        """skip the top-level item beginning at token index start; return a name for it"""
        self.i = start
        depth = 0
        name = None
        while True:
            t = self.next()
            if t[0] == "eof":
                return name or "?"
            if t[0] == "id" and depth == 0 and self.at("(") and name is None:
                name = t[1]
            if t[1] in ("(", "{", "[") and t[0] == "op":
                depth += 1
            elif t[1] in (")", "}", "]") and t[0] == "op":
                depth -= 1
                if depth == 0 and t[1] == "}":
                    if self.at(";"):
                        self.next()
                    return name or "?"
            elif t[1] == ";" and t[0] == "op" and depth == 0:
                return name or "?"

    def item(self, out):
        numthreads = None
        while self.at("["):                         # attributes
            self.next()
            a = self.ident()
            vals = []
            if self.at("("):
                self.next()
                while not self.at(")"):
                    t = self.next()
                    if t[0] == "num" and t[1].isdigit():
                        vals.append(int(t[1]))
                    elif t[1] != ",":
                        raise OutOfFragment("attribute argument")
                self.expect(")")
            self.expect("]")
            if a == "numthreads":
                numthreads = vals
        if self.at("struct"):
            self.next()
            name = self.ident()
            ms = self.struct_body()
            self.expect(";")
            self.named.add(name)
            out["structs"].append([name, ms])
            return
        if self.at("typedef"):
            self.next()
            if self.at("struct"):
                self.next()
                ms = self.struct_body()
                name = self.ident()
                self.expect(";")
                self.named.add(name)
                out["structs"].append([name, ms])
                return
            ty = self.base_type()
            name = self.ident()
            ty = self.with_dims(ty, self.array_dims())
            self.expect(";")
            self.named.add(name)
            out["typedefs"].append([name, ty])
            return
        if self.at("cbuffer"):
            self.next()
            self.ident()
            reg = self.register()
            self.expect("{")
            self.skip_modifiers()
            ty = self.base_type()
            name = self.ident()
            ty = self.with_dims(ty, self.array_dims())
            self.expect(";")
            self.expect("}")
            out["globals"].append(["cbuffer", reg, ty, name, None])
            return
        if self.at("RWByteAddressBuffer") or self.at("ByteAddressBuffer"):
            rw = self.next()[1] == "RWByteAddressBuffer"
            name = self.ident()
            if self.at("["):
                raise OutOfFragment("array of buffers")
            reg = self.register()
            self.expect(";")
            out["globals"].append(["rwbuffer" if rw else "buffer", reg, ["buf", rw], name, None])
            return
        if self.at("groupshared"):
            self.next()
            ty = self.base_type()
            name = self.ident()
            ty = self.with_dims(ty, self.array_dims())
            self.expect(";")
            out["globals"].append(["shared", None, ty, name, None])
            return
        if self.at("static"):
            self.next()
            const = False
            if self.at("const"):
                self.next()
                const = True
            ty = self.base_type()
            # naga writes the dimensions of a module-scope array before the name (`static uint[2] x = ...`);
            # read as the array type it evidently stands for (whether DXC/FXC accept this declarator form is an
            # open question recorded in DESIGN.md)
            pre = self.array_dims() if self.at("[") else []
            name = self.ident()
            ty = self.with_dims(ty, pre + self.array_dims())
            init = None
            if self.at("="):
                self.next()
                init = self.expr()
            self.expect(";")
            out["globals"].append(["const" if const else "static", None, ty, name, init])
            return
        # function
        self.skip_modifiers()
        ret = self.base_type()
        name = self.ident()
        self.expect("(")
        params = []
        while not self.at(")"):
            inout = False
            while self.peek()[0] == "id" and (self.peek()[1] in MODIFIERS or self.peek()[1] in ("inout", "out")):
                w = self.next()[1]
                if w == "inout":
                    inout = True
                if w == "out":
                    raise OutOfFragment("out parameter")
            ty = self.base_type()
            pn = self.ident()
            ty = self.with_dims(ty, self.array_dims())
            sem = None
            if self.at(":"):
                self.next()
                sem = self.ident()
            params.append([inout, ty, pn, sem])
            if self.at(","):
                self.next()
        self.expect(")")
        if self.at(":"):
            self.next()
            self.ident()
        body = self.block()
        out["funcs"].append({"name": name, "ret": ret, "params": params, "body": body, "numthreads": numthreads})


def parse(text):
    out = {"structs": [], "typedefs": [], "globals": [], "funcs": [], "out_of_fragment": []}
    try:
        p = Parser(text)
    except OutOfFragment as e:
        out["out_of_fragment"].append({"item": "<file>", "why": str(e)})
        return out
    while p.peek()[0] != "eof":
        start = p.i
        try:
            p.item(out)
        except OutOfFragment as e:
            name = p.skip_item(start)
            out["out_of_fragment"].append({"item": name, "why": str(e)})
    return out


def entry_points(ast):
    return [f["name"] for f in ast["funcs"] if f["numthreads"] is not None]


if __name__ == "__main__":
    import json
    import sys
    a = parse(open(sys.argv[1]).read())
    print(json.dumps({"entry_points": entry_points(a), "out_of_fragment": a["out_of_fragment"],
                      "funcs": [f["name"] for f in a["funcs"]]}, indent=1))
