"""C15, MSL leg: hostile indices under every MSL bounds-check policy, hostile operands, zero initialisation.

The emitted MSL is read by lib/mslread.py and executed by `mslrun` (coq/Msl/Sem.v, strict: an index outside the
indexed VALUE -- a buffer is a value with exactly as many elements as fit into its byte size -- is "UB: out of bounds",
a read of a variable that was never written is "UB: read of an uninitialised variable").  The reference is `irrun` on
the IR of the SAME program with the policy written out in WGSL (lib/c15progs.py expand()).

Buffers of runtime-sized arrays are given by their BYTE SIZE B (what _mslBufferSizes carries): the value bound has
n = 1 + (B - offset - elemSize) / stride elements (every element whose bytes lie inside the buffer), so an access to
element n is an access outside the bound buffer."""
import hashlib
import json

import c15progs
import mslcorr
import mslread

M32 = 1 << 32
FUEL = 30000

# msl.Options sets (harness/cmd/msldrive): name -> (index policy, buffer policy)
SETS = {"default": ("rzsw", "rzsw"), "v12_restrict": ("restrict", "restrict"),
        "v23_mixed": ("restrict", "rzsw"), "v30_mixed2": ("rzsw", "restrict")}
OPTSETS = {
    "default": {"name": "default"},                                   # msl.DefaultOptions(): every policy ReadZeroSkipWrite
    "v12_restrict": {"name": "v12_restrict", "lang": [1, 2], "index": "restrict", "buffer": "restrict"},
    "v23_mixed": {"name": "v23_mixed", "lang": [2, 3], "index": "restrict", "buffer": "rzsw", "loop_bound": False},
    "v30_mixed2": {"name": "v30_mixed2", "lang": [3, 0], "index": "rzsw", "buffer": "restrict"},
}


class Batch:
    """tickets for irrun / mslrun requests; run() executes all of them in a few processes per tool"""
    def __init__(self, irrun, mslrun, workers):
        self.irrun, self.mslrun, self.workers = irrun, mslrun, workers
        self.ir_reqs, self.msl_reqs = [], []
        self._ir_memo = {}

    def ir(self, req, memo=None):
        if memo is not None and memo in self._ir_memo:
            return self._ir_memo[memo]
        self.ir_reqs.append(req)
        if memo is not None:
            self._ir_memo[memo] = len(self.ir_reqs) - 1
        return len(self.ir_reqs) - 1

    def msl(self, req):
        self.msl_reqs.append(req)
        return len(self.msl_reqs) - 1

    def run(self):
        from concurrent.futures import ThreadPoolExecutor
        with ThreadPoolExecutor(2) as ex:
            fa = ex.submit(mslcorr.run_models_parallel, self.irrun, self.ir_reqs, self.workers)
            fb = ex.submit(mslcorr.run_models_parallel, self.mslrun, self.msl_reqs, self.workers)
            self.ir_res, self.msl_res = fa.result(), fb.result()


def hostile(L):
    """index values around the end of an object of L elements and at the ends of the 32-bit range"""
    vals = [0, L - 1, L, L + 1, L + 2, L + 3, L + 4, 0x7FFFFFFF, 0x80000000, 0xFFFFFFFE, 0xFFFFFFFF]
    out = []
    for v in vals:
        v %= M32
        if v not in out:
            out.append(v)
    return out


def index_tuples(lens, quick):
    """(ix0, ix1, ix2, ix3) tuples: ix0 indexes loads, ix1 stores, ix2 / ix3 the inner level of loads / stores"""
    Ho = hostile(lens[0])
    out = []
    if len(lens) == 1:
        for k in range(len(Ho)):
            out.append((Ho[k], Ho[(k + 5) % len(Ho)], 0, 0))
        return out
    Hi = hostile(lens[1])
    for k in range(len(Ho)):
        out.append((Ho[k], Ho[(k + 5) % len(Ho)], k % lens[1], (k + 1) % lens[1]))
    for k in range(len(Hi)):
        out.append((k % lens[0], (k + 1) % lens[0], Hi[k], Hi[(k + 5) % len(Hi)]))
    out.append((lens[0], lens[0] + 1, lens[1], 0xFFFFFFFF))
    out.append((0xFFFFFFFF, 0x80000000, lens[1] + 1, lens[1]))
    if quick:
        out = out[::2] + [out[-1]]
    return out


def elem_layout(meta, T, ir):
    """(offset, elemSize, stride) of the runtime-sized array of the program's `data` / `h` global from the IR"""
    for h, g in enumerate(ir["GlobalVariables"]):
        if g["Name"] in ("data", "h"):
            t = T.inner(g["Type"])
            off = 0
            if t["_t"] == "StructType":
                last = t["Members"][-1]
                off = last["Offset"]
                t = T.inner(last["Type"])
            stride = t["Stride"]
            size = T.byte_size(t["Base"], 0) if T.inner(t["Base"])["_t"] != "StructType" else T.inner(t["Base"])["Span"]
            return h, off, size, stride
    return None


def byte_sizes(off, size, stride, quick, name="", seed=0):
    """explicit buffer byte sizes: whole elements (3; 1 and 6 elements) and ragged ends (one unpadded element / a few bytes more)"""
    out = [off + stride * 3]
    out.append(off + stride * 2 + size if size < stride else off + stride * 2 + 4)     # ragged
    if not quick or pick(name + "one", seed, 2):
        out.append(off + stride * 1)
    if not quick:
        out += [off + stride * 2 + 4, off + stride * 6, off + stride * 5 + 8]
    return sorted(set(out))


def pick(name, seed, mod):
    return (hashlib.sha256(name.encode()).digest()[0] + seed) % mod == 0


def set_ix(plan, inp, tup, signed):
    for h, sp, b, ty in plan.globals:
        if plan.ir["GlobalVariables"][h]["Name"] == "ix":
            inp["globals"][h] = {"arr": [{"i" if signed else "u": v} for v in tup]}


def parse_msl(m):
    """-> (ast for the model, entry name) or a string (why not)"""
    if "text" not in m:
        return "msl.Compile: %s" % (m.get("err") or m.get("panic") or m)
    try:
        ast = mslread.parse(m["text"])
    except mslread.OutOfFragment as e:
        return "reader: %s" % e
    epn = mslcorr.entry_names(m.get("info")).get("main", "main")
    if not [f for f in ast["funcs"] if f["name"] == epn]:
        return "reader: entry point outside the fragment: %s" % [u for u in ast["unparsed"] if u["name"] == epn][:1]
    return mslcorr.ast_for_model(ast), epn


def illformed_atomics(amodel):
    """calls of metal::atomic_* whose first argument is not `&lvalue` (rendered back roughly, for the report)"""
    out = []

    def show(e):
        if not isinstance(e, list) or not e:
            return str(e)
        k = e[0]
        if k in ("int", "uint"):
            return str(e[1])
        if k == "var":
            return e[1]
        if k == "addr":
            return "&" + show(e[1])
        if k == "bin":
            return "%s %s %s" % (show(e[2]), e[1], show(e[3]))
        if k == "cond":
            return "%s ? %s : %s" % (show(e[1]), show(e[2]), show(e[3]))
        if k == "index":
            return "%s[%s]" % (show(e[1]), show(e[2]))
        if k == "member":
            return "%s.%s" % (show(e[1]), e[2])
        if k == "cast":
            return "cast(%s)" % show(e[2])
        if k == "dc":
            return "DefaultConstructible()"
        return k + "(..)"

    def walk(x):
        if isinstance(x, list):
            if len(x) == 3 and x[0] == "call" and isinstance(x[1], str) and x[1].startswith("metal::atomic_") and isinstance(x[2], list) \
                    and x[2] and isinstance(x[2][0], list) and x[2][0] and x[2][0][0] != "addr":
                out.append("%s(%s, ...)" % (x[1], show(x[2][0])))
            for y in x:
                walk(y)
        elif isinstance(x, dict):
            for y in x.values():
                walk(y)
    walk(amodel.get("funcs"))
    return out


def compare(plan, a, b):
    for h in plan.storage_handles():
        x = mslcorr.canon(a["globals"][h])
        y = mslcorr.canon(b["buffers"].get(str(plan.slot[h])))
        d = mslcorr.first_diff(x, y)
        if d:
            return "buffer %s: WGSL/policy value vs emitted MSL %s" % (plan.ir["GlobalVariables"][h]["Name"], d)
    return None


# ------------------------------------------------------------------ hostile indices

def queue_index(ctx, tools, enums, batch, quick):
    progs = c15progs.index_programs()
    jobs = []
    srcs = {}
    for name, macro, meta in progs:
        for variant in ("hostile", "restrict", "rzsw"):
            srcs[(name, variant)] = c15progs.expand(macro, variant)
    sets = list(SETS)
    res_h = mslcorr.compile_programs(tools, [(n, srcs[(n, "hostile")]) for n, _m, _x in progs], [OPTSETS[x] for x in sets])
    res_r = mslcorr.compile_programs(tools, [(n + "/" + v, srcs[(n, v)]) for n, _m, _x in progs for v in ("restrict", "rzsw")], [])
    cases = []
    for name, macro, meta in progs:
        rh = res_h.get(name) or {}
        refs = {v: (res_r.get(name + "/" + v) or {}) for v in ("restrict", "rzsw")}
        if "ir" not in rh or any("ir" not in r for r in refs.values()):
            cases.append({"name": name, "reject": str([x.get("err") or x.get("panic") for x in [rh] + list(refs.values())])[:400],
                          "src": srcs[(name, "hostile")]})
            continue
        plan = mslcorr.Plan(enums, rh["ir"], 0)
        rplans = {v: mslcorr.Plan(enums, refs[v]["ir"], 0) for v in refs}
        if plan.why or any(p.why for p in rplans.values()):
            cases.append({"name": name, "oof": "inputs: %s" % (plan.why or [p.why for p in rplans.values()])})
            continue
        use_sets = ["default", "v12_restrict"] + ([s for s in ("v23_mixed", "v30_mixed2") if (not quick) or pick(name + s, ctx.seed, 4)])
        parsed = {sn: parse_msl(rh["msl"].get(sn, {})) for sn in use_sets}
        rng = ctx.rng.fork("c15msl/" + name)
        # buffer contents and sizes
        variants = []
        if meta["len"] == "rt" or (isinstance(meta["len"], list) and meta["len"][0] == "rt"):
            lay = elem_layout(meta, plan.T, plan.ir)
            hb, off, size, stride = lay
            for B in byte_sizes(off, size, stride, quick, name, ctx.seed):
                n = 1 + (B - off - size) // stride
                lens = [n] + (meta["len"][1:] if isinstance(meta["len"], list) else [])
                variants.append((n, {"size%d" % hb: B}, lens, "bytes=%d elements=%d" % (B, n), (B - off) % stride != 0))
        else:
            variants.append((3, {}, list(meta["len"]), "", False))
        for n, size_override, lens, vdesc, ragged in variants:
            base = plan.make_input(rng.fork("buf%d" % n), mode="finite", rt_len=n, k=0)
            for tup in index_tuples(lens, quick):
                inp = {"globals": list(base["globals"]), "rt_len": n, "k": 0}
                set_ix(plan, inp, tup, meta["signed"])
                for sn in use_sets:
                    pol = SETS[sn][1] if meta["kind"] == "buffer" else SETS[sn][0]
                    p = parsed[sn]
                    c = {"name": name, "set": sn, "policy": pol, "tup": tup, "lens": lens, "vdesc": vdesc, "meta": meta, "ragged": ragged,
                         "plan": plan, "inp": inp, "text": rh["msl"].get(sn, {}).get("text", ""),
                         "src": srcs[(name, "hostile")], "ref_src": srcs[(name, pol)]}
                    if isinstance(p, str):
                        c["oof"] = p
                        cases.append(c)
                        continue
                    amodel, epn = p
                    bad = illformed_atomics(amodel)
                    if bad:
                        import re
                        ml = re.search(r"[^\n]*metal::atomic_\w+\(&[^\n,]*\?[^\n]*", c["text"])
                        c["illformed"] = ml.group(0).strip() if ml else bad[0]
                        cases.append(c)
                        continue
                    c["ir"] = batch.ir(rplans[pol].ir_request(inp, FUEL), memo=(name, pol, vdesc, tup))
                    req = plan.msl_request(amodel, epn, inp, FUEL)
                    req["sizes"].update(size_override)
                    c["sizes"] = req["sizes"]
                    c["msl"] = batch.msl(req)
                    cases.append(c)
    return cases


def judge_index(ctx, batch, cases):
    st = {"programs": set(), "runs": 0, "agree": 0, "ub": 0, "wrong_value": 0, "out_of_fragment": 0, "reference_undefined": 0,
          "rejected": 0, "by_policy": {}, "oof_reasons": {}, "distinct": set(), "memory_safety_only": 0, "ill_formed_guards": 0}
    reported = set()
    for c in cases:
        name = c["name"]
        if "illformed" in c:
            st["ill_formed_guards"] += 1
            key = "msl:index:%s:%s:ill-formed-atomic-guard" % (c["policy"], c["meta"].get("family") or name)
            if key not in reported:
                reported.add(key)
                ctx.violation("MSL, %s policy %s (options %s), program %s: the bounds check of an atomic operation is emitted INSIDE the "
                              "address-of operand: `%s` -- the first argument of metal::atomic_* is then not a pointer to the element "
                              "(C++ parses `&uint(i) < n ? a[i] : DefaultConstructible()` as `(&uint(i)) < n ? ... : ...`): the text is not valid MSL"
                              % (c["meta"]["kind"], c["policy"], c["set"], name, c["illformed"]),
                              files={"input.wgsl": c["src"], "emitted.msl": c["text"]}, key=key)
            continue
        if "reject" in c:
            st["rejected"] += 1
            ctx.violation("C15 index program %s is not accepted by naga: %s" % (name, c["reject"]), files={"input.wgsl": c["src"]},
                          found_input=False, key="c15:msl-index-rejected:" + name, broken="C15 MSL index corpus")
            continue
        if "oof" in c:
            st["out_of_fragment"] += 1
            st["oof_reasons"][c["oof"][:70]] = st["oof_reasons"].get(c["oof"][:70], 0) + 1
            continue
        st["programs"].add(name)
        a = batch.ir_res[c["ir"]]
        b = batch.msl_res[c["msl"]]
        st["runs"] += 1
        ps = st["by_policy"].setdefault("%s/%s" % (c["meta"]["kind"], c["policy"]), {"runs": 0, "agree": 0})
        ps["runs"] += 1
        if not a.get("ok"):
            st["reference_undefined"] += 1
            st["oof_reasons"]["reference: " + str(a.get("msg"))[:50]] = st["oof_reasons"].get("reference: " + str(a.get("msg"))[:50], 0) + 1
            continue
        files = {"input.wgsl": c["src"], "reference_%s.wgsl" % c["policy"]: c["ref_src"], "emitted.msl": c["text"],
                 "input.json": json.dumps({"indices": c["tup"], "buffer_sizes": c["sizes"], "globals": c["inp"]["globals"]})}
        where = "indices ix=%s%s, object length(s) %s" % (list(c["tup"]), (", " + c["vdesc"]) if c["vdesc"] else "", c["lens"])
        fam = c["meta"].get("family") or (c["policy"] == "restrict" and c["meta"].get("restrict_family")) or name
        if not b.get("ok"):
            msg = str(b.get("msg"))
            if msg.startswith("not modelled") or b.get("kind") in ("outoffuel", "decode", "crash"):
                st["out_of_fragment"] += 1
                st["oof_reasons"][msg[:70]] = st["oof_reasons"].get(msg[:70], 0) + 1
                continue
            st["ub"] += 1
            kind = "oob" if "out of bounds" in msg else ("ub" if msg.startswith("UB") else "fail")
            key = "msl:index:%s:%s:%s" % (c["policy"], fam, kind)
            if key not in reported:
                reported.add(key)
                ctx.violation("MSL, %s policy %s (options %s), program %s: the emitted MSL runs into \"%s\" on %s"
                              % (c["meta"]["kind"], c["policy"], c["set"], name, msg, where), files=files, key=key)
            continue
        st["distinct"].add((name, c["set"], c["tup"], c["vdesc"]))
        if c["ragged"]:
            # the buffer ends inside an element's stride: WGSL's arrayLength (whole strides) and the number of elements whose
            # bytes are inside the buffer differ, any of them is a legitimate clamp / guard bound: memory safety only
            st["memory_safety_only"] += 1
            st["agree"] += 1
            ps["agree"] += 1
            continue
        d = compare(c["plan"], a, b)
        if d:
            st["wrong_value"] += 1
            key = "msl:index:%s:%s:value" % (c["policy"], fam)
            if key not in reported:
                reported.add(key)
                ctx.violation("MSL, %s policy %s (options %s), program %s: result differs from the policy value on %s\n%s"
                              % (c["meta"]["kind"], c["policy"], c["set"], name, where, d), files=files, key=key)
        else:
            st["agree"] += 1
            ps["agree"] += 1
    st["programs"] = len(st["programs"])
    st["distinct"] = len(st["distinct"])
    return st


# ------------------------------------------------------------------ programs compared with their own IR (operators, zero init)

def queue_plain(ctx, tools, enums, batch, programs, sets, inputs_of, tag):
    """programs: [(name, src, meta)]; inputs_of(plan, name) -> list of inputs.  The IR of the program itself is the reference."""
    res = mslcorr.compile_programs(tools, [(n, s) for n, s, _m in programs], [OPTSETS[x] for x in sets])
    cases = []
    for name, src, meta in programs:
        r = res.get(name) or {}
        if "ir" not in r:
            cases.append({"name": name, "reject": str(r.get("err") or r.get("panic") or r)[:300], "src": src, "tag": tag})
            continue
        plan = mslcorr.Plan(enums, r["ir"], 0)
        if plan.why:
            cases.append({"name": name, "oof": "inputs: " + plan.why, "tag": tag})
            continue
        inputs = inputs_of(plan, name)
        irt = [batch.ir(plan.ir_request(inp, FUEL)) for inp in inputs]
        for sn in sets:
            m = r["msl"].get(sn, {})
            p = parse_msl(m)
            if isinstance(p, str):
                cases.append({"name": name, "set": sn, "oof": p, "tag": tag, "meta": meta})
                continue
            amodel, epn = p
            for inp, it in zip(inputs, irt):
                cases.append({"name": name, "set": sn, "plan": plan, "inp": inp, "ir": it, "tag": tag, "meta": meta, "src": src,
                              "text": m["text"], "msl": batch.msl(plan.msl_request(amodel, epn, inp, FUEL))})
    return cases


def judge_plain(ctx, batch, cases, keyfn, describe, value_open=None):
    """keyfn(case, kind, detail) -> stable key; describe(case) -> text about the input;
    value_open(case) -> True when WGSL leaves the VALUE open on this input (only the absence of UB is required)"""
    st = {"programs": set(), "runs": 0, "agree": 0, "ub": 0, "wrong_value": 0, "out_of_fragment": 0, "reference_undefined": 0,
          "rejected": 0, "oof_reasons": {}}
    reported = set()
    for c in cases:
        if "reject" in c:
            st["rejected"] += 1
            ctx.violation("C15 %s program %s is not accepted by naga: %s" % (c["tag"], c["name"], c["reject"]), files={"input.wgsl": c["src"]},
                          found_input=False, key="c15:msl-%s-rejected:%s" % (c["tag"], c["name"]), broken="C15 MSL corpus")
            continue
        if "oof" in c:
            st["out_of_fragment"] += 1
            st["oof_reasons"][c["oof"][:70]] = st["oof_reasons"].get(c["oof"][:70], 0) + 1
            continue
        st["programs"].add(c["name"])
        a = batch.ir_res[c["ir"]]
        b = batch.msl_res[c["msl"]]
        st["runs"] += 1
        if not a.get("ok"):
            st["reference_undefined"] += 1
            st["oof_reasons"]["reference: " + str(a.get("msg"))[:50]] = st["oof_reasons"].get("reference: " + str(a.get("msg"))[:50], 0) + 1
            continue
        files = {"input.wgsl": c["src"], "emitted.msl": c["text"], "input.json": json.dumps(c["inp"])}
        if not b.get("ok"):
            msg = str(b.get("msg"))
            if msg.startswith("not modelled") or b.get("kind") in ("outoffuel", "decode", "crash"):
                st["out_of_fragment"] += 1
                st["oof_reasons"][msg[:70]] = st["oof_reasons"].get(msg[:70], 0) + 1
                continue
            st["ub"] += 1
            key = keyfn(c, "ub", msg)
            if key not in reported:
                reported.add(key)
                ctx.violation("MSL (options %s), program %s: the emitted MSL runs into \"%s\" where WGSL defines the result; %s"
                              % (c["set"], c["name"], msg, describe(c)), files=files, key=key)
            continue
        if value_open is not None and value_open(c):
            st["defined_value_left_open_by_wgsl"] = st.get("defined_value_left_open_by_wgsl", 0) + 1
            st["agree"] += 1
            continue
        d = compare(c["plan"], a, b)
        if d:
            st["wrong_value"] += 1
            key = keyfn(c, "value", d)
            if key not in reported:
                reported.add(key)
                ctx.violation("MSL (options %s), program %s: result differs from the WGSL value; %s\n%s" % (c["set"], c["name"], describe(c), d),
                              files=files, key=key)
        else:
            st["agree"] += 1
    st["programs"] = len(st["programs"])
    return st
