"""C01's WGSL -> IR leg: the WGSL-core reference semantics (coq/Wgsl/Sem.v, tool
wgslrun) on the generated AST vs the IR reference semantics (coq/IR/Sem.v, tool
irrun) on what naga's lowering produced from the rendered text, same inputs.
Also targeted probes for recorded findings (known_findings.jsonl)."""
import json

import nagarun
import ocamlbuild
import semdiff
import shrink
import vcheck
import wgslgen

FUEL = 6000

# (key, program text, AST builder is not needed: probes compare irrun against an expected value computed by hand
#  from the WGSL rules and cross-checked with wgslrun where the AST is available)
PROBES = [
    {"key": "wgsl-ir:global-init-dropped",
     "src": "@group(0) @binding(0) var<storage, read_write> o: array<f32>;\nvar<private> p: f32 = -0.5f;\n"
            "@compute @workgroup_size(1) fn main() { o[0] = p; }\n",
     "globals": [{"arr": [{"f": 0}]}, None], "expect0": {"arr": [{"f": 0xBF000000}]},
     "what": "`var<private> p: f32 = -0.5f;` must read -0.5"},
    {"key": "wgsl-ir:global-init-literal-kind",
     "src": "@group(0) @binding(0) var<storage, read_write> out0: array<i32>;\n"
            "var<private> priv0: vec4<f32> = vec4<f32>(8.0f, 1.0f, 1.0f, 4.0f);\n"
            "@compute @workgroup_size(1) fn main() { out0[0] = bitcast<i32>(-priv0[0i]); }\n",
     "globals": [{"arr": [{"i": 0}]}, None], "expect0": {"arr": [{"i": 0xC1000000}]},
     "what": "vec4<f32>(8.0,...) private initialiser must hold f32 8.0"},
    {"key": "wgsl-ir:compound-assign-order",
     "src": "@group(0) @binding(0) var<storage, read_write> o: array<i32>;\n"
            "fn h(p: ptr<function, i32>) -> i32 { *p = 4i; return 8i; }\n"
            "@compute @workgroup_size(1) fn main() { var acc: i32 = 0i; acc += h(&acc); o[0] = acc; }\n",
     "globals": [{"arr": [{"i": 0}]}], "expect0": {"arr": [{"i": 8}]},
     "what": "`acc += h(&acc)` where h writes acc=4 and returns 8 must give 0+8"},
]


def _leaves(v, out):
    if isinstance(v, dict):
        for k, x in v.items():
            if isinstance(x, list):
                for y in x:
                    _leaves(y, out)
            else:
                out.append((k, x))


def only_zero_sign(a, b):
    """both runs succeeded and every differing leaf is 0x80000000 on one side and 0 on the other"""
    la, lb = [], []
    for g in a.get("globals", []):
        _leaves(g, la)
    for g in b.get("globals", []):
        _leaves(g, lb)
    if len(la) != len(lb):
        return False
    diff = [(x, y) for x, y in zip(la, lb) if x != y]
    return bool(diff) and all(x[0] == y[0] and {x[1], y[1]} == {0, 0x80000000} for x, y in diff)


def run_probes(ctx, tools, exe_ir):
    jobs = [{"id": i, "src": p["src"], "want": ["ir"]} for i, p in enumerate(PROBES)]
    res = nagarun.run_batch(tools["nagadrive"], "compile", jobs)
    n = 0
    for i, p in enumerate(PROBES):
        r = res.get(i, {})
        if "ir" not in r:
            ctx.violation("probe %s: naga rejects the program: %s" % (p["key"], r.get("err") or r.get("panic") or r.get("crash")),
                          files={"input.wgsl": p["src"]}, key=p["key"] + ":rejected")
            continue
        out = vcheck.run_model(exe_ir, [{"ir": r["ir"], "ep": 0, "globals": p["globals"], "args": [], "fuel": FUEL}])[0]
        n += 1
        got = out.get("globals", [None])[0] if out.get("ok") else out
        if got != p["expect0"]:
            ctx.violation("WGSL->IR: %s; lowered IR evaluates to %s, WGSL prescribes %s" % (p["what"], json.dumps(got), json.dumps(p["expect0"])),
                          files={"input.wgsl": p["src"], "expected.json": json.dumps(p["expect0"]), "actual.json": json.dumps(got)},
                          key=p["key"])
    return n


def run_leg(ctx, tools, n_programs, opts=None, tag="wgslleg"):
    """Returns dict with statistics; reports violations through ctx."""
    exe_w = ocamlbuild.build("wgslrun")
    exe_ir = ocamlbuild.build("irrun")
    rng = ctx.rng.fork(tag)
    cases = semdiff.gen_cases(rng, n_programs, opts)
    semdiff.lower_all(tools, cases)
    stats = {"programs": len(cases), "lowering_rejected": 0, "runs": 0, "agree": 0, "out_of_fragment": 0, "outoffuel": 0, "differ": 0}
    for ci, c in enumerate(cases):
        if "ir" not in c["naga"]:
            stats["lowering_rejected"] += 1
            r = c["naga"]
            ctx.violation("naga rejects a valid generated program at stage %s: %s" % (r.get("stage"), r.get("err") or r.get("panic") or r.get("crash")),
                          files={"input.wgsl": c["src"]}, key="wgsl-ir:rejected:%s" % vcheck.re.sub(r"\d+", "N", str(r.get("err") or r.get("panic") or ""))[:70])
    outs = semdiff.run_wgsl_vs_ir(exe_w, exe_ir, cases, fuel=FUEL)
    constructs = {}
    for o in outs:
        stats["runs"] += 1
        k = semdiff.classify(o)
        if k == "agree":
            stats["agree"] += 1
        elif k in ("wgsl_outoffuel", "ir_outoffuel", "wgsl_timeout", "ir_timeout"):
            stats["outoffuel"] += 1
        elif k == "DIFFER" or k.startswith("ir_fail") or k.startswith("wgsl_fail"):
            c = cases[o["case"]]
            inp = c["inputs"][o["input"]]
            msg = (o["wgsl"].get("msg") or "") + "|" + (o["ir"].get("msg") or "")
            if k != "DIFFER" and "not modelled" in msg:
                stats["out_of_fragment"] += 1
                continue
            stats["differ"] += 1
            # shrink to a minimal program on which the two semantics still disagree the same way
            def status(prog):
                src = wgslgen.render(prog)
                r = nagarun.run_batch(tools["nagadrive"], "compile", [{"id": 0, "src": src, "want": ["ir"]}])[0]
                if "ir" not in r:
                    return "noir"
                w = vcheck.run_model(exe_w, [{"ast": prog, "globals": inp["globals"], "args": inp["args"], "fuel": FUEL}])[0]
                i = vcheck.run_model(exe_ir, [{"ir": r["ir"], "ep": 0, "globals": inp["globals"], "args": inp["args"], "fuel": FUEL}])[0]
                return semdiff.classify({"wgsl": w, "ir": i})
            try:
                small = shrink.shrink(c["prog"], lambda p: status(p) == k, max_rounds=3)
            except Exception:
                small = c["prog"]
            ssrc = wgslgen.render(small)
            key = "wgsl-ir:differ:" + ssrc[-120:]
            if k == "DIFFER" and only_zero_sign(o["wgsl"], o["ir"]):
                key = "wgsl-ir:const-fold:negative-zero"      # the two results differ only in the sign of a zero
            ctx.violation("WGSL->IR: the lowered IR does not compute what the WGSL program means (%s %s)" % (k, msg[:160]),
                          files={"input.wgsl": ssrc, "original.wgsl": c["src"], "inputs.json": json.dumps(inp),
                                 "wgsl_result.json": json.dumps(o["wgsl"]), "ir_result.json": json.dumps(o["ir"])},
                          key=key)
    nprobe = run_probes(ctx, tools, exe_ir)
    stats["probes"] = nprobe
    for c in cases[:2]:
        ctx.sample({"wgsl_head": c["src"][:300], "inputs": json.dumps(c["inputs"][0])[:200]})
    return stats
