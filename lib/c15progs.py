"""C15 program families (systematic enumerations, no randomness).

  zero_init_programs()      workgroup variables of every type class x every place the variable can be
                            referenced from (entry point body, helper, helper of helper, nested block, if / else /
                            switch arm, loop body, loop `continuing`, for-loop update clause, break-if, ...);
                            the FIRST access to the variable is a read whose value reaches the output buffer
  private_function_programs()  the same question for private and function variables without initialiser
                            (declared in loop bodies, switch arms, helpers called twice: zero on EVERY execution
                            of the declaration)
  index_programs()          one program per (kind of indexable object, element type): a load and a store whose
                            index comes from an input buffer, written with the macros @LOAD / @STORE that are
                            expanded to the plain access ("hostile": what naga compiles with a policy selected) and
                            to the policy written out in WGSL ("restrict" / "rzsw": the reference, run by irrun)
  OPS_EXT_SRC               hardened operators beyond OPS_SRC of checks/c15.py: shifts, float->int
"""
import re

# ----------------------------------------------------------------------------------------------
# 1. zero initialisation: where is the variable referenced from?

# (name, declarations before the variable, type, read expression of variable {v} as u32)
WG_TYPES = [
    ("u32", "", "u32", "{v}"),
    ("i32", "", "i32", "u32({v})"),
    ("f32", "", "f32", "bitcast<u32>({v})"),
    ("vec3i", "", "vec3<i32>", "u32({v}.x | {v}.z)"),
    ("arr_u32", "", "array<u32, 4>", "({v}[0] | {v}[3])"),
    ("arr_vec2f", "", "array<vec2<f32>, 3>", "bitcast<u32>({v}[2].y)"),
    ("arr_arr", "", "array<array<i32, 2>, 2>", "u32({v}[1][1])"),
    ("struct", "struct WS { a: u32, b: vec2<f32>, c: array<i32, 2> }\n", "WS", "({v}.a | bitcast<u32>({v}.b.y) | u32({v}.c[1]))"),
    ("atomic_u32", "", "atomic<u32>", "atomicLoad(&{v})"),
    ("atomic_i32", "", "atomic<i32>", "u32(atomicLoad(&{v}))"),
    ("arr_atomic", "", "array<atomic<u32>, 2>", "atomicLoad(&{v}[1])"),
    ("struct_atomic", "struct WA { n: atomic<u32>, k: u32 }\n", "WA", "(atomicLoad(&{v}.n) | {v}.k)"),
    ("mat2x2", "", "mat2x2<f32>", "bitcast<u32>({v}[1].x)"),
    ("mat3x3", "", "mat3x3<f32>", "bitcast<u32>({v}[2][1])"),
    ("mat4x2", "", "mat4x2<f32>", "bitcast<u32>({v}[3].y)"),
    ("arr_mat", "", "array<mat2x2<f32>, 2>", "bitcast<u32>({v}[1][0].y)"),
]
WG_CLASS = {"u32": "scalar", "i32": "scalar", "f32": "scalar", "vec3i": "vector", "arr_u32": "array", "arr_vec2f": "array",
            "arr_arr": "array", "struct": "struct", "atomic_u32": "atomic", "atomic_i32": "atomic", "arr_atomic": "atomic",
            "struct_atomic": "atomic", "mat2x2": "matrix", "mat3x3": "matrix", "mat4x2": "matrix", "arr_mat": "matrix"}

# the variables of one program: three types of different classes, so that 6 groups x all sites cover the cross product
WG_GROUPS = [
    ["u32", "arr_u32", "mat2x2"],
    ["i32", "struct", "atomic_u32"],
    ["f32", "arr_atomic", "mat3x3"],
    ["vec3i", "struct_atomic", "arr_vec2f"],
    ["atomic_i32", "arr_arr", "mat4x2"],
    ["arr_mat", "u32", "struct"],
]

# site name -> (helper functions, entry point body).  $R = the read of the variables (an u32 expression; only valid where
# the variables are in scope, i.e. everywhere: they are module-scope), rd() = helper returning $R.
# `lid` = local_invocation_id (always (0,0,0) in the runs, but not a constant for naga); o = array<u32, 8> output.
RD = "fn rd() -> u32 { return $R; }\n"
SITES = {
    "ep_body": ("", "o[0] = $R + 100u;"),
    "ep_let": ("", "let x = $R; o[0] = x + 100u;"),
    "ep_if": ("", "if (lid.x == 0u) { o[0] = $R + 100u; }"),
    "ep_else": ("", "if (lid.x == 1u) { o[1] = 5u; } else { o[0] = $R + 100u; }"),
    "ep_switch_case": ("", "switch (lid.x) { case 0u: { o[0] = $R + 100u; } default: { o[1] = 5u; } }"),
    "ep_loop_body": ("", "var i = 0u; loop { if (i >= 2u) { break; } o[i] = $R + 100u; i += 1u; }"),
    "ep_continuing": ("", "var i = 0u; loop { if (i >= 2u) { break; } continuing { o[i] = $R + 100u; i += 1u; } }"),
    "ep_break_if": ("", "var i = 0u; loop { i += 1u; continuing { break if ($R + i) >= 2u; } } o[0] = i + 100u;"),
    "ep_for_update": ("", "for (var i = 0u; i < 2u; i = i + 1u + $R) { o[i] = 7u; }"),
    "ep_for_cond": ("", "for (var i = 0u; (i + $R) < 2u; i += 1u) { o[i] = 7u; }"),
    "ep_ptr_arg": None,     # filled per type: helper takes ptr<workgroup, T>
    "helper_body": (RD, "o[0] = rd() + 100u;"),
    "helper_stmt_call": ("fn wr() { o[0] = $R + 100u; }\n", "wr();"),
    "helper_let": (RD, "let x = rd(); o[0] = x + 100u;"),
    "helper_var_init": (RD, "var x = rd(); x += 100u; o[0] = x;"),
    "helper_compound_assign": (RD, "o[0] = 100u; o[0] += rd();"),
    "helper_as_argument": (RD + "fn id(x: u32) -> u32 { return x; }\n", "o[0] = id(rd()) + 100u;"),
    "helper_of_helper": (RD + "fn rd2() -> u32 { return rd() + 1u; }\n", "o[0] = rd2() + 100u;"),
    "helper_of_helper_of_helper": (RD + "fn rd2() -> u32 { return rd() + 1u; }\nfn rd3() -> u32 { let t = rd2(); return t + 1u; }\n",
                                   "o[0] = rd3() + 100u;"),
    "helper_in_block": (RD, "{ { o[0] = rd() + 100u; } }"),
    "helper_in_if": (RD, "if (lid.x == 0u) { o[0] = rd() + 100u; }"),
    "helper_in_else": (RD, "if (lid.x == 1u) { o[1] = 5u; } else { o[0] = rd() + 100u; }"),
    "helper_in_else_if": (RD, "if (lid.x == 1u) { o[1] = 5u; } else if (lid.y == 0u) { o[0] = rd() + 100u; }"),
    "helper_in_if_condition": (RD, "if (rd() == 0u) { o[0] = 100u; } else { o[0] = 1u; }"),
    "helper_in_switch_case": (RD, "switch (lid.x) { case 0u: { o[0] = rd() + 100u; } default: { o[1] = 5u; } }"),
    "helper_in_switch_default": (RD, "switch (lid.x) { case 7u: { o[1] = 5u; } default: { o[0] = rd() + 100u; } }"),
    "helper_in_switch_selector": (RD, "switch (rd()) { case 0u: { o[0] = 100u; } default: { o[0] = 1u; } }"),
    "helper_in_loop_body": (RD, "var i = 0u; loop { if (i >= 2u) { break; } o[i] = rd() + 100u; i += 1u; }"),
    "helper_in_while_condition": (RD, "var i = 0u; while ((rd() + i) < 2u) { o[i] = 7u; i += 1u; }"),
    "helper_in_for_init": (RD, "for (var i = rd(); i < 2u; i += 1u) { o[i] = 7u; }"),
    "helper_in_for_condition": (RD, "for (var i = 0u; (i + rd()) < 2u; i += 1u) { o[i] = 7u; }"),
    "helper_in_for_update": ("fn adv(i: u32) -> u32 { o[i + 2u] = $R + 100u; return i + 1u; }\n",
                             "for (var i = 0u; i < 2u; i = adv(i)) { o[i] = 7u; }"),
    "helper_in_continuing": (RD, "var i = 0u; loop { if (i >= 2u) { break; } continuing { o[i] = rd() + 100u; i += 1u; } }"),
    "helper_in_continuing_if": (RD, "var i = 0u; loop { if (i >= 2u) { break; } continuing { if (lid.x == 0u) { o[i] = rd() + 100u; } i += 1u; } }"),
    "helper_in_continuing_switch": (RD, "var i = 0u; loop { if (i >= 2u) { break; } continuing { switch (lid.x) { case 0u: { o[i] = rd() + 100u; } default: { } } i += 1u; } }"),
    "helper_in_continuing_inner_loop_continuing": (
        RD, "var i = 0u; loop { if (i >= 2u) { break; } continuing { var j = 0u; loop { if (j >= 1u) { break; } continuing { o[i] = rd() + 100u; j += 1u; } } i += 1u; } }"),
    "helper_in_break_if": (RD, "var i = 0u; loop { i += 1u; continuing { break if (rd() + i) >= 2u; } } o[0] = i + 100u;"),
    "helper_in_nested_loop_continuing": (
        RD, "for (var k = 0u; k < 2u; k += 1u) { if (lid.x == 0u) { var i = 0u; loop { if (i >= 2u) { break; } continuing { o[k * 2u + i] = rd() + 100u; i += 1u; } } } }"),
    "helper_with_loop_calls_helper_in_continuing": (
        "fn adv(i: u32) -> u32 { o[i + 2u] = $R + 100u; return i + 1u; }\n"
        "fn h() -> u32 { var s = 0u; for (var i = 0u; i < 2u; i = adv(i)) { s += 1u; } return s; }\n",
        "o[0] = h() + 100u;"),
    "helper_called_only_from_second_loop_continuing": (
        RD, "var i = 0u; loop { if (i >= 1u) { break; } continuing { i += 1u; } } "
            "var j = 0u; loop { if (j >= 2u) { break; } continuing { o[j] = rd() + 100u; j += 1u; } }"),
}

# sites where the seeded class of defect lives (references reachable only through a loop's continuing block)
CONTINUING_SITES = [s for s in SITES if "continuing" in s or "for_update" in s or "break_if" in s]


def _wg_decls(group, space="workgroup"):
    pre = ""
    decls = ""
    reads = []
    seen = set()
    for k, tn in enumerate(group):
        _n, d, ty, rd = [t for t in WG_TYPES if t[0] == tn][0]
        if d and d not in seen:
            pre += d
            seen.add(d)
        decls += "var<%s> w%d: %s;\n" % (space, k, ty)
        reads.append(rd.format(v="w%d" % k))
    return pre, decls, "(" + " | ".join(reads) + ")", [[t for t in WG_TYPES if t[0] == tn][0] for tn in group]


# the text back ends initialise aggregates that contain atomics element by element; their interpreters do not model
# partially initialised variables, so those types get programs of their own (counted outside the fragment there)
WG_GROUPS_TEXT = [
    ["u32", "arr_u32", "mat2x2"],
    ["i32", "struct", "atomic_u32"],
    ["f32", "vec3i", "mat3x3"],
    ["arr_vec2f", "atomic_i32", "mat4x2"],
    ["arr_mat", "arr_arr", "u32"],
    ["arr_atomic"],
    ["struct_atomic"],
]


def zero_init_programs(with_direct=True, groups=None):
    """-> [(name, src, {"site":.., "types":[..]})]"""
    out = []
    for gi, group in enumerate(groups or WG_GROUPS):
        pre, decls, R, tys = _wg_decls(group)
        for si, (site, tpl) in enumerate(SITES.items()):
            if tpl is None:
                # pointer arguments: one helper per variable
                helpers = ""
                calls = []
                for k, (_n, _d, ty, rd) in enumerate(tys):
                    helpers += "fn rp%d(p: ptr<workgroup, %s>) -> u32 { return %s; }\n" % (k, ty, rd.format(v="(*p)"))
                    calls.append("rp%d(&w%d)" % (k, k))
                body = "o[0] = (%s) + 100u;" % " | ".join(calls)
            else:
                helpers, body = tpl
                helpers = helpers.replace("$R", R)
                body = body.replace("$R", R)
            # every other program also has a second workgroup variable referenced directly by the entry point
            direct = with_direct and (gi + si) % 2 == 0
            src = (pre + decls + ("var<workgroup> direct: u32;\n" if direct else "")
                   + "@group(0) @binding(0) var<storage, read_write> o: array<u32, 8>;\n" + helpers
                   + "@compute @workgroup_size(1)\nfn main(@builtin(local_invocation_id) lid: vec3<u32>) {\n"
                   + ("  direct = direct + 1u; o[7] = direct;\n" if direct else "")
                   + "  " + body + "\n}\n")
            out.append(("zi_%s_g%d" % (site, gi), src, {"site": site, "types": list(group), "space": "workgroup"}))
    return out


# several entry points in ONE module sharing helpers (what an entry point uses is computed per entry point, possibly
# with results cached per helper): call graphs in which a LATER entry point reaches the variables only through a helper
# that an EARLIER entry point already walked.  -> [(name, src, meta)], meta["ep"] = the entry point to run
MULTI_EP = {
    "diamond_ab_then_b": ("fn leaf() -> u32 { return $R; }\nfn side_a() -> u32 { return leaf() + 1u; }\nfn side_b() -> u32 { return leaf() + 2u; }\n",
                          [("pass_a", "o[0] = side_a() + side_b() + 100u;"), ("pass_b", "o[0] = side_b() + 100u;")]),
    "diamond_ba_then_a": ("fn leaf() -> u32 { return $R; }\nfn side_a() -> u32 { return leaf() + 1u; }\nfn side_b() -> u32 { return leaf() + 2u; }\n",
                          [("pass_a", "o[0] = side_b() + side_a() + 100u;"), ("pass_b", "o[0] = side_a() + 100u;")]),
    "chain_shared_leaf_three_entry_points": (
        "fn leaf() -> u32 { return $R; }\nfn mid() -> u32 { return leaf() + 1u; }\nfn top_a() -> u32 { return mid() + leaf(); }\nfn top_b() -> u32 { return mid() + 2u; }\n",
        [("pass_a", "o[0] = top_a() + 100u;"), ("pass_b", "o[0] = top_b() + 100u;"), ("pass_c", "o[0] = mid() + 100u;")]),
    "leaf_direct_then_via_helper_in_continuing": (
        "fn leaf() -> u32 { return $R; }\nfn side_b() -> u32 { return leaf() + 2u; }\n",
        [("pass_a", "o[0] = leaf() + side_b() + 100u;"),
         ("pass_b", "var i = 0u; loop { if (i >= 2u) { break; } continuing { o[i] = side_b() + 100u; i += 1u; } }")]),
}


def multi_entry_programs(groups=None):
    out = []
    for gi, group in enumerate((groups or WG_GROUPS)[:3]):
        pre, decls, R, _tys = _wg_decls(group)
        for site, (helpers, eps) in MULTI_EP.items():
            src = pre + decls + "@group(0) @binding(0) var<storage, read_write> o: array<u32, 8>;\n" + helpers.replace("$R", R)
            for epn, body in eps:
                src += "@compute @workgroup_size(1)\nfn %s(@builtin(local_invocation_id) lid: vec3<u32>) {\n  %s\n}\n" % (epn, body.replace("$R", R))
            for epn, _b in eps:
                out.append(("zi_%s_g%d@%s" % (site, gi, epn), src, {"site": site + ":" + epn, "types": list(group), "space": "workgroup", "ep": epn}))
    return out


# private / function variables without initialiser: zero on every execution of the declaration
PF_TYPES = [t for t in WG_TYPES if "atomic" not in t[0]]


def private_function_programs():
    out = []
    hdr = "@group(0) @binding(0) var<storage, read_write> o: array<u32, 8>;\n"
    ep = "@compute @workgroup_size(1)\nfn main(@builtin(local_invocation_id) lid: vec3<u32>) {\n  %s\n}\n"
    for (tn, d, ty, rd) in PF_TYPES:
        R = rd.format(v="p")
        # private: read in the entry point / in a helper / in a helper called from a continuing block
        out.append(("pz_private_ep_%s" % tn, d + "var<private> p: %s;\n" % ty + hdr + ep % ("o[0] = %s + 100u;" % R),
                    {"site": "ep_body", "types": [tn], "space": "private"}))
        out.append(("pz_private_helper_continuing_%s" % tn,
                    d + "var<private> p: %s;\n" % ty + hdr + "fn rd() -> u32 { return %s; }\n" % R
                    + ep % "var i = 0u; loop { if (i >= 2u) { break; } continuing { o[i] = rd() + 100u; i += 1u; } }",
                    {"site": "helper_in_continuing", "types": [tn], "space": "private"}))
        # function: declared at the top / in a loop body (fresh zero on every iteration) / in a switch arm / in a helper called twice
        out.append(("pz_function_top_%s" % tn, d + hdr + ep % ("var p: %s; o[0] = %s + 100u;" % (ty, R)),
                    {"site": "ep_body", "types": [tn], "space": "function"}))
        out.append(("pz_function_loop_body_%s" % tn,
                    d + hdr + ep % ("for (var i = 0u; i < 3u; i += 1u) { var p: %s; o[i] = %s + 100u; p = o_dirty(); }" % (ty, R)),
                    {"site": "loop_body", "types": [tn], "space": "function"}))
        out.append(("pz_function_switch_arm_%s" % tn,
                    d + hdr + ep % ("switch (lid.x) { case 0u: { var p: %s; o[0] = %s + 100u; } default: { } }" % (ty, R)),
                    {"site": "switch_arm", "types": [tn], "space": "function"}))
        out.append(("pz_function_helper_twice_%s" % tn,
                    d + hdr + "fn h(k: u32) { var p: %s; o[k] = %s + 100u; p = o_dirty(); }\n" % (ty, R) + ep % "h(0u); h(1u);",
                    {"site": "helper_twice", "types": [tn], "space": "function"}))
    # o_dirty(): a non-zero value of the variable's type, so that the variable is dirty when its declaration is reached again
    res = []
    for name, src, meta in out:
        tn = meta["types"][0]
        ty = [t for t in PF_TYPES if t[0] == tn][0][2]
        if "o_dirty()" in src:
            src = src.replace("p = o_dirty();", DIRTY[tn])
        res.append((name, src, meta))
    return res


DIRTY = {
    "u32": "p = 9u;", "i32": "p = -9;", "f32": "p = 9.0;", "vec3i": "p = vec3<i32>(9, 9, 9);",
    "arr_u32": "p[0] = 9u; p[3] = 9u;", "arr_vec2f": "p[2] = vec2<f32>(9.0, 9.0);", "arr_arr": "p[1][1] = 9;",
    "struct": "p.a = 9u; p.b = vec2<f32>(9.0, 9.0); p.c[1] = 9;",
    "mat2x2": "p[1] = vec2<f32>(9.0, 9.0);", "mat3x3": "p[2] = vec3<f32>(9.0, 9.0, 9.0);", "mat4x2": "p[3] = vec2<f32>(9.0, 9.0);",
    "arr_mat": "p[1][0] = vec2<f32>(9.0, 9.0);",
}


# ----------------------------------------------------------------------------------------------
# 2. hostile indices: one program per (kind of indexable object, element type)
#
# macros (| separated; expanded three ways by expand()):
#   @LOAD{dst|obj|i|n|zero}            dst = obj[i]
#   @STORE{obj|i|n|val}                obj[i] = val
#   @RMW{obj|i|n|val}                  obj[i] += val
#   @LOAD2{dst|obj|i|ni|mid|j|nj|zero} dst = obj[i]mid[j]      (mid: "" or a member path)
#   @STORE2{obj|i|ni|mid|j|nj|val}     obj[i]mid[j] = val
#   @ALOAD{dst|obj|i|n}                dst = atomicLoad(&obj[i])
#   @AADD{dst|obj|i|n|val}             dst = atomicAdd(&obj[i], val)
#   @ASTORE{obj|i|n|val}               atomicStore(&obj[i], val)

def expand(src, variant):
    def sp(m):
        return [x.strip() for x in m.group(1).split("|")]

    def cl(i, n):
        return "min(u32(%s), (%s) - 1u)" % (i, n)

    def ok(i, n):
        return "u32(%s) < (%s)" % (i, n)

    def load(m):
        dst, obj, i, n, zero = sp(m)
        if variant == "hostile":
            return "%s = %s[%s];" % (dst, obj, i)
        if variant == "restrict":
            return "%s = %s[%s];" % (dst, obj, cl(i, n))
        return "if (%s) { %s = %s[%s]; } else { %s = %s; }" % (ok(i, n), dst, obj, i, dst, zero)

    def store(m, op="="):
        obj, i, n, val = sp(m)
        if variant == "hostile":
            return "%s[%s] %s %s;" % (obj, i, op, val)
        if variant == "restrict":
            return "%s[%s] %s %s;" % (obj, cl(i, n), op, val)
        return "if (%s) { %s[%s] %s %s; }" % (ok(i, n), obj, i, op, val)

    def load2(m):
        dst, obj, i, ni, mid, j, nj, zero = sp(m)
        if variant == "hostile":
            return "%s = %s[%s]%s[%s];" % (dst, obj, i, mid, j)
        if variant == "restrict":
            return "%s = %s[%s]%s[%s];" % (dst, obj, cl(i, ni), mid, cl(j, nj))
        return "if (%s && %s) { %s = %s[%s]%s[%s]; } else { %s = %s; }" % (ok(i, ni), ok(j, nj), dst, obj, i, mid, j, dst, zero)

    def store2(m):
        obj, i, ni, mid, j, nj, val = sp(m)
        if variant == "hostile":
            return "%s[%s]%s[%s] = %s;" % (obj, i, mid, j, val)
        if variant == "restrict":
            return "%s[%s]%s[%s] = %s;" % (obj, cl(i, ni), mid, cl(j, nj), val)
        return "if (%s && %s) { %s[%s]%s[%s] = %s; }" % (ok(i, ni), ok(j, nj), obj, i, mid, j, val)

    def aload(m):
        dst, obj, i, n = sp(m)
        if variant == "hostile":
            return "%s = atomicLoad(&%s[%s]);" % (dst, obj, i)
        if variant == "restrict":
            return "%s = atomicLoad(&%s[%s]);" % (dst, obj, cl(i, n))
        return "if (%s) { %s = atomicLoad(&%s[%s]); } else { %s = 0u; }" % (ok(i, n), dst, obj, i, dst)

    def aadd(m):
        dst, obj, i, n, val = sp(m)
        if variant == "hostile":
            return "%s = atomicAdd(&%s[%s], %s);" % (dst, obj, i, val)
        if variant == "restrict":
            return "%s = atomicAdd(&%s[%s], %s);" % (dst, obj, cl(i, n), val)
        return "if (%s) { %s = atomicAdd(&%s[%s], %s); } else { %s = 0u; }" % (ok(i, n), dst, obj, i, val, dst)

    def astore(m):
        obj, i, n, val = sp(m)
        if variant == "hostile":
            return "atomicStore(&%s[%s], %s);" % (obj, i, val)
        if variant == "restrict":
            return "atomicStore(&%s[%s], %s);" % (obj, cl(i, n), val)
        return "if (%s) { atomicStore(&%s[%s], %s); }" % (ok(i, n), obj, i, val)

    src = re.sub(r"@LOAD2\{([^}]*)\}", load2, src)
    src = re.sub(r"@STORE2\{([^}]*)\}", store2, src)
    src = re.sub(r"@ALOAD\{([^}]*)\}", aload, src)
    src = re.sub(r"@AADD\{([^}]*)\}", aadd, src)
    src = re.sub(r"@ASTORE\{([^}]*)\}", astore, src)
    src = re.sub(r"@LOAD\{([^}]*)\}", load, src)
    src = re.sub(r"@STORE\{([^}]*)\}", store, src)
    src = re.sub(r"@RMW\{([^}]*)\}", lambda m: store(m, "+="), src)
    return src


# element types: WGSL type, declarations, zero value, a non-zero value, projection of {x} to u32, size, stride (as array element)
ELEM = {
    "u32": dict(ty="u32", decl="", zero="0u", val="77u", proj="{x}", size=4, stride=4),
    "i32": dict(ty="i32", decl="", zero="0", val="-77", proj="u32({x})", size=4, stride=4),
    "f32": dict(ty="f32", decl="", zero="0.0", val="7.5", proj="bitcast<u32>({x})", size=4, stride=4),
    "vec2f": dict(ty="vec2<f32>", decl="", zero="vec2<f32>()", val="vec2<f32>(7.5, 8.5)",
                  proj="(bitcast<u32>({x}.x) + 3u * bitcast<u32>({x}.y))", size=8, stride=8),
    "vec3f": dict(ty="vec3<f32>", decl="", zero="vec3<f32>()", val="vec3<f32>(7.5, 8.5, 9.5)",
                  proj="(bitcast<u32>({x}.x) + 3u * bitcast<u32>({x}.y) + 5u * bitcast<u32>({x}.z))", size=12, stride=16),
    "vec3i": dict(ty="vec3<i32>", decl="", zero="vec3<i32>()", val="vec3<i32>(7, -8, 9)",
                  proj="(u32({x}.x) + 3u * u32({x}.y) + 5u * u32({x}.z))", size=12, stride=16),
    "vec3u": dict(ty="vec3<u32>", decl="", zero="vec3<u32>()", val="vec3<u32>(7u, 8u, 9u)",
                  proj="({x}.x + 3u * {x}.y + 5u * {x}.z)", size=12, stride=16),
    "vec4f": dict(ty="vec4<f32>", decl="", zero="vec4<f32>()", val="vec4<f32>(7.5, 8.5, 9.5, 10.5)",
                  proj="(bitcast<u32>({x}.x) + 3u * bitcast<u32>({x}.w))", size=16, stride=16),
    "vec4u": dict(ty="vec4<u32>", decl="", zero="vec4<u32>()", val="vec4<u32>(7u, 8u, 9u, 10u)",
                  proj="({x}.x + 3u * {x}.w)", size=16, stride=16),
    "mat2x2": dict(ty="mat2x2<f32>", decl="", zero="mat2x2<f32>()", val="mat2x2<f32>(1.5, 2.5, 3.5, 4.5)",
                   proj="(bitcast<u32>({x}[0].x) + 3u * bitcast<u32>({x}[1].y))", size=16, stride=16),
    "mat3x3": dict(ty="mat3x3<f32>", decl="", zero="mat3x3<f32>()", val="mat3x3<f32>(1.5, 2.5, 3.5, 4.5, 5.5, 6.5, 7.5, 8.5, 9.5)",
                   proj="(bitcast<u32>({x}[0].x) + 3u * bitcast<u32>({x}[2].z))", size=48, stride=48),
    "s12": dict(ty="S12", decl="struct S12 { a: u32, b: u32, c: u32 }\n", zero="S12()", val="S12(7u, 8u, 9u)",
                proj="({x}.a + 3u * {x}.b + 5u * {x}.c)", size=12, stride=12),
    "s16": dict(ty="S16", decl="struct S16 { v: vec3<f32>, w: f32 }\n", zero="S16()", val="S16(vec3<f32>(7.5, 8.5, 9.5), 10.5)",
                proj="(bitcast<u32>({x}.v.z) + 3u * bitcast<u32>({x}.w))", size=16, stride=16),
    "s32": dict(ty="S32", decl="struct S32 { v: vec3<f32>, k: vec3<i32> }\n", zero="S32()", val="S32(vec3<f32>(7.5, 8.5, 9.5), vec3<i32>(1, -2, 3))",
                proj="(bitcast<u32>({x}.v.z) + 3u * u32({x}.k.z))", size=32, stride=32),
    "arr2vec3": dict(ty="array<vec3<f32>, 2>", decl="", zero="array<vec3<f32>, 2>()",
                     val="array<vec3<f32>, 2>(vec3<f32>(7.5, 8.5, 9.5), vec3<f32>(1.5, 2.5, 3.5))",
                     proj="(bitcast<u32>({x}[0].z) + 3u * bitcast<u32>({x}[1].z))", size=32, stride=32),
}

HDR = ("@group(0) @binding(0) var<storage, read_write> o: array<u32, 16>;\n"
       "@group(0) @binding(1) var<storage, read> ix: array<%s, 4>;\n")
EP = "@compute @workgroup_size(1)\nfn main() {\n%s}\n"


def _body(lines):
    return "".join("  " + l + "\n" for l in lines)


def index_programs():
    """-> [(name, macro source, meta)]; meta: kind = "index" | "buffer" (which MSL policy governs the access),
    len = [length of each dynamically indexed level] or "rt" for a runtime-sized array (then elem = element type),
    signed = the index buffer holds i32, levels = number of hostile indices used (ix[0] load, ix[1] store; with two
    levels ix[2], ix[3] are the inner indices), known = C15 finding key family this program is about (or None)"""
    P = []

    def add(name, src, kind, length, **kw):
        meta = {"kind": kind, "len": length, "signed": False, "levels": 1, "elem": None, "offset": 0}
        meta.update(kw)
        P.append(("ix_" + name, src, meta))

    # ---- A/B: runtime-sized storage arrays, global and as the last struct member, every element type
    for en, e in ELEM.items():
        pj = e["proj"].format(x="a")
        body = _body(["var a: %s;" % e["ty"],
                      "@LOAD{a|data|ix[0]|arrayLength(&data)|%s}" % e["zero"],
                      "@STORE{data|ix[1]|arrayLength(&data)|%s}" % e["val"],
                      "o[0] = %s;" % pj])
        add("rt_global_%s" % en, e["decl"] + HDR % "u32" + "@group(0) @binding(2) var<storage, read_write> data: array<%s>;\n" % e["ty"] + EP % body,
            "buffer", "rt", elem=en, restrict_family="rt-global-array")
        al = 16 if e["stride"] % 16 == 0 else (8 if e["stride"] % 8 == 0 else 4)
        body = _body(["var a: %s;" % e["ty"],
                      "@LOAD{a|h.items|ix[0]|arrayLength(&h.items)|%s}" % e["zero"],
                      "@STORE{h.items|ix[1]|arrayLength(&h.items)|%s}" % e["val"],
                      "o[0] = %s; o[1] = h.n;" % pj])
        add("rt_member_%s" % en, e["decl"] + "struct H { n: u32, items: array<%s> }\n" % e["ty"] + HDR % "u32"
            + "@group(0) @binding(2) var<storage, read_write> h: H;\n" + EP % body, "buffer", "rt", elem=en, offset=al)
    # member after a larger prefix (offset 32 / 48) and read-modify-write
    for en in ("vec3f", "u32"):
        e = ELEM[en]
        body = _body(["var a: %s;" % e["ty"],
                      "@LOAD{a|h.items|ix[0]|arrayLength(&h.items)|%s}" % e["zero"],
                      "@RMW{h.items|ix[1]|arrayLength(&h.items)|%s}" % e["val"],
                      "o[0] = %s;" % e["proj"].format(x="a")])
        add("rt_member_prefix_rmw_%s" % en, "struct H2 { n: vec4<u32>, m: mat2x2<f32>, k: u32, items: array<%s> }\n" % e["ty"] + HDR % "u32"
            + "@group(0) @binding(2) var<storage, read_write> h: H2;\n" + EP % body, "buffer", "rt", elem=en,
            offset=48 if en == "vec3f" else 36)
    # signed index into runtime arrays
    for en in ("vec3f", "u32"):
        e = ELEM[en]
        body = _body(["var a: %s;" % e["ty"],
                      "@LOAD{a|data|ix[0]|arrayLength(&data)|%s}" % e["zero"],
                      "@STORE{data|ix[1]|arrayLength(&data)|%s}" % e["val"],
                      "o[0] = %s;" % e["proj"].format(x="a")])
        add("rt_global_signed_%s" % en, HDR % "i32" + "@group(0) @binding(2) var<storage, read_write> data: array<%s>;\n" % e["ty"] + EP % body,
            "buffer", "rt", elem=en, signed=True, restrict_family="rt-global-array")
    # read-only runtime array (loads only)
    body = _body(["var a: vec3<u32>;", "@LOAD{a|data|ix[0]|arrayLength(&data)|vec3<u32>()}", "o[0] = a.x + 3u * a.y + 5u * a.z;"])
    add("rt_global_readonly_vec3u", HDR % "u32" + "@group(0) @binding(2) var<storage, read> data: array<vec3<u32>>;\n" + EP % body,
        "buffer", "rt", elem="vec3u", restrict_family="rt-global-array")
    # two levels: runtime array of vec3 -> component; runtime array of struct -> fixed array member
    body = _body(["var a: f32;", "@LOAD2{a|data|ix[0]|arrayLength(&data)||ix[2]|3u|0.0}",
                  "@STORE2{data|ix[1]|arrayLength(&data)||ix[3]|3u|7.5}", "o[0] = bitcast<u32>(a);"])
    add("rt_global_vec3f_component", HDR % "u32" + "@group(0) @binding(2) var<storage, read_write> data: array<vec3<f32>>;\n" + EP % body,
        "buffer", ["rt", 3], elem="vec3f", levels=2, restrict_family="rt-global-array")
    body = _body(["var a: i32;", "@LOAD2{a|data|ix[0]|arrayLength(&data)|.k|ix[2]|3u|0}",
                  "@STORE2{data|ix[1]|arrayLength(&data)|.k|ix[3]|3u|-7}", "o[0] = u32(a);"])
    add("rt_global_struct_inner_array", "struct E { v: vec3<f32>, k: array<i32, 3> }\n" + HDR % "u32"
        + "@group(0) @binding(2) var<storage, read_write> data: array<E>;\n" + EP % body, "buffer", ["rt", 3], elem="E28", levels=2, restrict_family="rt-global-array")
    # atomics in a runtime-sized array
    body = _body(["var a: u32; var b: u32;", "@ALOAD{a|data|ix[0]|arrayLength(&data)}", "@AADD{b|data|ix[1]|arrayLength(&data)|5u}",
                  "@ASTORE{data|ix[0]|arrayLength(&data)|9u}", "o[0] = a; o[1] = b;"])
    add("rt_global_atomic", HDR % "u32" + "@group(0) @binding(2) var<storage, read_write> data: array<atomic<u32>>;\n" + EP % body,
        "buffer", "rt", elem="u32", atomic=True, restrict_family="rt-global-array")
    # through a pointer parameter (recorded finding of C04: the callee's guard uses length 1 + 0)
    body = _body(["o[0] = get(&data, ix[0]);", "put(&data, ix[1], 77u);"])
    add("rt_pointer_param_u32", HDR % "u32" + "@group(0) @binding(2) var<storage, read_write> data: array<u32>;\n"
        "fn get(p: ptr<storage, array<u32>, read_write>, i: u32) -> u32 { var r: u32; @LOAD{r|(*p)|i|arrayLength(p)|0u} return r; }\n"
        "fn put(p: ptr<storage, array<u32>, read_write>, i: u32, v: u32) { @STORE{(*p)|i|arrayLength(p)|v} }\n" + EP % body,
        "buffer", "rt", elem="u32", family="rt-pointer-param")

    # ---- C: fixed-size arrays in storage (top level, struct member), uniform
    for en in ("u32", "vec3f", "mat2x2", "s12"):
        e = ELEM[en]
        body = _body(["var a: %s;" % e["ty"], "@LOAD{a|d|ix[0]|4u|%s}" % e["zero"], "@STORE{d|ix[1]|4u|%s}" % e["val"],
                      "o[0] = %s;" % e["proj"].format(x="a")])
        add("storage_fixed_%s" % en, e["decl"] + HDR % "u32" + "@group(0) @binding(2) var<storage, read_write> d: array<%s, 4>;\n" % e["ty"] + EP % body,
            "buffer", [4])
        body = _body(["var a: %s;" % e["ty"], "@LOAD{a|s.d|ix[0]|3u|%s}" % e["zero"], "@RMW{s.d|ix[1]|3u|%s}" % e["val"] if en in ("u32", "vec3f") else
                      "@STORE{s.d|ix[1]|3u|%s}" % e["val"], "o[0] = %s; o[1] = s.tail;" % e["proj"].format(x="a")])
        add("storage_member_%s" % en, e["decl"] + "struct SM { head: u32, d: array<%s, 3>, tail: u32 }\n" % e["ty"] + HDR % "u32"
            + "@group(0) @binding(2) var<storage, read_write> s: SM;\n" + EP % body, "buffer", [3])
    for en in ("vec4u", "vec3f", "s16", "mat2x2"):
        e = ELEM[en]
        body = _body(["var a: %s;" % e["ty"], "@LOAD{a|u.d|ix[0]|3u|%s}" % e["zero"], "o[0] = %s;" % e["proj"].format(x="a")])
        add("uniform_member_%s" % en, e["decl"] + "struct UM { d: array<%s, 3>, tail: vec4<u32> }\n" % e["ty"] + HDR % "u32"
            + "@group(0) @binding(2) var<uniform> u: UM;\n" + EP % body, "buffer", [3])
    # nested fixed arrays in storage: array of arrays, array of structs with an array, matrix column / component
    body = _body(["var a: u32;", "@LOAD2{a|d|ix[0]|2u||ix[2]|3u|0u}", "@STORE2{d|ix[1]|2u||ix[3]|3u|77u}", "o[0] = a;"])
    add("storage_array_of_arrays", HDR % "u32" + "@group(0) @binding(2) var<storage, read_write> d: array<array<u32, 3>, 2>;\n" + EP % body,
        "buffer", [2, 3], levels=2)
    body = _body(["var a: f32;", "@LOAD2{a|s.es|ix[0]|2u|.v|ix[2]|3u|0.0}", "@STORE2{s.es|ix[1]|2u|.v|ix[3]|3u|7.5}", "o[0] = bitcast<u32>(a);"])
    add("storage_struct_array_vector", "struct E { k: array<i32, 3>, v: vec3<f32> }\nstruct SS { es: array<E, 2> }\n" + HDR % "u32"
        + "@group(0) @binding(2) var<storage, read_write> s: SS;\n" + EP % body, "buffer", [2, 3], levels=2)
    body = _body(["var a: vec2<f32>; var b: f32;", "@LOAD{a|s.m|ix[0]|3u|vec2<f32>()}", "@STORE{s.m|ix[1]|3u|vec2<f32>(7.5, 8.5)}",
                  "@LOAD2{b|s.m|ix[0]|3u||ix[2]|2u|0.0}", "@STORE2{s.m|ix[1]|3u||ix[3]|2u|9.5}",
                  "o[0] = bitcast<u32>(a.x) + 3u * bitcast<u32>(a.y); o[1] = bitcast<u32>(b);"])
    add("storage_matrix_column_component", "struct SMt { m: mat3x2<f32>, pad: f32 }\n" + HDR % "u32"
        + "@group(0) @binding(2) var<storage, read_write> s: SMt;\n" + EP % body, "buffer", [3, 2], levels=2)
    body = _body(["var a: u32;", "@LOAD{a|s.v|ix[0]|3u|0u}", "@STORE{s.v|ix[1]|3u|77u}", "o[0] = a;"])
    add("storage_vector_component", "struct SV { v: vec3<u32>, t: u32 }\n" + HDR % "u32"
        + "@group(0) @binding(2) var<storage, read_write> s: SV;\n" + EP % body, "buffer", [3])

    # ---- E/F: function, private, workgroup arrays; vectors; matrices
    def dump(obj, n, proj, base=4):
        return " ".join("o[%d] = %s;" % (base + k, proj.format(x="%s[%d]" % (obj, k))) for k in range(n))
    for en in ("u32", "vec3f", "s12", "mat2x2"):
        e = ELEM[en]
        body = _body(["var la: array<%s, 4>;" % e["ty"], "la[0] = %s; la[3] = %s;" % (e["val"], e["val"]), "var a: %s;" % e["ty"],
                      "@LOAD{a|la|ix[0]|4u|%s}" % e["zero"], "@STORE{la|ix[1]|4u|%s}" % e["val"],
                      "o[0] = %s; %s" % (e["proj"].format(x="a"), dump("la", 4, e["proj"]))])
        add("function_array_%s" % en, e["decl"] + HDR % "u32" + EP % body, "index", [4])
        body = _body(["pa[1] = %s;" % e["val"], "var a: %s;" % e["ty"], "@LOAD{a|pa|ix[0]|3u|%s}" % e["zero"], "@RMW{pa|ix[1]|3u|%s}" % e["val"]
                      if en in ("u32", "vec3f") else "@STORE{pa|ix[1]|3u|%s}" % e["val"],
                      "o[0] = %s; %s" % (e["proj"].format(x="a"), dump("pa", 3, e["proj"]))])
        add("private_array_%s" % en, e["decl"] + "var<private> pa: array<%s, 3>;\n" % e["ty"] + HDR % "u32" + EP % body, "index", [3])
        body = _body(["wa[4] = %s;" % e["val"], "var a: %s;" % e["ty"], "@LOAD{a|wa|ix[0]|5u|%s}" % e["zero"], "@STORE{wa|ix[1]|5u|%s}" % e["val"],
                      "o[0] = %s; %s" % (e["proj"].format(x="a"), dump("wa", 5, e["proj"]))])
        add("workgroup_array_%s" % en, e["decl"] + "var<workgroup> wa: array<%s, 5>;\n" % e["ty"] + HDR % "u32" + EP % body, "index", [5])
    body = _body(["var a: u32; var b: u32;", "@ALOAD{a|wa|ix[0]|4u}", "@AADD{b|wa|ix[1]|4u|5u}", "@ASTORE{wa|ix[0]|4u|9u}",
                  "o[0] = a; o[1] = b; o[4] = atomicLoad(&wa[0]); o[5] = atomicLoad(&wa[1]); o[6] = atomicLoad(&wa[2]); o[7] = atomicLoad(&wa[3]);"])
    add("workgroup_array_atomic", "var<workgroup> wa: array<atomic<u32>, 4>;\n" + HDR % "u32" + EP % body, "index", [4], atomic=True)
    for n in (2, 3, 4):
        for sc, zero, val, proj in (("u32", "0u", "77u", "{x}"), ("f32", "0.0", "7.5", "bitcast<u32>({x})"), ("i32", "0", "-77", "u32({x})")):
            if (n, sc) in ((2, "i32"), (4, "i32"), (2, "u32")):
                continue
            ctor = "vec%d<%s>(%s)" % (n, sc, ", ".join(({"u32": "%du", "f32": "%d.5", "i32": "-%d"}[sc]) % (k + 1) for k in range(n)))
            body = _body(["var v = %s;" % ctor, "var a: %s;" % sc, "@LOAD{a|v|ix[0]|%du|%s}" % (n, zero), "@STORE{v|ix[1]|%du|%s}" % (n, val),
                          "o[0] = %s; %s" % (proj.format(x="a"), dump("v", n, proj))])
            add("function_vec%d_%s" % (n, sc), HDR % "u32" + EP % body, "index", [n])
    body = _body(["pv = vec3<u32>(1u, 2u, 3u);", "var a: u32;", "@LOAD{a|pv|ix[0]|3u|0u}", "@STORE{pv|ix[1]|3u|77u}", "o[0] = a; " + dump("pv", 3, "{x}")])
    add("private_vec3_u32", "var<private> pv: vec3<u32>;\n" + HDR % "u32" + EP % body, "index", [3])
    for (c, r) in ((2, 2), (3, 3), (4, 2), (2, 4)):
        cols = ", ".join("vec%d<f32>(%s)" % (r, ", ".join("%d.5" % (k * r + q + 1) for q in range(r))) for k in range(c))
        pr = "bitcast<u32>({x}.x) + 3u * bitcast<u32>({x}.y)"
        body = _body(["var m = mat%dx%d<f32>(%s);" % (c, r, cols), "var a: vec%d<f32>; var b: f32;" % r,
                      "@LOAD{a|m|ix[0]|%du|vec%d<f32>()}" % (c, r), "@STORE{m|ix[1]|%du|vec%d<f32>(%s)}" % (c, r, ", ".join(["9.5"] * r)),
                      "@LOAD2{b|m|ix[0]|%du||ix[2]|%du|0.0}" % (c, r), "@STORE2{m|ix[1]|%du||ix[3]|%du|8.5}" % (c, r),
                      "o[0] = %s; o[1] = bitcast<u32>(b); %s" % (pr.format(x="a"), dump("m", c, "(" + pr + ")"))])
        add("function_mat%dx%d" % (c, r), HDR % "u32" + EP % body, "index", [c, r], levels=2)
    # nested in function space
    body = _body(["var n2: array<array<u32, 3>, 2>;", "n2[1][2] = 5u; n2[0][0] = 6u;", "var a: u32;", "@LOAD2{a|n2|ix[0]|2u||ix[2]|3u|0u}",
                  "@STORE2{n2|ix[1]|2u||ix[3]|3u|77u}", "o[0] = a; o[4] = n2[0][0]; o[5] = n2[0][1]; o[6] = n2[0][2]; o[7] = n2[1][0]; o[8] = n2[1][1]; o[9] = n2[1][2];"])
    add("function_array_of_arrays", HDR % "u32" + EP % body, "index", [2, 3], levels=2)
    body = _body(["var es: array<FE, 2>;", "es[1].k[2] = 5; es[0].v = vec3<f32>(1.5, 2.5, 3.5);", "var a: i32; var b: f32;",
                  "@LOAD2{a|es|ix[0]|2u|.k|ix[2]|3u|0}", "@STORE2{es|ix[1]|2u|.k|ix[3]|3u|-7}",
                  "@LOAD2{b|es|ix[0]|2u|.v|ix[2]|3u|0.0}", "@STORE2{es|ix[1]|2u|.v|ix[3]|3u|7.5}",
                  "o[0] = u32(a); o[1] = bitcast<u32>(b); o[4] = u32(es[0].k[0] + es[0].k[1] * 3 + es[0].k[2] * 5); o[5] = u32(es[1].k[0] + es[1].k[1] * 3 + es[1].k[2] * 5);"
                  " o[6] = bitcast<u32>(es[0].v.x) + 3u * bitcast<u32>(es[0].v.y) + 5u * bitcast<u32>(es[0].v.z);"
                  " o[7] = bitcast<u32>(es[1].v.x) + 3u * bitcast<u32>(es[1].v.y) + 5u * bitcast<u32>(es[1].v.z);"])
    add("function_struct_array_vector", "struct FE { k: array<i32, 3>, v: vec3<f32> }\n" + HDR % "u32" + EP % body, "index", [2, 3], levels=2)
    # signed indices into a function array and a vector
    body = _body(["var la = array<u32, 4>(1u, 2u, 3u, 4u);", "var v = vec3<u32>(5u, 6u, 7u);", "var a: u32; var b: u32;",
                  "@LOAD{a|la|ix[0]|4u|0u}", "@STORE{la|ix[1]|4u|77u}", "@LOAD{b|v|ix[0]|3u|0u}", "@STORE{v|ix[1]|3u|78u}",
                  "o[0] = a; o[1] = b; " + dump("la", 4, "{x}") + " " + dump("v", 3, "{x}", 8)])
    add("function_array_vector_signed", HDR % "i32" + EP % body, "index", [3], signed=True)   # len 3: the smaller of the two objects

    # ---- J: pointer parameters
    body = _body(["var la = array<u32, 4>(1u, 2u, 3u, 4u);", "o[0] = get(&la, ix[0]); put(&la, ix[1], 77u); " + dump("la", 4, "{x}")])
    add("pointer_param_function", HDR % "u32"
        + "fn get(p: ptr<function, array<u32, 4>>, i: u32) -> u32 { var r: u32; @LOAD{r|(*p)|i|4u|0u} return r; }\n"
          "fn put(p: ptr<function, array<u32, 4>>, i: u32, v: u32) { @STORE{(*p)|i|4u|v} }\n" + EP % body, "index", [4])
    body = _body(["pa[2] = 3u;", "o[0] = get(&pa, ix[0]); put(&pa, ix[1], 77u); " + dump("pa", 3, "{x}")])
    add("pointer_param_private", "var<private> pa: array<u32, 3>;\n" + HDR % "u32"
        + "fn get(p: ptr<private, array<u32, 3>>, i: u32) -> u32 { var r: u32; @LOAD{r|(*p)|i|3u|0u} return r; }\n"
          "fn put(p: ptr<private, array<u32, 3>>, i: u32, v: u32) { @STORE{(*p)|i|3u|v} }\n" + EP % body, "index", [3])
    body = _body(["wa[2] = 3u;", "o[0] = get(&wa, ix[0]); put(&wa, ix[1], 77u); " + dump("wa", 3, "{x}")])
    add("pointer_param_workgroup", "var<workgroup> wa: array<u32, 3>;\n" + HDR % "u32"
        + "fn get(p: ptr<workgroup, array<u32, 3>>, i: u32) -> u32 { var r: u32; @LOAD{r|(*p)|i|3u|0u} return r; }\n"
          "fn put(p: ptr<workgroup, array<u32, 3>>, i: u32, v: u32) { @STORE{(*p)|i|3u|v} }\n" + EP % body, "index", [3])
    body = _body(["var v = vec4<f32>(1.5, 2.5, 3.5, 4.5);", "o[0] = bitcast<u32>(get(&v, ix[0])); put(&v, ix[1], 7.5); " + dump("v", 4, "bitcast<u32>({x})")])
    add("pointer_param_vector", HDR % "u32"
        + "fn get(p: ptr<function, vec4<f32>>, i: u32) -> f32 { var r: f32; @LOAD{r|(*p)|i|4u|0.0} return r; }\n"
          "fn put(p: ptr<function, vec4<f32>>, i: u32, v: f32) { @STORE{(*p)|i|4u|v} }\n" + EP % body, "index", [4])

    # ---- K: by-value objects (loads only)
    body = _body(["let la = array<u32, 4>(o[8], o[9], o[10], o[11]);", "var a: u32;", "@LOAD{a|la|ix[0]|4u|0u}", "o[0] = a;"])
    add("value_array_let", HDR % "u32" + EP % body, "index", [4])
    body = _body(["var a: u32;", "@LOAD{a|K|ix[0]|4u|0u}", "o[0] = a;"])
    add("value_array_const", "const K = array<u32, 4>(11u, 12u, 13u, 14u);\n" + HDR % "u32" + EP % body, "index", [4])
    body = _body(["var a: u32;", "@LOAD{a|mk(o[8])|ix[0]|3u|0u}", "o[0] = a;"])
    add("value_array_call_result", HDR % "u32" + "fn mk(x: u32) -> array<u32, 3> { return array<u32, 3>(x, x + 1u, x + 2u); }\n" + EP % body, "index", [3])
    body = _body(["let v = vec4<u32>(o[8], o[9], o[10], o[11]);", "var a: u32;", "@LOAD{a|v|ix[0]|4u|0u}", "o[0] = a;"])
    add("value_vector_let", HDR % "u32" + EP % body, "index", [4])
    body = _body(["let m = mat2x2<f32>(1.5, 2.5, 3.5, 4.5);", "let m2 = m * bitcast<f32>(o[8]);", "var a: vec2<f32>; var b: f32;",
                  "@LOAD{a|m2|ix[0]|2u|vec2<f32>()}", "@LOAD2{b|m2|ix[0]|2u||ix[2]|2u|0.0}",
                  "o[0] = bitcast<u32>(a.x) + 3u * bitcast<u32>(a.y); o[1] = bitcast<u32>(b);"])
    add("value_matrix_let", HDR % "u32" + EP % body, "index", [2, 2], levels=2)
    body = _body(["var a: u32;", "@LOAD{a|s.d|ix[0]|3u|0u}", "o[0] = a;"])
    add("value_struct_member_array", "struct VS { d: array<u32, 3>, t: u32 }\n" + HDR % "u32"
        + "fn mk(x: u32) -> VS { return VS(array<u32, 3>(x, x + 1u, x + 2u), 9u); }\n" + EP % ("  let s = mk(o[8]);\n" + body), "index", [3])
    # ---- L: DERIVED index expressions - forms a compiler may be tempted to prove in range statically and leave unguarded
    #      (i % n, i & mask, min / clamp, shifts ...), signed and unsigned, on every kind of object the Restrict / index policy
    #      governs; every form is used for one load and one store of the same program
    forms_i = ["(IX % 4)", "(IX % 3)", "(IX & 3)", "(IX / 2)", "(IX >> 1u)", "abs(IX)", "min(IX, 3)", "max(IX, 0)", "clamp(IX, 0, 3)",
               "(IX - 1)", "(-IX)", "select(IX, 0, IX > 3)", "(IX % 4 + 0)", "(3 - IX % 4)"]
    forms_u = ["(IX % 4u)", "(IX & 3u)", "(IX >> 30u)", "min(IX, 3u)", "(IX - 1u)", "(IX + 1u)", "(~IX)", "(IX / 1073741824u)",
               "(3u - IX % 4u)", "(IX % 5u)"]
    for sg, forms in (("i32", forms_i), ("u32", forms_u)):
        objs = [("function_array", "", "var la = array<u32, 4>(1u, 2u, 3u, 4u);", "la", 4, "u32", "0u", "%du", "{x}", "index"),
                ("private_array", "var<private> la: array<u32, 4>;\n", "la[1] = 2u; la[3] = 4u;", "la", 4, "u32", "0u", "%du", "{x}", "index"),
                ("workgroup_array", "var<workgroup> la: array<u32, 4>;\n", "la[1] = 2u; la[3] = 4u;", "la", 4, "u32", "0u", "%du", "{x}", "index"),
                ("function_vec4", "", "var la = vec4<u32>(1u, 2u, 3u, 4u);", "la", 4, "u32", "0u", "%du", "{x}", "index"),
                ("function_mat4x2", "", "var la = mat4x2<f32>(1.5, 2.5, 3.5, 4.5, 5.5, 6.5, 7.5, 8.5);", "la", 4, "vec2<f32>", "vec2<f32>()",
                 "vec2<f32>(%d.5, 9.5)", "(bitcast<u32>({x}.x) + 3u * bitcast<u32>({x}.y))", "index"),
                ("storage_array", "@group(0) @binding(2) var<storage, read_write> la: array<u32, 4>;\n", "", "la", 4, "u32", "0u", "%du", "{x}", "buffer")]
        for on, decl, init, obj, n, ety, zero, valf, proj, kind in objs:
            lines = [init, "var a: %s; var acc = 0u;" % ety] if init else ["var a: %s; var acc = 0u;" % ety]
            for k, f in enumerate(forms):
                lines.append("@LOAD{a|%s|%s|%du|%s}" % (obj, f.replace("IX", "ix[0]"), n, zero))
                lines.append("acc = acc * 31u + %s;" % proj.format(x="a"))
                lines.append("@STORE{%s|%s|%du|%s}" % (obj, f.replace("IX", "ix[1]"), n, valf % (70 + k)))
            lines.append("o[0] = acc; " + dump(obj, n, proj))
            add("derived_%s_%s" % (on, sg), decl + HDR % sg + EP % _body(lines), kind, [n], signed=(sg == "i32"), family="derived-index")
    return P


# ----------------------------------------------------------------------------------------------
# 3. hardened operators beyond OPS_SRC of checks/c15.py (division, remainder, negation, abs): shifts, float->int.
#    All programs share the buffer layout of OPS_SRC: o: array<i32, 6>, a: array<i32, 2>, ou: array<u32, 6>, au: array<u32, 2>.

OPS_HDR = """
@group(0) @binding(0) var<storage, read_write> o: array<i32, 6>;
@group(0) @binding(1) var<storage, read> a: array<i32, 2>;
@group(0) @binding(2) var<storage, read_write> ou: array<u32, 6>;
@group(0) @binding(3) var<storage, read> au: array<u32, 2>;
@compute @workgroup_size(1)
fn main() {
%s}
"""
OPS_EXT = {
    "shift": OPS_HDR % """  o[0] = a[0] << au[1];
  o[1] = a[0] >> au[1];
  ou[0] = au[0] << au[1];
  ou[1] = au[0] >> au[1];
  let v = vec2<u32>(au[0], au[1]) << vec2<u32>(au[1], au[0]);
  ou[2] = v.x; ou[3] = v.y;
  let w = vec2<i32>(a[0], a[1]) >> vec2<u32>(au[1], au[0]);
  o[2] = w.x; o[3] = w.y;
""",
    "f2i": OPS_HDR % """  let f = bitcast<f32>(au[0]);
  o[0] = i32(f);
  let vi = vec2<i32>(vec2<f32>(f, bitcast<f32>(au[1])));
  o[1] = vi.x; o[2] = vi.y;
""",
    "f2u": OPS_HDR % """  let f = bitcast<f32>(au[0]);
  ou[0] = u32(f);
  let vu = vec2<u32>(vec2<f32>(f, bitcast<f32>(au[1])));
  ou[1] = vu.x; ou[2] = vu.y;
""",
}

# float bit patterns for the conversions: NaN, infinities, +-2^31, 2^32, the largest floats below 2^31 / 2^32, huge, fractions
HOSTILE_F = [0x7FC00000, 0x7F800000, 0xFF800000, 0x4F000000, 0xCF000000, 0xCF000001, 0x4F800000, 0x4EFFFFFF, 0x4F7FFFFF,
             0x7F7FFFFF, 0xFF7FFFFF, 0xBFC00000, 0x3FC00000, 0x00000001, 0x80000000, 0xBF800000]
