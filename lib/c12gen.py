"""C12: regenerates coq/Gen/BackendState.v and coq/Gen/MapWalks.v from /repo
with harness/cmd/stateextract (go/ast + go/types, offline), plus the reviewed
allowlists under /verif/state and the open C12 records of known_findings.jsonl.
Registered in gen.py GENERATORS as "c12state".  The raw extraction is also
saved to build/c12_state.json for checks/c12.py (details of violations)."""
import json
import os
import re

import vcheck

STATE_DIR = os.path.join(vcheck.VERIF, "state")
RAW = os.path.join(vcheck.BUILD, "c12_state.json")

SPV = "spirv/internal/codegen"

REQUEST = {
    # packages scanned (recursively) for map walks and package-level variables: the five back ends, the IR
    # passes, the front end and their shared helpers
    "dirs": ["spirv", "hlsl", "msl", "glsl", "dxil", "ir", "wgsl", "internal/backend", "internal/registry", "internal/textutil"],
    "pkgs": ["."],
    "structs": [{"dir": SPV, "name": "Backend"}, {"dir": SPV, "name": "ModuleBuilder"}],
    "resets": [
        {"dir": SPV, "recv": "Backend", "name": "Reset"},
        {"dir": SPV, "recv": "Backend", "name": "Compile", "prefix": True},
        {"dir": SPV, "recv": "ModuleBuilder", "name": "Reset"},
        {"dir": SPV, "recv": "", "name": "NewBackend", "ctor_of": "Backend"},
        {"dir": SPV, "recv": "", "name": "NewModuleBuilder", "ctor_of": "ModuleBuilder"},
    ],
    # back ends whose code must not write into ir-typed shared storage
    "irwrite_dirs": ["spirv", "hlsl", "msl", "glsl", "dxil", "internal/backend"],
}

# functions allowed to write any field: constructors and the resets themselves
INIT_FUNCS = {"Backend": {"NewBackend", "Backend.Reset"}, "ModuleBuilder": {"NewModuleBuilder", "ModuleBuilder.Reset"}}


def read_allowlist(name):
    """lines `key | justification` (or `key | tag | justification`); returns list of tuples of stripped parts.
    A line without a justification is rejected: an unexplained exemption is not a review."""
    out = []
    p = os.path.join(STATE_DIR, name)
    with open(p, encoding="utf-8") as f:
        for n, line in enumerate(f, 1):
            line = line.strip()
            if not line or line.startswith("#"):
                continue
            parts = [x.strip() for x in line.split("|")]
            if len(parts) < 2 or not parts[-1] or len(parts[-1]) < 12:
                raise ValueError("%s:%d: allowlist entry without a justification" % (name, n))
            out.append(tuple(parts))
    return out


def known_keys(prefix):
    """match keys of open C12 findings starting with prefix (the part after the prefix)."""
    return [k["match"][len(prefix):] for k in vcheck.load_known("C12")
            if k.get("status") == "open" and k.get("match", "").startswith(prefix)]


# clone functions of the operations that take pipeline constants: (tag, file, function, key prefix of the open findings that
# may excuse a shared-but-written region)
CLONES = [
    ("msl", "msl.applyPipelineConstants", "msl/internal/codegen/pipeline_constants.go", "applyPipelineConstants", "module-mutated:msl+pc:"),
    ("ir", "ir.CloneModuleForOverrides", "ir/process_overrides.go", "CloneModuleForOverrides", "module-mutated:po:"),
]
_FRESH = re.compile(r"^(make\(|append\(\s*(\[\])?[\w.\[\]]+\(nil\)\s*,)")


def clone_regions(tools, file, func):
    """(copied, aliased): regions of the clone that the function re-allocates (`clone.P = make(..)` /
    `append(T(nil), ..)` / `&local` where local was assigned from a dereference) and regions it assigns from the
    source without a fresh allocation.  Purely syntactic (goextract assigns)."""
    rc, so, se = vcheck.run_tool(tools["goextract"], [vcheck.REPO], inp=json.dumps(
        [{"kind": "assigns", "file": file, "name": func, "recv": ""}]), timeout=120)
    if rc != 0:
        raise RuntimeError("goextract failed: " + se[-1000:])
    acts = json.loads(so)[0]
    if isinstance(acts, dict):
        raise RuntimeError("goextract: %s not found in %s (anchor moved?)" % (func, file))
    clone = srcv = None
    for kind, lhs, rhs in acts:
        if kind == "assign" and re.fullmatch(r"\w+", lhs) and re.fullmatch(r"\*\w+", rhs):
            clone, srcv = lhs, rhs[1:]           # m := *module / dst := *src
            break
    if clone is None:
        raise RuntimeError("%s: no shallow copy `x := *src` found" % func)
    derefs = {lhs for kind, lhs, rhs in acts if kind == "assign" and re.fullmatch(r"\w+", lhs) and rhs.startswith("*")}
    copied, aliased = [], []
    for kind, lhs, rhs in acts:
        if kind != "assign" or not lhs.startswith(clone + "."):
            continue
        path = re.sub(r"\[[^\]]*\]", "[]", lhs[len(clone) + 1:])
        if lhs.endswith("]"):
            continue                               # element of a container assigned above (struct copy / map entry)
        fresh = bool(_FRESH.match(rhs)) or (rhs.startswith("&") and rhs[1:] in derefs)
        (copied if fresh else aliased).append(path)
    return sorted(set(copied)), sorted(set(aliased) - set(copied))


def extract(tools):
    rc, so, se = vcheck.run_tool(tools["stateextract"], [vcheck.REPO], inp=json.dumps(REQUEST), timeout=600)
    if rc != 0:
        raise RuntimeError("stateextract failed: " + se[-2000:])
    d = json.loads(so)
    for group in ("structs", "resets", "fieldwrites"):
        for x in d[group]:
            if "missing" in x:
                raise RuntimeError("stateextract: %s not found (anchor moved?)" % x["missing"])
    os.makedirs(vcheck.BUILD, exist_ok=True)
    with open(RAW, "w") as f:
        json.dump(d, f)
    return d


def site_key(w):
    return "%s:%s:%s#%d" % (w["file"], w["func"], " ".join(w["expr"].split()), w["ord"])


def acts_of(reset, fields):
    """[(path, how, uncond)] from stateextract acts.  `litzero f` (recv.f = T{...}) re-initialises every
    flattened sub-field of f that the literal does not name."""
    out = []
    acts = reset["acts"] or []
    for a in acts:
        kind, f, sub, cond = a[0], a[1], a[2], a[3]
        un = cond == "uncond"
        if kind == "sub":
            out.append((f + "." + sub, a[4], un))
        elif kind == "litzero":
            named = {x[1] + "." + x[2] for x in acts if x[0] == "sub" and x[1] == f}
            for fl in fields:
                if fl.startswith(f + ".") and not any(fl == n or fl.startswith(n + ".") for n in named):
                    out.append((fl, "assign", un))
        elif kind == "delegate":
            out.append((f, kind, un))
        elif kind in ("assign", "clear", "truncate", "update"):
            out.append((f if not sub else f + "." + sub, kind, un))
        # "call", "init": not re-initialisations by themselves
    return out


def generate(G, tools):
    d = extract(tools)
    S = {s["name"]: s for s in d["structs"]}
    R = {(r["recv"], r["name"]): r for r in d["resets"]}
    W = {w["name"]: w for w in d["fieldwrites"]}
    immut = read_allowlist("immutable_fields.txt")
    q = G.coq_string

    def strlist(xs):
        return "[" + "; ".join(q(x) for x in xs) + "]"

    out = ["From Coq Require Import List String Bool.", "Import ListNotations.", "Require Import Naga.State.Tie.",
           "Open Scope string_scope.", ""]
    for T, resets in (("Backend", [("Backend", "Reset"), ("Backend", "Compile")]), ("ModuleBuilder", [("ModuleBuilder", "Reset")])):
        t = T.lower()
        fields = [f["name"] for f in S[T]["fields"]]
        out.append("(* %s/%s: flattened fields of `type %s struct` *)" % (SPV, "backend.go" if T == "Backend" else "writer.go", T))
        out.append("Definition %s_fields : list string := %s.\n" % (t, strlist(fields)))
        out.append("Definition %s_field_kinds : list (string * string) := [%s].\n" %
                   (t, "; ".join("(%s, %s)" % (q(f["name"]), q(f["kind"])) for f in S[T]["fields"])))
        acts = []
        for key in resets:
            acts += acts_of(R[key], fields)
        out.append("(* what %s do to the receiver's fields *)" % " and the prologue of ".join("%s.%s" % k for k in resets))
        out.append("Definition %s_acts : list act := [\n%s].\n" %
                   (t, ";\n".join("  mk_act %s %s %s" % (q(p), q(h), "true" if u else "false") for p, h, u in acts)))
        cfg = [e[0][len(T) + 1:].removesuffix(".*") for e in immut if e[0].startswith(T + ".") and e[1] == "config"]
        scr = [e[0][len(T) + 1:].removesuffix(".*") for e in immut if e[0].startswith(T + ".") and e[1] == "scratch"]
        out.append("(* state/immutable_fields.txt *)")
        out.append("Definition %s_cfg : list string := %s." % (t, strlist(cfg)))
        out.append("Definition %s_scratch : list string := %s.\n" % (t, strlist(scr)))
        written = sorted({w[0] for w in W[T]["writes"] if w[1] not in INIT_FUNCS[T]})
        out.append("(* receiver paths written (assigned, ++, clear, delete, address taken) anywhere in the package outside %s *)" %
                   ", ".join(sorted(INIT_FUNCS[T])))
        out.append("Definition %s_written : list string := %s.\n" % (t, strlist(written)))
        out.append("Definition %s_known_config_writes : list string := %s.\n" %
                   (t, strlist(known_keys("config-field-written:spirv.%s." % T))))
    out.append("(* first statement of Backend.Compile *)")
    out.append("Definition compile_first_stmt : string := %s.\n" % q(" ".join((R[("Backend", "Compile")].get("first_stmt") or "").split())))

    # package-level variables written after initialisation
    wg = ["%s.%s" % (g["pkg"], g["name"]) for g in d["globals"] if g["writes"]]
    out.append("(* package-level variables with a syntactic write (or a sync.* method call) in some function *)")
    out.append("Definition all_globals_count : nat := %d." % len(d["globals"]))
    out.append("Definition written_globals : list string := %s." % strlist(wg))
    out.append("Definition global_allow : list string := %s." % strlist([e[0] for e in read_allowlist("global_allowlist.txt")]))
    out.append("Definition global_known : list string := %s.\n" % strlist(known_keys("written-global:")))

    # writes into ir-typed shared storage, by function
    irw = sorted({"%s:%s" % (x["file"], x["func"]) for x in (d["irwrites"] or [])})
    out.append("(* back-end functions that write through a pointer / slice element / map of an ir.* type *)")
    out.append("Definition irwrite_sites : list string := %s." % strlist(irw))
    out.append("Definition irwrite_allow : list string := %s." % strlist([e[0] for e in read_allowlist("irwrite_allowlist.txt")]))
    out.append("Definition irwrite_known : list string := %s.\n" % strlist(known_keys("ir-write-site:")))
    f1 = G.write("Gen/BackendState.v", "\n".join(out) + "\n")

    out = ["From Coq Require Import List String Bool.", "Import ListNotations.", "Require Import Naga.State.Tie.",
           "Open Scope string_scope.", "",
           "(* every `for ... range X` with X of map type (go/types) in: %s *)" % ", ".join(d["packages"]),
           "Definition map_walk_sites : list (string * walk_class) := ["]
    rows = []
    for w in d["mapwalks"]:
        rows.append("  (%s, Class%s)" % (q(site_key(w)), w["class"].upper()))
    out.append(";\n".join(rows) + "].\n")
    out.append("(* state/mapwalk_allowlist.txt *)")
    out.append("Definition mapwalk_allow : list string := %s.\n" % strlist([e[0] for e in read_allowlist("mapwalk_allowlist.txt")]))
    out.append("Definition mapwalk_known : list string := %s.\n" % strlist(known_keys("mapwalk:")))
    f2 = G.write("Gen/MapWalks.v", "\n".join(out) + "\n")

    # clone functions of the pipeline-constant operations: freshly allocated regions (regenerated) vs written regions (reviewed)
    out = ["From Coq Require Import List String Bool.", "Import ListNotations.", "Open Scope string_scope.", ""]
    wr = read_allowlist("clone_writes.txt")
    for tag, name, file, func, prefix in CLONES:
        copied, aliased = clone_regions(tools, file, func)
        out.append("(* %s %s: regions the clone re-allocates / assigns from the source without re-allocating *)" % (file, func))
        out.append("Definition %s_clone_copied : list string := %s." % (tag, strlist(copied)))
        out.append("Definition %s_clone_aliased : list string := %s." % (tag, strlist(aliased)))
        rows = [(e[1], e[2]) for e in wr if e[0] == name]
        out.append("(* state/clone_writes.txt: (region, finding class or \"-\") written by the pass that follows *)")
        out.append("Definition %s_clone_writes : list (string * string) := [%s]." % (tag, "; ".join("(%s, %s)" % (q(r), q(c)) for r, c in rows)))
        out.append("Definition %s_clone_known : list string := %s.\n" % (tag, strlist(known_keys(prefix))))
    f3 = G.write("Gen/CloneRegions.v", "\n".join(out) + "\n")
    return [f1, f2, f3]
