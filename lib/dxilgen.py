"""Generators for the C18 check: writer operation sequences, container part
lists, hash inputs, and small valid WGSL programs of growing size (many values,
types, blocks) for the DXIL backend.  All randomness comes from a vcheck.Rng."""

U64 = (1 << 64) - 1
CHAR6 = "abcdefghijklmnopqrstuvwxyzABCDEFGHIJKLMNOPQRSTUVWXYZ0123456789._"


# ------------------------------------------------------------------ writer ops

def vbr_value(r, w):
    """values around chunk boundaries of VBR(w) and across the whole uint64 range"""
    k = r.below(8)
    if k == 0:
        return r.below(4)
    if k == 1:
        chunks = 1 + r.below(max(1, min(64 // max(1, w - 1), 12)))
        b = 1 << min(63, chunks * max(1, w - 1))
        return max(0, min(U64, b + r.range(-2, 2)))
    if k == 2:
        return U64 - r.below(3)
    if k == 3:
        return (1 << r.below(64)) + r.below(2)
    if k == 4:
        return r.next() & U64
    if k == 5:
        return r.next() & 0xFFFFFFFF
    return r.below(1 << (1 + r.below(20)))


def record(r, big=False):
    n = r.below(40 if big else 7)
    return ["record", str(r.below(64) if r.chance(4, 5) else vbr_value(r, 6)), [str(vbr_value(r, 6)) for _ in range(n)]]


def tree_ops(r, depth, budget):
    """balanced EnterBlock/ExitBlock sequences with records: what serialize.go does"""
    ops = []
    n = 1 + r.below(6)
    for _ in range(n):
        if budget[0] <= 0:
            break
        budget[0] -= 1
        if depth < 4 and r.chance(1, 3):
            ops.append(["enter", str(r.below(32) if r.chance(3, 4) else vbr_value(r, 8)), str(r.range(2, 32) if r.chance(1, 4) else r.range(2, 6))])
            ops += tree_ops(r, depth + 1, budget)
            ops.append(["exit"])
        else:
            ops.append(record(r, big=r.chance(1, 10)))
    return ops


def serialize_like(r):
    ops = [["bits", "66", "8"], ["bits", "67", "8"], ["bits", "192", "8"], ["bits", "222", "8"], ["enter", "8", "3"]]
    ops += tree_ops(r, 1, [5 + r.below(40)])
    ops.append(["exit"])
    return 2, ops


def primitive_ops(r, wild):
    """arbitrary primitive calls, inside and (wild) outside the documented preconditions"""
    aw = r.range(2, 8) if not wild else r.choice([1, 2, 3, 4, 6, 8, 16, 31, 32, 33, 40])
    ops = []
    depth = 0
    for _ in range(1 + r.below(40)):
        k = r.below(12)
        if k == 0:
            w = r.range(1, 32)
            d = r.below(1 << w) if (not wild or r.chance(3, 4)) else (r.next() & 0xFFFFFFFF)
            ops.append(["bits", str(d), str(w)])
        elif k == 1:
            if wild and r.chance(1, 3):
                w = r.range(33, 64)
                v = r.next() & ((1 << w) - 1)
            else:
                w = r.range(0, 32)
                v = r.below(1 << w) if w else 0
            ops.append(["fixed", str(v), str(w)])
        elif k in (2, 3, 4):
            w = r.range(2, 32) if not wild else r.choice([0, 2, 3, 4, 6, 8, 31, 32, 33, 40, 64, 65])
            ops.append(["vbr", str(vbr_value(r, w)), str(w)])
        elif k == 5:
            c = ord(r.choice(CHAR6)) if (not wild or r.chance(9, 10)) else r.below(256)
            ops.append(["char6", str(c)])
        elif k == 6:
            ops.append(["align"])
        elif k == 7 and depth < 6:
            nw = r.range(2, 32) if not wild else r.choice([1, 2, 3, 4, 5, 32, 33])
            ops.append(["enter", str(vbr_value(r, 8)), str(nw)])
            depth += 1
        elif k == 8:
            if depth > 0:
                ops.append(["exit"])
                depth -= 1
            elif wild and r.chance(1, 6):
                ops.append(["exit"])       # panics in Go; the model returns None
                break
        elif k == 9:
            ops.append(record(r))
        elif k == 10:
            blob = bytes(r.below(256) for _ in range(r.below(12)))
            ops.append(["blob", str(r.below(64)), [str(vbr_value(r, 6)) for _ in range(r.below(4))], blob.hex()])
        else:
            ops.append(record(r, big=True))
    if r.chance(2, 3):
        while depth > 0:
            ops.append(["exit"])
            depth -= 1
    return aw, ops


def op_sequence(r):
    k = r.below(10)
    if k < 4:
        return serialize_like(r)
    if k < 8:
        return primitive_ops(r, wild=False)
    return primitive_ops(r, wild=True)


def ops_for_model(ops):
    """the same ops in the JSON shape the extracted model takes (numbers as integers)"""
    out = []
    for o in ops:
        if o[0] in ("record",):
            out.append([o[0], int(o[1]), [int(x) for x in o[2]]])
        elif o[0] == "blob":
            out.append([o[0], int(o[1]), [int(x) for x in o[2]], list(bytes.fromhex(o[3]))])
        else:
            out.append([o[0]] + [int(x) for x in o[1:]])
    return out


# ------------------------------------------------------------------ containers

KNOWN_FOURCC = [b"DXIL", b"SFI0", b"HASH", b"ISG1", b"OSG1", b"PSV0", b"PSG1", b"STAT", b"RTS0", b"ILDB"]


def rand_bytes(r, n):
    return bytes(r.below(256) for _ in range(n))


def bitcode_like(r):
    n = 4 * r.below(60)
    return b"BC\xc0\xde" + rand_bytes(r, n) if r.chance(3, 4) else rand_bytes(r, r.below(50))


def container_parts(r):
    """part list + post steps.  A raw part never uses the DXIL/HASH FourCC with random data when
    the shader hash step is requested (WriteShaderHashPart would read a garbage program header)."""
    shaderhash = r.chance(1, 2)
    parts = []
    n = r.below(9) if r.chance(9, 10) else r.range(9, 14)
    for _ in range(n):
        k = r.below(8)
        if k < 3:
            fc = r.choice(KNOWN_FOURCC)
            if shaderhash and fc in (b"DXIL", b"HASH"):
                fc = b"XXXX"
            parts.append({"kind": "raw", "fourcc": str(int.from_bytes(fc, "little") if r.chance(5, 6) else r.next() & 0xFFFFFFFF),
                          "hex": rand_bytes(r, r.choice([0, 1, 3, 4, 8, 20, 24, 33, 64, 255])).hex()})
            if shaderhash and parts[-1]["fourcc"] in (str(int.from_bytes(b"DXIL", "little")), str(int.from_bytes(b"HASH", "little"))):
                parts[-1]["fourcc"] = "1"
        elif k < 5:
            minor = r.below(10) if r.chance(5, 6) else r.choice([15, 16, 17, 255, 256])
            parts.append({"kind": r.choice(["dxil", "dxil", "stat"]), "shader_kind": str(r.choice([0, 1, 5, 13, 14, 65535, 65536])),
                          "major": str(r.choice([6, 6, 6, 0, 15, 4095, 4096])), "minor": str(minor), "hex": bitcode_like(r).hex()})
        elif k == 5:
            parts.append({"kind": "features", "features": str(r.next() & U64 if r.chance(1, 2) else r.below(1 << 20))})
        else:
            parts.append({"kind": "hash"})
    post = (["shaderhash"] if shaderhash else []) + r.choice([[], ["retail"], ["bypass"], ["retail"], ["bypass", "retail"], ["retail", "bypass"]])
    return parts, post


def parts_for_model(parts):
    out = []
    for p in parts:
        q = {"kind": p["kind"]}
        if "fourcc" in p:
            q["fourcc"] = int(p["fourcc"])
        if "hex" in p:
            q["data"] = list(bytes.fromhex(p["hex"]))
        for k in ("shader_kind", "major", "minor", "features"):
            if k in p:
                q[k] = int(p[k])
        out.append(q)
    return out


def hash_inputs(r, n_random):
    """all lengths around the 64-byte block and the 56-byte padding boundary, then random"""
    out = [rand_bytes(r, n) for n in list(range(0, 140)) + [183, 184, 191, 192, 193, 247, 248, 255, 256, 257, 1000, 4095, 4096]]
    for _ in range(n_random):
        out.append(rand_bytes(r, r.below(3000)))
    return out


# ------------------------------------------------------------------ WGSL programs

class Prog:
    def __init__(self, r, size):
        self.r = r
        self.size = size
        self.f = ["p.x", "p.y", "1.5", "0.25"]      # f32 expressions in scope
        self.u = ["gi", "3u"]
        self.i = ["2", "-7"]
        self.v = ["p"]                               # vec4<f32>
        self.mut_f = []
        self.n = 0
        self.helpers = []

    def name(self, p):
        self.n += 1
        return "%s_%d" % (p, self.n)

    def fexpr(self, d=0):
        r = self.r
        k = r.below(14 if d < 3 else 4)
        if k < 3:
            return r.choice(self.f)
        if k == 3:
            return "%d.%d" % (r.below(100), r.below(1000))
        if k < 7:
            return "(%s %s %s)" % (self.fexpr(d + 1), r.choice(["+", "-", "*"]), self.fexpr(d + 1))
        if k == 7:
            return "%s(%s)" % (r.choice(["sin", "cos", "abs", "floor", "fract", "exp2"]), self.fexpr(d + 1))
        if k == 8:
            return "%s(%s, %s)" % (r.choice(["min", "max"]), self.fexpr(d + 1), self.fexpr(d + 1))
        if k == 9:
            return "select(%s, %s, %s)" % (self.fexpr(d + 1), self.fexpr(d + 1), self.bexpr(d + 1))
        if k == 10:
            return "f32(%s)" % (self.uexpr(d + 1) if r.chance(1, 2) else self.iexpr(d + 1))
        if k == 11:
            return "dot(%s, %s)" % (self.vexpr(d + 1), self.vexpr(d + 1))
        if k == 12 and self.helpers:
            h = r.choice(self.helpers)
            return "%s(%s, %s)" % (h, self.fexpr(d + 1), self.fexpr(d + 1))
        return "%s.%s" % (self.vexpr(d + 1), r.choice("xyzw"))

    def uexpr(self, d=0):
        r = self.r
        k = r.below(9 if d < 3 else 2)
        if k < 2:
            return r.choice(self.u)
        if k == 2:
            return "%du" % r.below(1 << r.below(31))
        if k < 6:
            return "(%s %s %s)" % (self.uexpr(d + 1), r.choice(["+", "-", "*", "&", "|", "^"]), self.uexpr(d + 1))
        if k == 6:
            return "(%s %s %du)" % (self.uexpr(d + 1), r.choice(["<<", ">>"]), r.below(32))
        if k == 7:
            return "u32(%s)" % self.iexpr(d + 1)
        return "min(%s, %s)" % (self.uexpr(d + 1), self.uexpr(d + 1))

    def iexpr(self, d=0):
        r = self.r
        k = r.below(7 if d < 3 else 2)
        if k < 2:
            return r.choice(self.i)
        if k == 2:
            return "%d" % r.range(-1000, 1000)
        if k < 6:
            return "(%s %s %s)" % (self.iexpr(d + 1), r.choice(["+", "-", "*"]), self.iexpr(d + 1))
        return "i32(%s)" % self.uexpr(d + 1)

    def vexpr(self, d=0):
        r = self.r
        k = r.below(6 if d < 3 else 2)
        if k < 2:
            return r.choice(self.v)
        if k == 2:
            return "vec4<f32>(%s, %s, %s, %s)" % tuple(self.fexpr(d + 1) for _ in range(4))
        if k < 5:
            return "(%s %s %s)" % (self.vexpr(d + 1), r.choice(["+", "-", "*"]), self.vexpr(d + 1))
        return "(%s * %s)" % (self.vexpr(d + 1), self.fexpr(d + 1))

    def bexpr(self, d=0):
        r = self.r
        k = r.below(4)
        if k == 0:
            return "(%s %s %s)" % (self.fexpr(d + 1), r.choice(["<", ">", "<=", ">="]), self.fexpr(d + 1))
        if k == 1:
            return "(%s %s %s)" % (self.uexpr(d + 1), r.choice(["<", "==", "!="]), self.uexpr(d + 1))
        if k == 2:
            return "(%s %s %s)" % (self.iexpr(d + 1), r.choice(["<", ">", "=="]), self.iexpr(d + 1))
        return "(%s && %s)" % (self.bexpr(d + 1), self.bexpr(d + 1)) if d < 2 else "(%s < %s)" % (self.fexpr(d + 1), self.fexpr(d + 1))

    def block(self, n, depth, ind, sink):
        r = self.r
        out = []
        saved = (list(self.f), list(self.u), list(self.i), list(self.v), list(self.mut_f))
        for _ in range(n):
            k = r.below(12)
            if k < 3:
                v = self.name("f")
                out.append("%slet %s = %s;" % (ind, v, self.fexpr()))
                self.f.append(v)
            elif k == 3:
                v = self.name("u")
                out.append("%slet %s = %s;" % (ind, v, self.uexpr()))
                self.u.append(v)
            elif k == 4:
                v = self.name("i")
                out.append("%slet %s = %s;" % (ind, v, self.iexpr()))
                self.i.append(v)
            elif k == 5:
                v = self.name("v")
                out.append("%slet %s = %s;" % (ind, v, self.vexpr()))
                self.v.append(v)
            elif k == 6:
                v = self.name("m")
                out.append("%svar %s = %s;" % (ind, v, self.fexpr()))
                self.mut_f.append(v)
                self.f.append(v)
            elif k == 7 and self.mut_f:
                out.append("%s%s %s %s;" % (ind, r.choice(self.mut_f), r.choice(["=", "+=", "*="]), self.fexpr()))
            elif k == 8 and depth < 3:
                out.append("%sif %s {" % (ind, self.bexpr()))
                out += self.block(1 + r.below(4), depth + 1, ind + "  ", sink)
                if r.chance(1, 2):
                    out.append("%s} else {" % ind)
                    out += self.block(1 + r.below(3), depth + 1, ind + "  ", sink)
                out.append("%s}" % ind)
            elif k == 9 and depth < 2:
                lv = self.name("k")
                out.append("%sfor (var %s = 0u; %s < %du; %s++) {" % (ind, lv, lv, 1 + r.below(5), lv))
                self.u.append(lv)
                out += self.block(1 + r.below(4), depth + 1, ind + "  ", sink)
                self.u.remove(lv)
                out.append("%s}" % ind)
            else:
                out.append("%s%s" % (ind, sink(self)))
        self.f, self.u, self.i, self.v, keep_mut = saved
        self.mut_f = keep_mut
        return out


def wgsl_program(r, size):
    """a valid WGSL program whose entry-point body has about `size` statements"""
    stage = r.choice(["compute", "compute", "vertex", "fragment"])
    P = Prog(r, size)
    src = []
    nh = r.below(3)
    for h in range(nh):
        hn = "helper%d" % h
        Q = Prog(r, 4)
        Q.f = ["a", "b", "0.5"]
        Q.mut_f = ["hacc"]
        Q.u = ["1u"]
        Q.i = ["1"]
        Q.v = ["vec4<f32>(a, b, a, b)"]
        # depth 2 lets `if` (and with depth 1 also loops) appear: helpers with control flow are not inlined
        # by dxil.prepareModule and become separate LLVM functions with parameters
        body = Q.block(1 + r.below(4), r.choice([1, 2, 3]), "  ", lambda q: "let %s = %s;" % (q.name("t"), q.fexpr()))
        src.append("fn %s(a: f32, b: f32) -> f32 {\n  var hacc = a;\n%s\n  return hacc + %s;\n}" % (hn, "\n".join(body), Q.fexpr()))
        P.helpers.append(hn)
    if stage == "compute":
        src.insert(0, "@group(0) @binding(0) var<storage, read_write> outb: array<f32>;\n"
                      "@group(0) @binding(1) var<storage, read> inb: array<vec4<f32>>;\n"
                      "@group(%d) @binding(%d) var<uniform> prm: vec4<f32>;" % (r.below(3), 2 + r.below(5)))
        P.f += ["prm.z"]
        sink = lambda q: "outb[%s %% 64u] = %s;" % (q.uexpr(), q.fexpr())
        body = P.block(size, 0, "  ", sink)
        src.append("@compute @workgroup_size(%d, %d, 1)\nfn main(@builtin(global_invocation_id) gid: vec3<u32>) {\n"
                   "  let gi = gid.x;\n  let p = inb[gi %% 16u] + prm;\n%s\n  outb[gi %% 64u] = %s;\n}"
                   % (r.choice([1, 8, 64]), r.choice([1, 2, 4]), "\n".join(body), P.fexpr()))
    elif stage == "vertex":
        nloc = 1 + r.below(7)
        outs = "\n".join("  @location(%d) o%d: %s," % (k, k, r.choice(["f32", "vec2<f32>", "vec3<f32>", "vec4<f32>"])) for k in range(nloc))
        src.insert(0, "struct VOut {\n  @builtin(position) pos: vec4<f32>,\n%s\n}\n@group(0) @binding(0) var<uniform> prm: vec4<f32>;" % outs)
        sink = lambda q: "acc = acc + %s;" % q.vexpr()
        body = P.block(size, 0, "  ", sink)
        assigns = []
        for ln in outs.splitlines():
            nm = ln.split()[1].rstrip(":")
            ty = ln.split()[2].rstrip(",")
            e = {"f32": "%s", "vec2<f32>": "vec2<f32>(%s, 1.0)", "vec3<f32>": "vec3<f32>(%s, 0.0, 1.0)", "vec4<f32>": "vec4<f32>(%s)"}[ty] % P.fexpr()
            assigns.append("  o.%s = %s;" % (nm, e))
        src.append("@vertex\nfn main(@location(0) p: vec4<f32>, @location(1) q: vec3<f32>, @builtin(vertex_index) gi: u32) -> VOut {\n"
                   "  var acc = p + prm;\n%s\n  var o: VOut;\n  o.pos = acc;\n%s\n  return o;\n}" % ("\n".join(body), "\n".join(assigns)))
    else:
        nloc = 1 + r.below(6)
        ins = ", ".join("@location(%d) a%d: vec4<f32>" % (k, k) for k in range(nloc))
        src.insert(0, "@group(0) @binding(0) var<uniform> prm: vec4<f32>;")
        P.v += ["a%d" % k for k in range(nloc)]
        sink = lambda q: "acc = acc * %s;" % q.fexpr()
        body = P.block(size, 0, "  ", sink)
        src.append("@fragment\nfn main(@builtin(position) fc: vec4<f32>, %s) -> @location(0) vec4<f32> {\n"
                   "  let p = a0 + prm;\n  let gi = u32(fc.x);\n  var acc = 1.0;\n%s\n  return p * acc + %s;\n}" % (ins, "\n".join(body), P.vexpr()))
    return stage, "\n\n".join(src) + "\n"
