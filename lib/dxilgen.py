"""Generators for the C18 check: writer operation sequences, container part
lists, hash inputs, and small valid WGSL programs of growing size (many values,
types, blocks) for the DXIL backend.  All randomness comes from a vcheck.Rng."""

U64 = (1 << 64) - 1
CHAR6 = "abcdefghijklmnopqrstuvwxyzABCDEFGHIJKLMNOPQRSTUVWXYZ0123456789._"


# ------------------------------------------------------------------ writer ops

def vbr_value(r, w):
    """values around chunk boundaries of VBR(w) and across the whole uint64 range"""
    k = r.below(8)
    if k == 0:
        return r.below(4)
    if k == 1:
        chunks = 1 + r.below(max(1, min(64 // max(1, w - 1), 12)))
        b = 1 << min(63, chunks * max(1, w - 1))
        return max(0, min(U64, b + r.range(-2, 2)))
    if k == 2:
        return U64 - r.below(3)
    if k == 3:
        return (1 << r.below(64)) + r.below(2)
    if k == 4:
        return r.next() & U64
    if k == 5:
        return r.next() & 0xFFFFFFFF
    return r.below(1 << (1 + r.below(20)))


def record(r, big=False):
    n = r.below(40 if big else 7)
    return ["record", str(r.below(64) if r.chance(4, 5) else vbr_value(r, 6)), [str(vbr_value(r, 6)) for _ in range(n)]]


def tree_ops(r, depth, budget):
    """balanced EnterBlock/ExitBlock sequences with records: what serialize.go does"""
    ops = []
    n = 1 + r.below(6)
    for _ in range(n):
        if budget[0] <= 0:
            break
        budget[0] -= 1
        if depth < 4 and r.chance(1, 3):
            ops.append(["enter", str(r.below(32) if r.chance(3, 4) else vbr_value(r, 8)), str(r.range(2, 32) if r.chance(1, 4) else r.range(2, 6))])
            ops += tree_ops(r, depth + 1, budget)
            ops.append(["exit"])
        else:
            ops.append(record(r, big=r.chance(1, 10)))
    return ops


def serialize_like(r):
    ops = [["bits", "66", "8"], ["bits", "67", "8"], ["bits", "192", "8"], ["bits", "222", "8"], ["enter", "8", "3"]]
    ops += tree_ops(r, 1, [5 + r.below(40)])
    ops.append(["exit"])
    return 2, ops


def primitive_ops(r, wild):
    """arbitrary primitive calls, inside and (wild) outside the documented preconditions"""
    aw = r.range(2, 8) if not wild else r.choice([1, 2, 3, 4, 6, 8, 16, 31, 32, 33, 40])
    ops = []
    depth = 0
    for _ in range(1 + r.below(40)):
        k = r.below(12)
        if k == 0:
            w = r.range(1, 32)
            d = r.below(1 << w) if (not wild or r.chance(3, 4)) else (r.next() & 0xFFFFFFFF)
            ops.append(["bits", str(d), str(w)])
        elif k == 1:
            if wild and r.chance(1, 3):
                w = r.range(33, 64)
                v = r.next() & ((1 << w) - 1)
            else:
                w = r.range(0, 32)
                v = r.below(1 << w) if w else 0
            ops.append(["fixed", str(v), str(w)])
        elif k in (2, 3, 4):
            w = r.range(2, 32) if not wild else r.choice([0, 2, 3, 4, 6, 8, 31, 32, 33, 40, 64, 65])
            ops.append(["vbr", str(vbr_value(r, w)), str(w)])
        elif k == 5:
            c = ord(r.choice(CHAR6)) if (not wild or r.chance(9, 10)) else r.below(256)
            ops.append(["char6", str(c)])
        elif k == 6:
            ops.append(["align"])
        elif k == 7 and depth < 6:
            nw = r.range(2, 32) if not wild else r.choice([1, 2, 3, 4, 5, 32, 33])
            ops.append(["enter", str(vbr_value(r, 8)), str(nw)])
            depth += 1
        elif k == 8:
            if depth > 0:
                ops.append(["exit"])
                depth -= 1
            elif wild and r.chance(1, 6):
                ops.append(["exit"])       # panics in Go; the model returns None
                break
        elif k == 9:
            ops.append(record(r))
        elif k == 10:
            blob = bytes(r.below(256) for _ in range(r.below(12)))
            ops.append(["blob", str(r.below(64)), [str(vbr_value(r, 6)) for _ in range(r.below(4))], blob.hex()])
        else:
            ops.append(record(r, big=True))
    if r.chance(2, 3):
        while depth > 0:
            ops.append(["exit"])
            depth -= 1
    return aw, ops


def op_sequence(r):
    k = r.below(10)
    if k < 4:
        return serialize_like(r)
    if k < 8:
        return primitive_ops(r, wild=False)
    return primitive_ops(r, wild=True)


def ops_for_model(ops):
    """the same ops in the JSON shape the extracted model takes (numbers as integers)"""
    out = []
    for o in ops:
        if o[0] in ("record",):
            out.append([o[0], int(o[1]), [int(x) for x in o[2]]])
        elif o[0] == "blob":
            out.append([o[0], int(o[1]), [int(x) for x in o[2]], list(bytes.fromhex(o[3]))])
        else:
            out.append([o[0]] + [int(x) for x in o[1:]])
    return out


# ------------------------------------------------------------------ containers

KNOWN_FOURCC = [b"DXIL", b"SFI0", b"HASH", b"ISG1", b"OSG1", b"PSV0", b"PSG1", b"STAT", b"RTS0", b"ILDB"]


def rand_bytes(r, n):
    return bytes(r.below(256) for _ in range(n))


def bitcode_like(r):
    n = 4 * r.below(60)
    return b"BC\xc0\xde" + rand_bytes(r, n) if r.chance(3, 4) else rand_bytes(r, r.below(50))


def container_parts(r):
    """part list + post steps.  A raw part never uses the DXIL/HASH FourCC with random data when
    the shader hash step is requested (WriteShaderHashPart would read a garbage program header)."""
    shaderhash = r.chance(1, 2)
    parts = []
    n = r.below(9) if r.chance(9, 10) else r.range(9, 14)
    for _ in range(n):
        k = r.below(8)
        if k < 3:
            fc = r.choice(KNOWN_FOURCC)
            if shaderhash and fc in (b"DXIL", b"HASH"):
                fc = b"XXXX"
            parts.append({"kind": "raw", "fourcc": str(int.from_bytes(fc, "little") if r.chance(5, 6) else r.next() & 0xFFFFFFFF),
                          "hex": rand_bytes(r, r.choice([0, 1, 3, 4, 8, 20, 24, 33, 64, 255])).hex()})
            if shaderhash and parts[-1]["fourcc"] in (str(int.from_bytes(b"DXIL", "little")), str(int.from_bytes(b"HASH", "little"))):
                parts[-1]["fourcc"] = "1"
        elif k < 5:
            minor = r.below(10) if r.chance(5, 6) else r.choice([15, 16, 17, 255, 256])
            parts.append({"kind": r.choice(["dxil", "dxil", "stat"]), "shader_kind": str(r.choice([0, 1, 5, 13, 14, 65535, 65536])),
                          "major": str(r.choice([6, 6, 6, 0, 15, 4095, 4096])), "minor": str(minor), "hex": bitcode_like(r).hex()})
        elif k == 5:
            parts.append({"kind": "features", "features": str(r.next() & U64 if r.chance(1, 2) else r.below(1 << 20))})
        else:
            parts.append({"kind": "hash"})
    post = (["shaderhash"] if shaderhash else []) + r.choice([[], ["retail"], ["bypass"], ["retail"], ["bypass", "retail"], ["retail", "bypass"]])
    return parts, post


def parts_for_model(parts):
    out = []
    for p in parts:
        q = {"kind": p["kind"]}
        if "fourcc" in p:
            q["fourcc"] = int(p["fourcc"])
        if "hex" in p:
            q["data"] = list(bytes.fromhex(p["hex"]))
        for k in ("shader_kind", "major", "minor", "features"):
            if k in p:
                q[k] = int(p[k])
        out.append(q)
    return out


def hash_inputs(r, n_random):
    """all lengths around the 64-byte block and the 56-byte padding boundary, then random"""
    out = [rand_bytes(r, n) for n in list(range(0, 140)) + [183, 184, 191, 192, 193, 247, 248, 255, 256, 257, 1000, 4095, 4096]]
    for _ in range(n_random):
        out.append(rand_bytes(r, r.below(3000)))
    return out


# ------------------------------------------------------------------ WGSL programs

class Prog:
    def __init__(self, r, size):
        self.r = r
        self.size = size
        self.f = ["p.x", "p.y", "1.5", "0.25"]      # f32 expressions in scope
        self.u = ["gi", "3u"]
        self.i = ["2", "-7"]
        self.v = ["p"]                               # vec4<f32>
        self.mut_f = []
        self.n = 0
        self.helpers = []

    def name(self, p):
        self.n += 1
        return "%s_%d" % (p, self.n)

    def fexpr(self, d=0):
        r = self.r
        k = r.below(14 if d < 3 else 4)
        if k < 3:
            return r.choice(self.f)
        if k == 3:
            return "%d.%d" % (r.below(100), r.below(1000))
        if k < 7:
            return "(%s %s %s)" % (self.fexpr(d + 1), r.choice(["+", "-", "*"]), self.fexpr(d + 1))
        if k == 7:
            return "%s(%s)" % (r.choice(["sin", "cos", "abs", "floor", "fract", "exp2"]), self.fexpr(d + 1))
        if k == 8:
            return "%s(%s, %s)" % (r.choice(["min", "max"]), self.fexpr(d + 1), self.fexpr(d + 1))
        if k == 9:
            return "select(%s, %s, %s)" % (self.fexpr(d + 1), self.fexpr(d + 1), self.bexpr(d + 1))
        if k == 10:
            return "f32(%s)" % (self.uexpr(d + 1) if r.chance(1, 2) else self.iexpr(d + 1))
        if k == 11:
            return "dot(%s, %s)" % (self.vexpr(d + 1), self.vexpr(d + 1))
        if k == 12 and self.helpers:
            h = r.choice(self.helpers)
            return "%s(%s, %s)" % (h, self.fexpr(d + 1), self.fexpr(d + 1))
        return "%s.%s" % (self.vexpr(d + 1), r.choice("xyzw"))

    def uexpr(self, d=0):
        r = self.r
        k = r.below(9 if d < 3 else 2)
        if k < 2:
            return r.choice(self.u)
        if k == 2:
            return "%du" % r.below(1 << r.below(31))
        if k < 6:
            return "(%s %s %s)" % (self.uexpr(d + 1), r.choice(["+", "-", "*", "&", "|", "^"]), self.uexpr(d + 1))
        if k == 6:
            return "(%s %s %du)" % (self.uexpr(d + 1), r.choice(["<<", ">>"]), r.below(32))
        if k == 7:
            return "u32(%s)" % self.iexpr(d + 1)
        return "min(%s, %s)" % (self.uexpr(d + 1), self.uexpr(d + 1))

    def iexpr(self, d=0):
        r = self.r
        k = r.below(7 if d < 3 else 2)
        if k < 2:
            return r.choice(self.i)
        if k == 2:
            return "%d" % r.range(-1000, 1000)
        if k < 6:
            return "(%s %s %s)" % (self.iexpr(d + 1), r.choice(["+", "-", "*"]), self.iexpr(d + 1))
        return "i32(%s)" % self.uexpr(d + 1)

    def vexpr(self, d=0):
        r = self.r
        k = r.below(6 if d < 3 else 2)
        if k < 2:
            return r.choice(self.v)
        if k == 2:
            return "vec4<f32>(%s, %s, %s, %s)" % tuple(self.fexpr(d + 1) for _ in range(4))
        if k < 5:
            return "(%s %s %s)" % (self.vexpr(d + 1), r.choice(["+", "-", "*"]), self.vexpr(d + 1))
        return "(%s * %s)" % (self.vexpr(d + 1), self.fexpr(d + 1))

    def bexpr(self, d=0):
        r = self.r
        k = r.below(4)
        if k == 0:
            return "(%s %s %s)" % (self.fexpr(d + 1), r.choice(["<", ">", "<=", ">="]), self.fexpr(d + 1))
        if k == 1:
            return "(%s %s %s)" % (self.uexpr(d + 1), r.choice(["<", "==", "!="]), self.uexpr(d + 1))
        if k == 2:
            return "(%s %s %s)" % (self.iexpr(d + 1), r.choice(["<", ">", "=="]), self.iexpr(d + 1))
        return "(%s && %s)" % (self.bexpr(d + 1), self.bexpr(d + 1)) if d < 2 else "(%s < %s)" % (self.fexpr(d + 1), self.fexpr(d + 1))

    def promotable(self, ind, seed_expr=None):
        """a scalar local (u32 / i32 / f32 / bool) that is initialised, overwritten and read back in the same block:
        what mem2reg / DCE rewrite in place"""
        r = self.r
        kind = r.below(4)
        v = self.name("t")
        rd = self.name("f")
        if kind == 0:
            out = ["%svar %s: u32 = %s;" % (ind, v, seed_expr or self.uexpr()), "%s%s = %s %s %s;" % (ind, v, v, r.choice(["+", "*", "^"]), self.uexpr(2)),
                   "%slet %s = f32(%s);" % (ind, rd, v)]
            self.u.append(v)
        elif kind == 1:
            out = ["%svar %s: i32 = %s;" % (ind, v, ("i32(%s)" % seed_expr) if seed_expr else self.iexpr()), "%s%s = %s %s %s;" % (ind, v, v, r.choice(["+", "-", "*"]), self.iexpr(2)),
                   "%slet %s = f32(%s);" % (ind, rd, v)]
            self.i.append(v)
        elif kind == 2:
            out = ["%svar %s: f32 = %s;" % (ind, v, ("f32(%s)" % seed_expr) if seed_expr else self.fexpr()), "%s%s %s %s;" % (ind, v, r.choice(["=", "+=", "*="]), self.fexpr(2)),
                   "%slet %s = %s * 2.0;" % (ind, rd, v)]
            self.mut_f.append(v)
        else:
            out = ["%svar %s: bool = %s;" % (ind, v, self.bexpr(2)), "%s%s = !%s;" % (ind, v, v), "%slet %s = select(1.0, 2.0, %s);" % (ind, rd, v)]
        self.f.append(rd)
        return out

    def nested(self, depth, ind, sink):
        """one nested compound statement (for / while / loop+continuing / if-else / switch / bare block) whose body declares a
        promotable local, writes it, reads it and feeds the sink"""
        r = self.r
        k = r.below(6)
        saved = (list(self.f), list(self.u), list(self.i), list(self.v), list(self.mut_f))
        inner = ind + "  "
        out = []
        if k == 0:
            lv = self.name("k")
            out.append("%sfor (var %s = 0u; %s < %du; %s = %s + 1u) {" % (ind, lv, lv, 2 + r.below(4), lv, lv))
            self.u.append(lv)
            out += self.promotable(inner, lv) + self.block(r.below(3), depth + 1, inner, sink) + ["%s%s" % (inner, sink(self))]
            out.append("%s}" % ind)
        elif k == 1:
            lv = self.name("w")
            out.append("%svar %s = 0u;" % (ind, lv))
            out.append("%swhile (%s < %du) {" % (ind, lv, 2 + r.below(3)))
            self.u.append(lv)
            out += self.promotable(inner, lv) + ["%s%s" % (inner, sink(self)), "%s%s = %s + 1u;" % (inner, lv, lv)]
            out.append("%s}" % ind)
        elif k == 2:
            lv = self.name("l")
            out.append("%svar %s = 0u;" % (ind, lv))
            out.append("%sloop {" % ind)
            self.u.append(lv)
            out += self.promotable(inner, lv) + self.block(r.below(2), depth + 1, inner, sink) + ["%s%s" % (inner, sink(self))]
            out.append("%scontinuing {" % inner)
            out.append("%s  %s = %s + 1u;" % (inner, lv, lv))
            out.append("%s  break if %s >= %du;" % (inner, lv, 2 + r.below(3)))
            out.append("%s}" % inner)
            out.append("%s}" % ind)
        elif k == 3:
            out.append("%sif %s {" % (ind, self.bexpr()))
            out += self.promotable(inner) + ["%s%s" % (inner, sink(self))]
            out.append("%s} else {" % ind)
            self.f, self.u, self.i, self.v, self.mut_f = [list(x) for x in saved]
            out += self.promotable(inner) + self.block(r.below(2), depth + 1, inner, sink) + ["%s%s" % (inner, sink(self))]
            out.append("%s}" % ind)
        elif k == 4:
            out += self.switch_stmt(depth, ind, sink, force_local=True)
        else:
            out.append("%s{" % ind)
            out += self.promotable(inner) + self.block(r.below(3), depth + 1, inner, sink) + ["%s%s" % (inner, sink(self))]
            out.append("%s}" % ind)
        self.f, self.u, self.i, self.v, self.mut_f = saved
        return out

    def switch_stmt(self, depth, ind, sink, force_local=False):
        r = self.r
        saved = (list(self.f), list(self.u), list(self.i), list(self.v), list(self.mut_f))
        inner = ind + "  "
        out = ["%sswitch (%s) {" % (ind, self.uexpr(1))]
        vals = r.shuffle(list(range(8)))
        ncase = r.below(3)
        pos = 0
        for _ in range(ncase):
            take = 1 + r.below(2)
            out.append("%scase %s: {" % (inner, ", ".join("%du" % v for v in vals[pos:pos + take])))
            pos += take
            self.f, self.u, self.i, self.v, self.mut_f = [list(x) for x in saved]
            if force_local or r.chance(1, 2):
                out += self.promotable(inner + "  ")
            out += self.block(1 + r.below(2), depth + 1, inner + "  ", sink)
            out.append("%s}" % inner)
        out.append("%sdefault: {" % inner)
        self.f, self.u, self.i, self.v, self.mut_f = [list(x) for x in saved]
        if force_local or r.chance(2, 3):
            # the default arm holds nested control flow of its own
            if depth < 2 and r.chance(1, 2):
                out += self.nested(depth + 1, inner + "  ", sink)
            else:
                out += self.promotable(inner + "  ") + ["%s  %s" % (inner, sink(self))]
        else:
            out += self.block(1 + r.below(2), depth + 1, inner + "  ", sink)
        out.append("%s}" % inner)
        out.append("%s}" % ind)
        self.f, self.u, self.i, self.v, self.mut_f = saved
        return out

    def block(self, n, depth, ind, sink):
        r = self.r
        out = []
        saved = (list(self.f), list(self.u), list(self.i), list(self.v), list(self.mut_f))
        for _ in range(n):
            k = r.below(16)
            if k < 3:
                v = self.name("f")
                out.append("%slet %s = %s;" % (ind, v, self.fexpr()))
                self.f.append(v)
            elif k == 3:
                v = self.name("u")
                out.append("%slet %s = %s;" % (ind, v, self.uexpr()))
                self.u.append(v)
            elif k == 4:
                v = self.name("i")
                out.append("%slet %s = %s;" % (ind, v, self.iexpr()))
                self.i.append(v)
            elif k == 5:
                v = self.name("v")
                out.append("%slet %s = %s;" % (ind, v, self.vexpr()))
                self.v.append(v)
            elif k == 6:
                v = self.name("m")
                out.append("%svar %s = %s;" % (ind, v, self.fexpr()))
                self.mut_f.append(v)
                self.f.append(v)
            elif k == 7 and self.mut_f:
                out.append("%s%s %s %s;" % (ind, r.choice(self.mut_f), r.choice(["=", "+=", "*="]), self.fexpr()))
            elif k == 8 and depth < 3:
                out.append("%sif %s {" % (ind, self.bexpr()))
                out += self.block(1 + r.below(4), depth + 1, ind + "  ", sink)
                if r.chance(1, 2):
                    out.append("%s} else {" % ind)
                    out += self.block(1 + r.below(3), depth + 1, ind + "  ", sink)
                out.append("%s}" % ind)
            elif k == 9 and depth < 2:
                lv = self.name("k")
                out.append("%sfor (var %s = 0u; %s < %du; %s++) {" % (ind, lv, lv, 1 + r.below(5), lv))
                self.u.append(lv)
                out += self.block(1 + r.below(4), depth + 1, ind + "  ", sink)
                self.u.remove(lv)
                out.append("%s}" % ind)
            elif k == 12:
                out += self.promotable(ind)
            elif k == 13 and depth < 3:
                out += self.switch_stmt(depth, ind, sink)
            elif k == 14 and depth < 3:
                # an else branch that holds nested control flow with promotable locals written and read inside it
                out.append("%sif %s {" % (ind, self.bexpr()))
                out += self.block(1 + r.below(2), depth + 1, ind + "  ", sink)
                out.append("%s} else {" % ind)
                out += self.nested(depth + 1, ind + "  ", sink)
                out.append("%s}" % ind)
            elif k == 15 and depth < 3:
                out += self.nested(depth, ind, sink)
            else:
                out.append("%s%s" % (ind, sink(self)))
        self.f, self.u, self.i, self.v, keep_mut = saved
        self.mut_f = keep_mut
        return out


def wgsl_program(r, size):
    """a valid WGSL program whose entry-point body has about `size` statements"""
    stage = r.choice(["compute", "compute", "vertex", "fragment"])
    P = Prog(r, size)
    src = []
    nh = r.below(3)
    for h in range(nh):
        hn = "helper%d" % h
        Q = Prog(r, 4)
        Q.f = ["a", "b", "0.5"]
        Q.mut_f = ["hacc"]
        Q.u = ["1u"]
        Q.i = ["1"]
        Q.v = ["vec4<f32>(a, b, a, b)"]
        # depth 2 lets `if` (and with depth 1 also loops) appear: helpers with control flow are not inlined
        # by dxil.prepareModule and become separate LLVM functions with parameters
        body = Q.block(1 + r.below(4), r.choice([1, 2, 3]), "  ", lambda q: "let %s = %s;" % (q.name("t"), q.fexpr()))
        src.append("fn %s(a: f32, b: f32) -> f32 {\n  var hacc = a;\n%s\n  return hacc + %s;\n}" % (hn, "\n".join(body), Q.fexpr()))
        P.helpers.append(hn)
    if stage == "compute":
        src.insert(0, "@group(0) @binding(0) var<storage, read_write> outb: array<f32>;\n"
                      "@group(0) @binding(1) var<storage, read> inb: array<vec4<f32>>;\n"
                      "@group(%d) @binding(%d) var<uniform> prm: vec4<f32>;" % (r.below(3), 2 + r.below(5)))
        P.f += ["prm.z"]
        sink = lambda q: "outb[%s %% 64u] = %s;" % (q.uexpr(), q.fexpr())
        body = P.block(size, 0, "  ", sink)
        src.append("@compute @workgroup_size(%d, %d, 1)\nfn main(@builtin(global_invocation_id) gid: vec3<u32>) {\n"
                   "  let gi = gid.x;\n  let p = inb[gi %% 16u] + prm;\n%s\n  outb[gi %% 64u] = %s;\n}"
                   % (r.choice([1, 8, 64]), r.choice([1, 2, 4]), "\n".join(body), P.fexpr()))
    elif stage == "vertex":
        nloc = 1 + r.below(7)
        outs = "\n".join("  @location(%d) o%d: %s," % (k, k, r.choice(["f32", "vec2<f32>", "vec3<f32>", "vec4<f32>"])) for k in range(nloc))
        src.insert(0, "struct VOut {\n  @builtin(position) pos: vec4<f32>,\n%s\n}\n@group(0) @binding(0) var<uniform> prm: vec4<f32>;" % outs)
        sink = lambda q: "acc = acc + %s;" % q.vexpr()
        body = P.block(size, 0, "  ", sink)
        assigns = []
        for ln in outs.splitlines():
            nm = ln.split()[1].rstrip(":")
            ty = ln.split()[2].rstrip(",")
            e = {"f32": "%s", "vec2<f32>": "vec2<f32>(%s, 1.0)", "vec3<f32>": "vec3<f32>(%s, 0.0, 1.0)", "vec4<f32>": "vec4<f32>(%s)"}[ty] % P.fexpr()
            assigns.append("  o.%s = %s;" % (nm, e))
        src.append("@vertex\nfn main(@location(0) p: vec4<f32>, @location(1) q: vec3<f32>, @builtin(vertex_index) gi: u32) -> VOut {\n"
                   "  var acc = p + prm;\n%s\n  var o: VOut;\n  o.pos = acc;\n%s\n  return o;\n}" % ("\n".join(body), "\n".join(assigns)))
    else:
        nloc = 1 + r.below(6)
        ins = ", ".join("@location(%d) a%d: vec4<f32>" % (k, k) for k in range(nloc))
        src.insert(0, "@group(0) @binding(0) var<uniform> prm: vec4<f32>;")
        P.v += ["a%d" % k for k in range(nloc)]
        sink = lambda q: "acc = acc * %s;" % q.fexpr()
        body = P.block(size, 0, "  ", sink)
        src.append("@fragment\nfn main(@builtin(position) fc: vec4<f32>, %s) -> @location(0) vec4<f32> {\n"
                   "  let p = a0 + prm;\n  let gi = u32(fc.x);\n  var acc = 1.0;\n%s\n  return p * acc + %s;\n}" % (ins, "\n".join(body), P.vexpr()))
    return stage, "\n\n".join(src) + "\n"


# ------------------------------------------------------------------ stage interfaces (systematic)

IFACE_TYPES = {"f": "f32", "2": "vec2<f32>", "3": "vec3<f32>", "4": "vec4<f32>"}
IFACE_WIDTH = {"f": 1, "2": 2, "3": 3, "4": 4}


def iface_sequences(maxlen=4):
    """every sequence over {scalar, vec2, vec3, vec4} of length 1..maxlen, shortest first (340 for maxlen 4)"""
    out = []
    level = [""]
    for _ in range(maxlen):
        level = [s + c for s in level for c in "f234"]
        out += level
    return out


def _widen(expr, frm, to):
    """an expression of `to` components from one of `frm` components"""
    if frm == to:
        return expr
    first = expr if frm == "f" else "%s.x" % expr
    n = IFACE_WIDTH[to]
    return first if n == 1 else "vec%d<f32>(%s)" % (n, first)


def _scalar_of(expr, t):
    return expr if t == "f" else "%s.x" % expr


def iface_entry(k, stage, seq, builtins, style=0, clip=1):
    """one entry point whose @location inputs AND outputs are the sequence `seq` (location i has type seq[i]);
    builtins=True appends every builtin the stage allows after them (they sort behind the locations in the
    DXIL signature).  style 0: IO structs; 1: bare arguments (outputs stay a struct).  Returns (name, text)."""
    name = "e%d" % k
    locs_in = ["@location(%d) a%d: %s" % (i, i, IFACE_TYPES[c]) for i, c in enumerate(seq)]
    locs_out = ["@location(%d) o%d: %s" % (i, i, IFACE_TYPES[c]) for i, c in enumerate(seq)]
    acc = " + ".join(_scalar_of(("a%d" if style else "in.a%d") % i, c) for i, c in enumerate(seq)) or "0.0"
    copy = ["  o.o%d = %s;" % (i, ("a%d" if style else "in.a%d") % i) for i, c in enumerate(seq)]
    if stage == "vertex":
        bin_ = ["@builtin(vertex_index) vi: u32", "@builtin(instance_index) ii: u32"] if builtins else []
        bout = ["@builtin(position) pos: vec4<f32>"] + (["@builtin(clip_distances) cd: array<f32, %d>" % clip] if builtins else [])
        extra = (" + f32(%s + %s)" % (("vi", "ii") if style else ("in.vi", "in.ii"))) if builtins else ""
        tail = ["  o.pos = vec4<f32>(%s%s, 0.0, 0.0, 1.0);" % (acc, extra)]
        if builtins:
            tail += ["  o.cd[%d] = %s;" % (i, acc) for i in range(clip)]
    else:
        bin_ = ["@builtin(position) fc: vec4<f32>", "@builtin(front_facing) ff: bool", "@builtin(sample_index) si: u32",
                "@builtin(sample_mask) sm: u32"] if builtins else []
        bout = ["@builtin(frag_depth) depth: f32", "@builtin(sample_mask) mask: u32"] if builtins else []
        pre = "" if style else "in."
        extra = (" + %sfc.x + f32(%ssi + %ssm) + select(0.0, 1.0, %sff)" % (pre, pre, pre, pre)) if builtins else ""
        tail = ["  o.depth = %s%s;" % (acc, extra), "  o.mask = 1u;"] if builtins else []
        if not builtins and not seq:
            return None
    members_in = locs_in + bin_
    members_out = locs_out + bout
    text = []
    if style == 0 and members_in:
        text.append("struct I%d {\n%s\n}" % (k, "\n".join("  %s," % m for m in members_in)))
        params = "in: I%d" % k
    else:
        params = ", ".join(members_in)
    if members_out:
        text.append("struct O%d {\n%s\n}" % (k, "\n".join("  %s," % m for m in members_out)))
        text.append("@%s\nfn %s(%s) -> O%d {\n  var o: O%d;\n%s\n  return o;\n}" % (stage, name, params, k, k, "\n".join(copy + tail)))
    else:
        text.append("@%s\nfn %s(%s) {\n}" % (stage, name, params))
    return name, "\n".join(text)


def iface_modules(per_module=10, maxlen=4):
    """Systematic sweep: for every sequence (iface_sequences) x {vertex, fragment} x {no builtins after the
    locations, all builtins after them} one entry point using the sequence for its inputs and its outputs.
    Entry points are grouped into modules of `per_module`.  Returns [(module source, [(entry name, shape key)])]
    with shape key 'iface:<stage>:<seq>:b<0|1>' (stable: it does not depend on the seed).  The clip distance array of the
    vertex "all builtins" variant has one element; three extra entries use 2, 3 and 4 elements."""
    entries = []
    k = 0
    for seq in iface_sequences(maxlen):
        for stage in ("vertex", "fragment"):
            for b in (False, True):
                e = iface_entry(k, stage, seq, b)
                if e:
                    entries.append((e[0], e[1], "iface:%s:%s:b%d" % (stage, seq, int(b))))
                    k += 1
    for clip in (2, 3, 4):      # multi-element clip distance arrays (the sweep uses one element)
        e = iface_entry(k, "vertex", "3f", True, clip=clip)
        entries.append((e[0], e[1], "iface:vertex:3f:clip%d" % clip))
        k += 1
    mods = []
    for i in range(0, len(entries), per_module):
        chunk = entries[i:i + per_module]
        mods.append(("enable clip_distances;\n" + "\n\n".join(t for _, t, _ in chunk) + "\n", [(n, key) for n, _, key in chunk]))
    # builtins of the graphics stages that are not plain signature elements of every part
    mods.append(("enable subgroups;\n"
                 "@fragment\nfn x0(@builtin(barycentric) bary: vec3<f32>, @location(0) a: vec2<f32>) -> @location(0) vec4<f32> {\n  return vec4<f32>(bary, a.x);\n}\n"
                 "@fragment\nfn x1(@location(0) a: vec3<f32>, @builtin(subgroup_size) ss: u32, @builtin(subgroup_invocation_id) si: u32) -> @location(0) vec4<f32> {\n"
                 "  return vec4<f32>(a, f32(ss + si));\n}\n"
                 "@vertex\nfn x2(@location(0) a: vec3<f32>, @builtin(subgroup_size) ss: u32) -> @builtin(position) vec4<f32> {\n  return vec4<f32>(a, f32(ss));\n}\n"
                 "@fragment\nfn x3(@builtin(view_index) vi: u32, @location(0) a: f32, @builtin(primitive_index) pi: u32) -> @location(0) vec4<f32> {\n"
                 "  return vec4<f32>(f32(vi + pi) + a);\n}\n"
                 "@vertex\nfn x4(@builtin(view_index) vi: u32, @location(0) a: f32) -> @builtin(position) vec4<f32> {\n  return vec4<f32>(f32(vi) + a);\n}\n",
                 [("x0", "iface:fragment:extra:barycentric"), ("x1", "iface:fragment:extra:subgroup"), ("x2", "iface:vertex:extra:subgroup"),
                  ("x3", "iface:fragment:extra:view_primitive"), ("x4", "iface:vertex:extra:view")]))
    return mods


IFACE_SCALARS = [("f32", None), ("u32", "flat"), ("i32", "flat"), ("f32", "flat"), ("f32", "linear"), ("f32", "perspective, centroid"),
                 ("f32", "linear, sample")]


def iface_random_module(r, n_entries=6):
    """sampled companion of the sweep: mixed scalar kinds and interpolation groups (each group packs into its own rows),
    sparse / shuffled locations, members declared in any order (builtins first or between locations), bare arguments,
    several structs per entry point, any subset of the builtins"""
    text = ["enable clip_distances;"]
    names = []
    for k in range(n_entries):
        stage = r.choice(["vertex", "fragment"])
        n = r.below(6)
        locs = r.shuffle(list(range(8)))[:n]
        def member(i, loc, pfx, inputs):
            sc, interp = r.choice(IFACE_SCALARS)
            w = r.choice([1, 2, 3, 4])
            ty = sc if w == 1 else "vec%d<%s>" % (w, sc)
            needs = (stage == "fragment" and inputs) or (stage == "vertex" and not inputs)
            if not needs:
                interp = None if sc == "f32" else None
            elif sc != "f32":
                interp = "flat"
            att = "@location(%d)%s" % (loc, " @interpolate(%s)" % interp if interp else "")
            return "%s %s%d: %s" % (att, pfx, i, ty), ty, sc, w
        ins = [member(i, loc, "a", True) for i, loc in enumerate(locs)]
        if stage == "vertex":
            bin_all = ["@builtin(vertex_index) vi: u32", "@builtin(instance_index) ii: u32"]
            outs = [member(i, loc, "o", False) for i, loc in enumerate(r.shuffle(list(range(8)))[:r.below(6)])]
            bout = ["@builtin(position) pos: vec4<f32>"] + (["@builtin(clip_distances) cd: array<f32, %d>" % r.range(1, 4)] if r.chance(1, 3) else [])
        else:
            bin_all = ["@builtin(position) fc: vec4<f32>", "@builtin(front_facing) ff: bool", "@builtin(sample_index) si: u32",
                       "@builtin(sample_mask) sm: u32"]
            outs = [member(i, loc, "o", False) for i, loc in enumerate(sorted(r.shuffle(list(range(8)))[:r.below(5)]))]
            bout = [b for b in ["@builtin(frag_depth) depth: f32", "@builtin(sample_mask) mask: u32"] if r.chance(1, 3)]
        bin_ = [b for b in bin_all if r.chance(1, 3)]
        m_in = r.shuffle([m[0] for m in ins] + bin_)
        m_out = r.shuffle([m[0] for m in outs] + bout)
        if stage == "fragment" and not m_out and r.chance(1, 2):
            m_out = ["@location(0) o0: vec4<f32>"]
            outs = [(m_out[0], "vec4<f32>", "f32", 4)]
        # inputs: split over up to two structs and bare arguments
        style = r.below(3)
        params = []
        decl = []
        if style == 0 or len(m_in) < 2:
            params = list(m_in)
        else:
            cut = len(m_in) if style == 1 else r.range(1, len(m_in) - 1)
            for si, part in enumerate([m_in[:cut], m_in[cut:]]):
                if part:
                    decl.append("struct I%d_%d {\n%s\n}" % (k, si, "\n".join("  %s," % m for m in part)))
                    params.append("in%d: I%d_%d" % (si, k, si))
        body = []
        for m in outs:
            nm = m[0].split(":")[0].split()[-1]
            body.append("  o.%s = %s();" % (nm, m[1]))
        if any("pos:" in b for b in m_out):
            body.append("  o.pos = vec4<f32>(0.0, 0.0, 0.0, 1.0);")
        if any("depth:" in b for b in m_out):
            body.append("  o.depth = 0.5;")
        if any("mask:" in b for b in m_out):
            body.append("  o.mask = 1u;")
        text += decl
        if m_out:
            text.append("struct O%d {\n%s\n}" % (k, "\n".join("  %s," % m for m in m_out)))
            text.append("@%s\nfn r%d(%s) -> O%d {\n  var o: O%d;\n%s\n  return o;\n}" % (stage, k, ", ".join(params), k, k, "\n".join(body)))
        else:
            text.append("@%s\nfn r%d(%s) {\n}" % (stage, k, ", ".join(params)))
        names.append("r%d" % k)
    return "\n\n".join(text) + "\n", names


# ------------------------------------------------------------------ nested control flow with promotable locals (systematic)

NEST_LOCALS = {
    "u32": lambda t, i, o: ["var %s: u32 = %s * 3u;" % (t, i), "%s = %s + 1u;" % (t, t), "%s = %s;" % (o, t)],
    "i32": lambda t, i, o: ["var %s: i32 = i32(%s) - 2;" % (t, i), "%s = %s * 3;" % (t, t), "%s = u32(%s);" % (o, t)],
    "f32": lambda t, i, o: ["var %s: f32 = f32(%s) * 0.5;" % (t, i), "%s = %s + 1.25;" % (t, t), "%s = u32(%s);" % (o, t)],
    "bool": lambda t, i, o: ["var %s: bool = %s > 1u;" % (t, i), "%s = !%s;" % (t, t), "%s = select(1u, 2u, %s);" % (o, t)],
    "vec": lambda t, i, o: ["var %s: vec2<u32> = vec2<u32>(%s, 1u);" % (t, i), "%s.x = %s.x + 1u;" % (t, t), "%s = %s.x + %s.y;" % (o, t, t)],
    "struct": lambda t, i, o: ["var %s: S;" % t, "%s.a = %s;" % (t, i), "%s.b = %s.a + 1u;" % (t, t), "%s = %s.b;" % (o, t)],
}


def _ind(lines, n=1):
    return ["  " * n + l for l in lines]


def _nest_nested(kind, local, idx):
    """lines of one compound statement whose body holds the promotable local (two bodies for if-else / switch)"""
    b = lambda t, i: NEST_LOCALS[local](t, i, "out[%s %% 4u]" % i)
    if kind == "for":
        return ["for (var i = 0u; i < 4u; i = i + 1u) {"] + _ind(b("t", "i")) + ["}"]
    if kind == "while":
        return ["var w = 0u;", "while (w < 3u) {"] + _ind(b("t", "w") + ["w = w + 1u;"]) + ["}"]
    if kind == "loop":
        return ["var l = 0u;", "loop {"] + _ind(b("t", "l") + ["continuing {", "  l = l + 1u;", "  break if l >= 3u;", "}"]) + ["}"]
    if kind == "if":
        return ["if (%s > 1u) {" % idx] + _ind(b("t", idx)) + ["}"]
    if kind == "ifelse":
        return ["if (%s > 1u) {" % idx] + _ind(b("t", idx)) + ["} else {"] + _ind(b("t2", idx)) + ["}"]
    if kind == "switch":
        return ["switch (%s) {" % idx, "  case 1u: {"] + _ind(b("t", idx), 2) + ["  }", "  default: {"] + _ind(b("t2", idx), 2) + ["  }", "}"]
    if kind == "block":
        return ["{"] + _ind(b("t", idx)) + ["}"]
    return b("t", idx)       # "none": the local sits directly in the container


def _nest_container(kind, x):
    other = ["out[0] = 1u;"]
    if kind == "else":
        return ["if (g == 0u) {"] + _ind(other) + ["} else {"] + _ind(x) + ["}"]
    if kind == "then":
        return ["if (g == 0u) {"] + _ind(x) + ["} else {"] + _ind(other) + ["}"]
    if kind == "elseif":
        return ["if (g == 0u) {"] + _ind(other) + ["} else if (g == 1u) {"] + _ind(["out[1] = 2u;"]) + ["} else {"] + _ind(x) + ["}"]
    if kind == "default":
        return ["switch (g) {", "  case 0u: {"] + _ind(other, 2) + ["  }", "  default: {"] + _ind(x, 2) + ["  }", "}"]
    if kind == "case":
        return ["switch (g) {", "  case 0u, 1u: {"] + _ind(x, 2) + ["  }", "  default: {"] + _ind(other, 2) + ["  }", "}"]
    if kind == "loop_in_else":
        return ["if (g == 0u) {"] + _ind(other) + ["} else {", "  for (var c = 0u; c < 2u; c = c + 1u) {"] + _ind(x, 2) + ["  }", "}"]
    if kind == "else_in_loop":
        return ["for (var c = 0u; c < 2u; c = c + 1u) {", "  if (c == g) {"] + _ind(other, 2) + ["  } else {"] + _ind(x, 2) + ["  }", "}"]
    if kind == "else_in_default":
        return ["switch (g) {", "  case 0u: {"] + _ind(other, 2) + ["  }", "  default: {", "    if (g == 2u) {"] + _ind(other, 3) + ["    } else {"] + _ind(x, 3) + ["    }", "  }", "}"]
    if kind == "continuing":
        return ["var c = 0u;", "loop {", "  if (c >= 2u) {", "    break;", "  }", "  continuing {"] + _ind(x, 2) + ["    c = c + 1u;", "  }", "}"]
    return x                 # "top"


NEST_CONTAINERS = ["else", "then", "elseif", "default", "case", "loop_in_else", "else_in_loop", "else_in_default", "continuing", "top"]
NEST_NESTED = ["for", "while", "loop", "if", "ifelse", "switch", "block", "none"]


def nest_programs():
    """Systematic family for the recompile / fresh-module monitors: container (else branch, else-if chain, switch default arm, switch
    case arm, loop inside else, else inside loop, else inside default, continuing block, then branch and function top level as
    baselines) x nested compound statement (for, while, loop+continuing, if, if-else, switch, block, none) x promotable local
    (u32, i32, f32, bool, vec2 with component store, two-member struct), in the entry point; and once more with the u32 local
    inside a helper function (not inlined: it has control flow).  Returns [(key, stage, source)]; keys do not depend on a seed."""
    out = []
    head = "struct S {\n  a: u32,\n  b: u32,\n}\n@group(0) @binding(0) var<storage, read_write> out: array<u32>;\n\n"
    for c in NEST_CONTAINERS:
        for n in NEST_NESTED:
            for loc in NEST_LOCALS:
                body = _nest_container(c, _nest_nested(n, loc, "g"))
                src = head + "@compute @workgroup_size(1)\nfn main(@builtin(global_invocation_id) gid: vec3<u32>) {\n  let g = gid.x;\n%s\n}\n" % "\n".join(_ind(body))
                out.append(("nest:%s:%s:%s:entry" % (c, n, loc), "compute", src))
            body = _nest_container(c, _nest_nested(n, "u32", "g"))
            src = head + "fn helper(g: u32) {\n%s\n}\n\n@compute @workgroup_size(1)\nfn main(@builtin(global_invocation_id) gid: vec3<u32>) {\n  helper(gid.x);\n  helper(gid.y);\n}\n" % "\n".join(_ind(body))
            out.append(("nest:%s:%s:u32:helper" % (c, n), "compute", src))
    # the same shapes reached from the graphics stages (interface lowering runs before the passes)
    for c in ("else", "default", "loop_in_else"):
        for n in ("for", "switch", "ifelse"):
            body = _nest_container(c, [l.replace("out[", "acc[") for l in _nest_nested(n, "u32", "g")])
            body = [l.replace("out[", "acc[") for l in body]
            src = ("@fragment\nfn main(@builtin(position) fc: vec4<f32>, @location(0) @interpolate(flat) g: u32) -> @location(0) vec4<f32> {\n"
                   "  var acc: array<u32, 4>;\n%s\n  return vec4<f32>(f32(acc[0]), f32(acc[1]), f32(acc[2]), f32(acc[3])) + fc;\n}\n" % "\n".join(_ind(body)))
            out.append(("nest:%s:%s:u32:fragment" % (c, n), "fragment", src))
            src = ("@vertex\nfn main(@builtin(vertex_index) g: u32) -> @builtin(position) vec4<f32> {\n"
                   "  var acc: array<u32, 4>;\n%s\n  return vec4<f32>(f32(acc[0]), f32(acc[1]), f32(acc[2]), f32(acc[3]));\n}\n" % "\n".join(_ind(body)))
            out.append(("nest:%s:%s:u32:vertex" % (c, n), "vertex", src))
    return out
