"""Correspondence check lexer model (extracted from Coq) vs wgsl lexer in /repo."""
import resource
import subprocess

import nagarun
import vcheck


def run_model(exe, rune_lists):
    inp = "".join(" ".join("%d:%d" % (r, s) for r, s in rl) + "\n" for rl in rune_lists)
    def big_stack():
        try:
            resource.setrlimit(resource.RLIMIT_STACK, (resource.RLIM_INFINITY, resource.RLIM_INFINITY))
        except Exception:
            try:
                resource.setrlimit(resource.RLIMIT_STACK, (1 << 30, 1 << 30))
            except Exception:
                pass
    p = subprocess.run([exe], input=inp, stdout=subprocess.PIPE, stderr=subprocess.PIPE, text=True, timeout=1200,
                       preexec_fn=big_stack)
    if p.returncode != 0:
        raise RuntimeError("lexer model driver failed: " + p.stderr[-2000:])
    out = []
    for line in p.stdout.splitlines():
        if line.startswith("OUTOFFUEL"):
            out.append(None)
            continue
        toks_s, _, opn = line.rpartition("|")
        toks = []
        for t in toks_s.split():
            k, l, c, lx = t.split(":")
            toks.append((int(k), [int(x) for x in lx.split(",")] if lx else [], int(l), int(c)))
        out.append((toks, opn.strip() == "true"))
    return out


def tokens_impl(tools, sources):
    """sources: list of bytes.  Returns list of dicts from nagadrive tokens."""
    jobs = [{"id": i, "hex": s.hex()} for i, s in enumerate(sources)]
    # hex "" means empty source: nagadrive treats empty hex as using src "", fine
    res = nagarun.parallel_batches(tools["nagadrive"], "tokens", jobs, per_job_timeout=10.0, chunk=200)
    return [res.get(i, {"crash": "noresult"}) for i in range(len(sources))]


def compare(tools, exe, sources, chunk=4000):
    """Returns (n_compared, mismatches) where a mismatch is a dict describing
    the first difference for one source.  Processed in chunks: the token lists of tens of
    thousands of sources do not have to be in memory at once."""
    if len(sources) > chunk:
        n, mism = 0, []
        for k in range(0, len(sources), chunk):
            a, b = compare(tools, exe, sources[k:k + chunk], chunk)
            for m in b:
                m["i"] += k
            n += a
            mism += b
        return n, mism
    impl = tokens_impl(tools, sources)
    rune_lists = []
    idx = []
    mism = []
    for i, r in enumerate(impl):
        if "crash" in r or "panic" in r:
            mism.append({"i": i, "what": "lexer crashed: %s" % (r.get("crash") or r.get("panic")), "src": sources[i]})
            continue
        rune_lists.append(r.get("runes") or [])
        idx.append(i)
    model = run_model(exe, rune_lists)
    for i, m in zip(idx, model):
        r = impl[i]
        if m is None:
            mism.append({"i": i, "what": "model out of fuel (contradicts lex_total)", "src": sources[i]})
            continue
        mtoks, _opn = m
        if "err" in r:
            mism.append({"i": i, "what": "Tokenize returned an error (%s) where the model returns tokens" % r["err"], "src": sources[i]})
            continue
        itoks = [(t[0], t[1] or [], t[2], t[3]) for t in r["toks"]]
        if len(itoks) != len(mtoks):
            mism.append({"i": i, "what": "token count %d (naga) vs %d (model)" % (len(itoks), len(mtoks)),
                         "src": sources[i], "impl": itoks[:50], "model": mtoks[:50]})
            continue
        for k, (a, b) in enumerate(zip(itoks, mtoks)):
            if a != b:
                mism.append({"i": i, "what": "token %d: naga %s vs model %s" % (k, a, b), "src": sources[i]})
                break
    return len(idx), mism


def strip_tokens(tools, sources):
    """(kind, lexeme-string) lists from the implementation, None on error."""
    out = []
    for r in tokens_impl(tools, sources):
        if "toks" not in r:
            out.append(None)
        else:
            out.append([(t[0], "".join(chr(c) for c in (t[1] or []))) for t in r["toks"]])
    return out
