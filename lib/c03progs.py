"""Hand-written WGSL compute programs for the C03 differential validation (IR vs emitted HLSL).

Every program keeps its dynamic indices in bounds for ALL inputs (`% N`), so that the WGSL result
is defined on the whole boundary pool.  PROGRAMS: (name, wgsl source).  KNOWN: programs that isolate
a construct on which a finding is open (the mismatch key `diff:<name>` is then a known finding)."""

HDR = """
@group(0) @binding(0) var<storage, read_write> o: array<u32, 64>;
@group(0) @binding(1) var<storage, read_write> oi: array<i32, 64>;
@group(0) @binding(2) var<storage, read_write> of: array<f32, 64>;
"""

PROGRAMS = []


def prog(name, src, hdr=True):
    PROGRAMS.append((name, (HDR if hdr else "") + src))


prog("arith_i32", """
@compute @workgroup_size(1) fn main() {
  let a = oi[0]; let b = oi[1]; let n = o[0];
  oi[2] = a + b; oi[3] = a - b; oi[4] = a * b; oi[5] = a / b; oi[6] = a % b;
  oi[7] = a & b; oi[8] = a | b; oi[9] = a ^ b; oi[10] = a << n; oi[11] = a >> n;
  oi[12] = -a; oi[13] = ~a; oi[14] = abs(a); oi[15] = min(a, b); oi[16] = max(a, b);
  oi[17] = clamp(a, b, oi[20]); oi[18] = sign(a);
  o[2] = select(0u, 1u, a < b); o[3] = select(0u, 1u, a <= b); o[4] = select(0u, 1u, a > b);
  o[5] = select(0u, 1u, a >= b); o[6] = select(0u, 1u, a == b); o[7] = select(0u, 1u, a != b);
  oi[19] = select(a, b, n > 5u);
  oi[21] = b / a; oi[22] = b % a; oi[23] = (a + 1) * (b - 1) / (a | 1);
}""")

prog("arith_u32", """
@compute @workgroup_size(1) fn main() {
  let a = o[0]; let b = o[1]; let n = o[2];
  o[3] = a + b; o[4] = a - b; o[5] = a * b; o[6] = a / b; o[7] = a % b;
  o[8] = a & b; o[9] = a | b; o[10] = a ^ b; o[11] = a << n; o[12] = a >> n;
  o[13] = ~a; o[14] = abs(a); o[15] = min(a, b); o[16] = max(a, b); o[17] = clamp(a, b, n);
  o[18] = select(0u, 1u, a < b); o[19] = select(0u, 1u, a <= b); o[20] = select(0u, 1u, a > b);
  o[21] = select(0u, 1u, a >= b); o[22] = select(0u, 1u, a == b); o[23] = select(0u, 1u, a != b);
  o[24] = select(a, b, n > 5u); o[25] = b / a; o[26] = b % a; o[27] = (a + 1u) * (b - 1u) / (a | 1u);
}""")

prog("arith_f32", """
@compute @workgroup_size(1) fn main() {
  let a = of[0]; let b = of[1]; let c = of[2];
  of[3] = a + b; of[4] = a - b; of[5] = a * b; of[6] = a / b; of[7] = -a; of[8] = abs(a);
  of[9] = min(a, b); of[10] = max(a, b); of[11] = clamp(a, b, c);
  of[12] = floor(a); of[13] = ceil(a); of[14] = trunc(a); of[15] = round(a); of[16] = sqrt(a);
  of[17] = fma(a, b, c); of[18] = saturate(a);
  o[2] = select(0u, 1u, a < b); o[3] = select(0u, 1u, a <= b); o[4] = select(0u, 1u, a > b);
  o[5] = select(0u, 1u, a >= b); o[6] = select(0u, 1u, a == b); o[7] = select(0u, 1u, a != b);
  of[19] = select(a, b, c > 1.0); of[20] = (a + b) * c - a / (b + 1.5);
}""")

prog("bool_ops", """
@compute @workgroup_size(1) fn main() {
  let a = o[0] > 3u; let b = oi[0] < 0; let c = of[0] >= 1.0;
  o[1] = select(0u, 1u, a && b); o[2] = select(0u, 1u, a || c); o[3] = select(0u, 1u, !a);
  o[4] = select(0u, 1u, a & b); o[5] = select(0u, 1u, b | c); o[6] = select(0u, 1u, a == c); o[7] = select(0u, 1u, a != b);
  let v = vec3<bool>(a, b, c);
  o[8] = select(0u, 1u, all(v)); o[9] = select(0u, 1u, any(v)); o[10] = select(2u, 7u, select(a, b, c));
  let w = !v; o[11] = select(0u, 1u, w.x) + select(0u, 2u, w.y) + select(0u, 4u, w.z);
  o[12] = u32(a) + u32(b) * 2u; oi[1] = i32(c); of[1] = f32(a);
  o[13] = select(0u, 1u, bool(o[0])) + select(0u, 2u, bool(oi[0])) + select(0u, 4u, bool(of[0]));
}""")

prog("vec_i32", """
@group(0) @binding(3) var<storage, read_write> v: array<vec4<i32>, 16>;
@group(0) @binding(4) var<storage, read_write> w: array<vec3<i32>, 16>;
@group(0) @binding(5) var<storage, read_write> z: array<vec2<i32>, 16>;
@compute @workgroup_size(1) fn main() {
  let a = v[0]; let b = v[1]; let n = vec4<u32>(o[0], o[1], o[2], o[3]);
  v[2] = a + b; v[3] = a - b; v[4] = a * b; v[5] = a / b; v[6] = a % b; v[7] = a & b; v[8] = a | b; v[9] = a ^ b;
  v[10] = a << n; v[11] = a >> n; v[12] = -a; v[13] = ~a; v[14] = abs(a); v[15] = clamp(a, min(a, b), max(a, b));
  let p = w[0]; let q = w[1];
  w[2] = p * q + p; w[3] = select(p, q, p < q); w[4] = p / q; w[5] = sign(p); w[6] = p * 3; w[7] = 7 / q; w[8] = vec3<i32>(dot(p, q));
  let s = z[0]; let t = z[1];
  z[2] = s % t; z[3] = select(s, t, o[4] > 2u); z[4] = vec2<i32>(dot(s, t), s.y - t.x); z[5] = -s.yx;
}""")

prog("vec_u32", """
@group(0) @binding(3) var<storage, read_write> v: array<vec4<u32>, 16>;
@group(0) @binding(4) var<storage, read_write> w: array<vec3<u32>, 16>;
@group(0) @binding(5) var<storage, read_write> z: array<vec2<u32>, 16>;
@compute @workgroup_size(1) fn main() {
  let a = v[0]; let b = v[1];
  v[2] = a + b; v[3] = a - b; v[4] = a * b; v[5] = a / b; v[6] = a % b; v[7] = a & b; v[8] = a | b; v[9] = a ^ b;
  v[10] = a << b; v[11] = a >> b; v[12] = ~a; v[13] = min(a, b); v[14] = max(a, b); v[15] = clamp(a, b, v[2]);
  let p = w[0]; let q = w[1];
  w[2] = p * q + p; w[3] = select(p, q, p < q); w[4] = p / q; w[5] = p % 7u; w[6] = 9u / q; w[7] = vec3<u32>(dot(p, q));
  let s = z[0]; let t = z[1];
  z[2] = s % t; z[3] = select(s, t, o[4] > 2u); z[4] = vec2<u32>(dot(s, t), s.y - t.x); z[5] = s.yx << vec2<u32>(33u, 31u);
}""")

prog("vec_f32", """
@group(0) @binding(3) var<storage, read_write> v: array<vec4<f32>, 16>;
@group(0) @binding(4) var<storage, read_write> w: array<vec3<f32>, 16>;
@group(0) @binding(5) var<storage, read_write> z: array<vec2<f32>, 16>;
@compute @workgroup_size(1) fn main() {
  let a = v[0]; let b = v[1];
  v[2] = a + b; v[3] = a - b; v[4] = a * b; v[5] = a / b; v[6] = -a; v[7] = abs(a); v[8] = min(a, b); v[9] = max(a, b);
  v[10] = clamp(a, b, v[2]); v[11] = floor(a); v[12] = ceil(b); v[13] = trunc(a); v[14] = round(b); v[15] = fma(a, b, a);
  let p = w[0]; let q = w[1];
  w[2] = p * 2.0; w[3] = select(p, q, p < q); w[4] = 3.0 / q; w[5] = sqrt(p); w[6] = saturate(q); w[7] = vec3<f32>(dot(p, q));
  let s = z[0]; let t = z[1];
  z[2] = s.yx + t; z[3] = select(s, t, of[0] > 2.0); z[4] = vec2<f32>(dot(s, t), s.y - t.x);
  of[1] = a.w + p.z + s.y;
}""")

prog("conversions", """
@compute @workgroup_size(1) fn main() {
  let a = oi[0]; let b = o[0]; let f = of[0];
  of[1] = f32(a); of[2] = f32(b); o[1] = u32(a); oi[1] = i32(b);
  o[2] = bitcast<u32>(f); oi[2] = bitcast<i32>(f); of[3] = bitcast<f32>(a); of[4] = bitcast<f32>(b);
  o[3] = bitcast<u32>(a); oi[3] = bitcast<i32>(b);
  let v = vec3<i32>(a, oi[4], oi[5]);
  let vf = vec3<f32>(v); of[5] = vf.x; of[6] = vf.y; of[7] = vf.z;
  let vu = vec3<u32>(v); o[4] = vu.x + vu.y + vu.z;
  let bb = vec3<u32>(bitcast<vec3<u32>>(vf)); o[5] = bb.x ^ bb.y ^ bb.z;
}""")

prog("f2i", """
@compute @workgroup_size(1) fn main() {
  // operands kept below 2^31 (2^32 for u32): above, Base/F32.v and the WGSL clamp rule differ (see QUESTIONS)
  let f = clamp(of[0], -3.0e9, 2.0e9); let g = clamp(of[1], -7.0, 4.0e9);
  oi[0] = i32(f); o[0] = u32(g); oi[1] = i32(f * 0.5); o[1] = u32(abs(f));
  let v = vec2<f32>(f, f * 0.25); let vi = vec2<i32>(v); let vu = vec2<u32>(vec2<f32>(g, g * 0.5));
  oi[2] = vi.x; oi[3] = vi.y; o[2] = vu.x; o[3] = vu.y;
}""")

prog("bits", """
@compute @workgroup_size(1) fn main() {
  let a = o[0]; let b = oi[0];
  o[1] = countOneBits(a); oi[1] = countOneBits(b); o[2] = reverseBits(a); oi[2] = reverseBits(b);
  o[3] = firstLeadingBit(a); oi[3] = firstLeadingBit(b); o[4] = firstTrailingBit(a); oi[4] = firstTrailingBit(b);
  o[5] = extractBits(a, o[10], o[11]); oi[5] = extractBits(b, o[10], o[11]);
  o[6] = insertBits(a, o[12], o[10], o[11]); oi[6] = insertBits(b, oi[12], o[10], o[11]);
  let v = vec2<u32>(a, o[13]); let r = firstLeadingBit(v); o[7] = r.x; o[8] = r.y;
  let e = extractBits(v, 4u, 9u); o[9] = e.x + e.y;
}""")

prog("loop_continuing", """
@compute @workgroup_size(1) fn main() {
  var i = 0u; var acc = o[0]; let n = o[1] % 9u;
  loop {
    if (i >= n) { break; }
    if ((i & 1u) == 1u) { continue; }
    acc = acc * 3u + i;
    continuing { i = i + 1u; acc = acc ^ 5u; }
  }
  o[2] = acc; o[3] = i;
  var j = 0; var s = 0;
  loop {
    s = s + j * j;
    continuing { j = j + 1; break if (j > oi[0] % 7); }
  }
  oi[1] = s; oi[2] = j;
  var k = 10u;
  while (k > 2u) { k = k - 1u; if (k == o[4] % 10u) { continue; } o[5] = o[5] + k; }
  for (var q = 0u; q < 5u; q = q + 1u) { if (q == 2u) { continue; } if (q == o[6] % 8u) { break; } o[7] = o[7] * 2u + q; }
}""")

prog("switch_in_loop", """
@compute @workgroup_size(1) fn main() {
  var acc = 0u; var r = 0;
  for (var i = 0u; i < 8u; i = i + 1u) {
    switch ((o[i] + i) % 6u) {
      case 0u, 1u: { acc = acc + 1u; }
      case 2u: { acc = acc * 2u; continue; }
      case 3u: { if (acc > 10u) { break; } acc = acc + 100u; }
      case 4u, default: { acc = acc ^ i; r = r - 1; }
    }
    r = r + 2;
  }
  o[10] = acc; oi[0] = r;
  var x = oi[1]; var guard = 0u;
  loop {
    guard = guard + 1u; if (guard > 20u) { break; }
    switch (x & 3) {
      case 0: { x = x + 5; continue; }
      case 1: { x = x * 3; }
      default: { break; }
    }
    if (x > 100 || x < -100) { break; }
    x = x - 7;
    if (x == oi[2]) { break; }
    continuing { x = x + 1; }
  }
  oi[3] = x;
}""")

prog("nested_control", """
fn classify(v: i32) -> u32 {
  switch (v) {
    case 1: { return 10u; }
    case 2, 3: { return 20u; }
    case -1: { return 30u; }
    default: { }
  }
  if (v > 100) { return 40u; }
  var k = 0u;
  loop { if (k > 3u) { return k + 50u; } k = k + 1u; }
  return 99u;
}
@compute @workgroup_size(1) fn main() {
  var total = 0u;
  for (var i = 0; i < 4; i = i + 1) {
    for (var j = 0; j < 3; j = j + 1) {
      if (i == j) { continue; }
      switch (i + j) {
        case 1: { total = total + classify(oi[i]); }
        case 2: { loop { total = total + 1u; if (total % 3u == 0u) { break; } } }
        default: { if (j == 2) { break; } total = total + classify(oi[4 + j]) * 2u; }
      }
      if (total > 1000u) { o[1] = 7u; return; }
    }
  }
  o[0] = total;
}""")

prog("pointer_args", """
fn bump(p: ptr<function, i32>, by: i32) -> i32 { let old = *p; *p = old + by; return old; }
fn swap(a: ptr<function, u32>, b: ptr<function, u32>) { let t = *a; *a = *b; *b = t; }
fn accumulate(arr: ptr<function, array<u32, 4>>, k: u32) { (*arr)[k % 4u] = (*arr)[k % 4u] + k; }
fn setx(v: ptr<function, vec3<f32>>, x: f32) { (*v).x = x; (*v).z = (*v).y + x; }
struct P { a: i32, b: vec2<u32> }
fn poke(s: ptr<function, P>) { (*s).a = (*s).a * 2; (*s).b.y = (*s).b.x + 1u; }
@compute @workgroup_size(1) fn main() {
  var x = oi[0]; let r = bump(&x, 5); let r2 = bump(&x, r);
  oi[1] = x; oi[2] = r; oi[3] = r2;
  var p = o[0]; var q = o[1]; swap(&p, &q); o[2] = p; o[3] = q;
  var arr = array<u32, 4>(1u, 2u, 3u, 4u);
  accumulate(&arr, o[4]); accumulate(&arr, o[5]); accumulate(&arr, 7u);
  o[6] = arr[0]; o[7] = arr[1]; o[8] = arr[2]; o[9] = arr[3];
  var v = vec3<f32>(of[0], of[1], of[2]); setx(&v, 2.5); of[3] = v.x; of[4] = v.y; of[5] = v.z;
  var s = P(oi[4], vec2<u32>(o[10], o[11])); poke(&s); oi[5] = s.a; o[12] = s.b.x; o[13] = s.b.y;
}""")

prog("struct_store_offsets", """
struct Inner { a: i32, b: vec3<f32>, c: u32, d: vec2<i32> }
struct Outer { x: u32, inner: Inner, arr: array<Inner, 3>, m: mat3x3<f32>, tail: vec4<u32> }
@group(0) @binding(3) var<storage, read_write> s: Outer;
@group(0) @binding(4) var<storage, read_write> t: array<Outer, 2>;
@compute @workgroup_size(1) fn main() {
  let i = o[0] % 3u; let j = o[1] % 2u;
  s.x = 11u; s.inner.a = -3; s.inner.b = vec3<f32>(1.0, 2.0, 3.0); s.inner.c = 12u; s.inner.d = vec2<i32>(4, 5);
  s.arr[i].a = oi[0]; s.arr[i].b.y = of[0]; s.arr[2u - i].c = o[2]; s.arr[1].d.x = oi[1]; s.arr[i].d[j] = 77;
  s.m[1] = vec3<f32>(of[1], of[2], of[3]); s.m[i][j] = 9.0; s.tail.z = o[3]; s.tail[i] = 5u;
  t[j].arr[i].b = s.inner.b * 2.0; t[1u - j].inner = s.arr[i]; t[j].x = s.arr[i].c + s.tail.w;
  t[j].m = s.m; t[1].tail = s.tail + vec4<u32>(1u);
  o[4] = t[j].arr[i].c; oi[2] = t[1u - j].inner.d.y; of[4] = t[j].m[2].z + s.m[i].y;
}""")

prog("struct_copy", """
struct Inner { a: i32, b: vec3<f32>, c: array<u32, 3> }
struct Outer { i: Inner, v: vec2<f32>, k: array<Inner, 2> }
@group(0) @binding(3) var<storage, read_write> src: Outer;
@group(0) @binding(4) var<storage, read_write> dst: Outer;
@compute @workgroup_size(1) fn main() {
  var loc = src; loc.i.a = loc.i.a + 1; loc.k[1].c[2] = 99u; loc.k[0] = loc.i;
  dst = loc;
  var arr = src.k; arr[0].b.z = 4.0; dst.k[1] = arr[0];
  let inner = src.i; dst.i.c = inner.c; dst.v = src.v.yx;
}""")

prog("uniform_read", """
struct Inner { a: i32, b: vec3<f32>, c: u32 }
struct U { x: u32, inner: Inner, arr: array<vec4<f32>, 3>, m3: mat3x3<f32>, m42: mat4x2<f32>, v2: vec2<i32>, ia: array<Inner, 2>, m22: mat2x2<f32> }
@group(0) @binding(3) var<uniform> u: U;
@group(0) @binding(4) var<uniform> uv: vec3<i32>;
@compute @workgroup_size(1) fn main() {
  let i = o[0] % 3u; let j = o[1] % 2u;
  o[2] = u.x + u.inner.c; oi[0] = u.inner.a + uv.y + u.v2.x; of[0] = u.inner.b.z + u.arr[i].w + u.arr[2].x;
  let m = u.m22; of[1] = m[0].x; of[2] = m[1].y; of[3] = u.m22[j].x;
  let c = u.m3[i]; of[4] = c.x + c.z; let w = u.m42[3]; of[5] = w.y; of[6] = u.m42[i].x;
  let p = u.m3 * u.inner.b; of[7] = p.x; of[8] = p.y; of[9] = p.z;
  let whole = u.inner; oi[1] = whole.a; o[3] = u.ia[j].c; of[12] = u.ia[j].b.y;
  let q = u.m42 * vec4<f32>(1.0, 2.0, 3.0, 4.0); of[13] = q.x; of[14] = q.y;
}""")

prog("workgroup_vars", """
struct W { a: u32, b: array<i32, 4>, v: vec3<f32> }
var<workgroup> wa: array<u32, 8>;
var<workgroup> ws: W;
var<workgroup> wx: i32;
@compute @workgroup_size(1) fn main(@builtin(local_invocation_id) lid: vec3<u32>, @builtin(global_invocation_id) gid: vec3<u32>) {
  let i = o[0] % 8u;
  o[1] = wa[i] + ws.a; oi[0] = wx + ws.b[i % 4u]; of[0] = ws.v.y;
  wa[i] = o[2]; wa[(i + 1u) % 8u] = wa[i] + 1u; ws.b[2] = -5; ws.v = vec3<f32>(1.0, 2.0, 3.0); wx = 7;
  workgroupBarrier();
  o[3] = wa[0] + wa[1] + wa[i]; oi[1] = ws.b[2] * wx; of[1] = ws.v.z; o[4] = lid.x + gid.x + gid.y;
}""")

prog("private_vars", """
var<private> pa: i32 = 5;
var<private> pv: vec3<u32> = vec3<u32>(1u, 2u, 3u);
var<private> pz: f32;
struct S { a: u32, b: vec2<f32> }
var<private> ps: S = S(9u, vec2<f32>(0.5, 1.5));
fn touch() { pa = pa + 1; pv.y = pv.y * 2u; ps.b.x = ps.b.x + 1.0; }
@compute @workgroup_size(1) fn main() {
  touch(); touch();
  oi[0] = pa; o[0] = pv.x + pv.y + pv.z; of[0] = pz + ps.b.x; o[1] = ps.a; pz = of[1]; of[2] = pz * 2.0;
}""")

prog("matrices", """
@group(0) @binding(3) var<storage, read_write> m4: array<mat4x4<f32>, 3>;
@group(0) @binding(4) var<storage, read_write> m3: array<mat3x3<f32>, 3>;
@group(0) @binding(5) var<storage, read_write> m2: array<mat2x2<f32>, 3>;
@group(0) @binding(6) var<storage, read_write> m43: array<mat4x3<f32>, 3>;
@group(0) @binding(7) var<storage, read_write> m32: array<mat3x2<f32>, 3>;
@compute @workgroup_size(1) fn main() {
  let a = m4[0]; let b = m4[1]; m4[2] = a * b;
  let v4 = vec4<f32>(of[0], of[1], of[2], of[3]); let r = a * v4; of[4] = r.x; of[5] = r.y; of[6] = r.z; of[7] = r.w;
  let l = v4 * b; of[8] = l.x; of[9] = l.w;
  let two = of[18]; m3[2] = m3[0] * m3[1] + m3[0] - m3[1]; m2[2] = m2[0] * two; m2[1] = two * m2[0];
  let p = m43[0]; let q = p * v4; of[10] = q.x; of[11] = q.y; of[12] = q.z;
  let q2 = vec3<f32>(of[0], of[1], of[2]) * p; of[13] = q2.x; of[14] = q2.w;
  m43[2] = m3[0] * m43[1];
  let s = m32[0]; let t = s * vec3<f32>(of[1], of[2], of[3]); of[15] = t.x; of[16] = t.y;
  m32[2] = m2[0] * m32[1]; m32[1][2] = vec2<f32>(7.0, 8.0); m43[1][o[0] % 4u].y = 3.0; of[17] = m43[0][o[1] % 4u][o[2] % 3u];
  var loc = m3[0]; loc[1] = vec3<f32>(1.0, 2.0, 3.0); loc[o[0] % 3u].z = 5.0; m3[1] = loc;
}""")

prog("array_length", """
@group(0) @binding(3) var<storage, read_write> ra: array<u32>;
struct R { n: u32, items: array<vec2<i32>> }
@group(0) @binding(4) var<storage, read_write> rs: R;
@compute @workgroup_size(1) fn main() {
  let n = arrayLength(&ra); let m = arrayLength(&rs.items);
  o[0] = n; o[1] = m; ra[n - 1u] = 42u; ra[o[2] % n] = ra[0] + 1u;
  rs.items[m - 1u] = vec2<i32>(1, 2); rs.items[o[3] % m].y = i32(m); rs.n = n + m;
}""")

prog("swizzle_components", """
@compute @workgroup_size(1) fn main() {
  var v = vec4<f32>(of[0], of[1], of[2], of[3]);
  v.y = v.x + 1.0; v[o[0] % 4u] = 9.0; let s = v.wzyx; let t = s.xy + v.zw;
  of[4] = s.x; of[5] = s.y; of[6] = t.x; of[7] = t.y; of[8] = v.zzz.y;
  var u = vec3<u32>(o[1], o[2], o[3]); u.z = u.x ^ u.y; u[o[4] % 3u] += 5u;
  o[5] = u.x; o[6] = u.y; o[7] = u.z; let k = u.yx; o[8] = k.x * 16u + k.y;
  var iv = vec2<i32>(oi[0], oi[1]); iv.x -= 3; iv.y *= iv.x; oi[2] = iv.x; oi[3] = iv.y;
  let c = vec4<f32>(vec2<f32>(of[0], of[1]), of[2], 1.0); of[9] = c.z + c.w; let d = vec3<f32>(of[3]); of[10] = d.y;
}""")

prog("emit_order", """
struct S { a: u32, b: u32 }
@group(0) @binding(3) var<storage, read_write> s: S;
fn side() -> u32 { s.a = s.a + 10u; return s.a; }
@compute @workgroup_size(1) fn main() {
  let x = s.a; s.a = 5u; s.b = x;
  let y = s.a + s.b; s.b = 100u; o[0] = y; o[1] = s.b;
  let p = side(); let q = s.a; let r = side(); o[2] = p; o[3] = q; o[4] = r;
  var t = o[5]; let u = t; t = t + 1u; let w = t; o[6] = u; o[7] = w; o[8] = u + w;
  o[9] = o[9] + 1u; o[9] = o[9] * 2u; o[10] = o[9];
}""")

prog("compound_assign", """
@group(0) @binding(3) var<storage, read_write> a: array<vec4<i32>, 4>;
@compute @workgroup_size(1) fn main() {
  let i = o[0] % 4u;
  o[1] += 3u; o[2] -= o[1]; o[3] *= 5u; o[4] /= o[5]; o[6] %= o[5]; o[7] &= 0xffu; o[8] |= 0x100u; o[9] ^= o[1]; o[10] <<= 3u; o[11] >>= o[0];
  a[i] += vec4<i32>(1, 2, 3, 4); a[i].y *= 2; a[(i + 1u) % 4u].z -= oi[0]; a[i][o[1] % 4u] /= oi[1];
  oi[2]++; oi[3]--; of[0] += 1.5; of[1] *= of[0]; of[2] /= 4.0;
}""")

prog("early_return_struct", """
struct R { ok: u32, v: vec2<f32>, arr: array<i32, 3> }
fn make(k: u32) -> R {
  if (k == 0u) { return R(0u, vec2<f32>(0.0, 0.0), array<i32, 3>(0, 0, 0)); }
  var r: R; r.ok = k; r.v = vec2<f32>(f32(k), 2.0); r.arr[k % 3u] = 7;
  for (var i = 0u; i < 3u; i = i + 1u) { if (i == k) { return r; } r.arr[i] = r.arr[i] + 1; }
  return r;
}
fn depth(a: u32) -> u32 { return make(a).ok + make(a + 1u).ok * 2u; }
@compute @workgroup_size(1) fn main() {
  let r = make(o[0] % 5u); o[1] = r.ok; of[0] = r.v.x + r.v.y; oi[0] = r.arr[0]; oi[1] = r.arr[1]; oi[2] = r.arr[2];
  o[2] = depth(o[3] % 4u);
}""")

prog("shifts_edge", """
@compute @workgroup_size(1) fn main() {
  let a = o[0]; let b = oi[0]; let n = o[1];
  o[2] = a << n; o[3] = a >> n; oi[1] = b << n; oi[2] = b >> n;
  o[4] = a << (n + 32u); o[5] = a >> (n & 31u); oi[3] = b >> (n | 32u); o[6] = 1u << n; oi[4] = -1 >> n;
}""")

prog("div_edge_vec", """
@group(0) @binding(3) var<storage, read_write> v: array<vec4<i32>, 8>;
@group(0) @binding(4) var<storage, read_write> w: array<vec4<u32>, 8>;
@compute @workgroup_size(1) fn main() {
  v[2] = v[0] / v[1]; v[3] = v[0] % v[1]; v[4] = v[0] / vec4<i32>(0, -1, 1, 2); v[5] = vec4<i32>(-2147483647 - 1) / v[1];
  v[6] = vec4<i32>(-2147483647 - 1) % v[1]; v[7] = -v[0];
  w[2] = w[0] / w[1]; w[3] = w[0] % w[1]; w[4] = w[0] / vec4<u32>(0u, 1u, 2u, 4294967295u); w[5] = w[0] % vec4<u32>(0u, 1u, 2u, 4294967295u);
}""")

prog("select_vec", """
@group(0) @binding(3) var<storage, read_write> v: array<vec3<f32>, 8>;
@group(0) @binding(4) var<storage, read_write> w: array<vec3<i32>, 8>;
@compute @workgroup_size(1) fn main() {
  let a = v[0]; let b = v[1]; let c = a < b;
  v[2] = select(a, b, c); v[3] = select(a, b, o[0] > 3u); v[4] = select(b, a, !c);
  let p = w[0]; let q = w[1];
  w[2] = select(p, q, p == q); w[3] = select(p, q, vec3<bool>(true, false, o[1] > 1u)); w[4] = select(vec3<i32>(0), vec3<i32>(1), p >= q);
  o[2] = select(o[3], o[4], all(c)); o[5] = select(1u, 2u, any(p != q));
}""")

prog("local_arrays", """
@compute @workgroup_size(1) fn main() {
  var a: array<i32, 5>; var b = array<u32, 3>(o[0], o[1], o[2]);
  let i = o[3] % 5u; let j = o[4] % 3u;
  a[i] = oi[0]; a[(i + 2u) % 5u] = a[i] + 1; a[4] = a[4] - 3;
  b[j] = b[(j + 1u) % 3u] * 2u;
  oi[1] = a[0] + a[1] + a[2] + a[3] + a[4]; o[5] = b[0]; o[6] = b[1]; o[7] = b[2];
  var m: array<vec2<f32>, 2>; m[j % 2u].y = of[0]; m[1].x = m[0].y + 1.0; of[1] = m[0].y; of[2] = m[1].x + m[1].y;
  var nested: array<array<u32, 2>, 3>; nested[j][i % 2u] = 5u; nested[2][1] = nested[j][0] + 1u;
  o[8] = nested[0][0] + nested[0][1] * 2u + nested[1][0] * 4u + nested[1][1] * 8u + nested[2][0] * 16u + nested[2][1] * 32u;
}""")

prog("const_arrays", """
const TABLE = array<u32, 4>(3u, 1u, 4u, 1u);
const K: i32 = 7;
const V = vec3<f32>(1.0, 2.0, 3.0);
@compute @workgroup_size(1) fn main() {
  var t = TABLE; let i = o[0] % 4u;
  o[1] = t[i] + TABLE[2]; oi[0] = K * oi[1]; of[0] = V.y * of[1] + V[2];
  let big = array<i32, 3>(K, K + 1, oi[2]); oi[3] = big[1] + big[2];
}""")

prog("while_for", """
@compute @workgroup_size(1) fn main() {
  var n = o[0] % 50u; var steps = 0u;
  while (n != 1u && n != 0u) { if ((n & 1u) == 0u) { n = n / 2u; } else { n = 3u * n + 1u; } steps = steps + 1u; if (steps > 200u) { break; } }
  o[1] = steps;
  var sum = 0; for (var i = 0; i < 10; i++) { for (var j = i; j < 10; j += 3) { if (((i + j) & 1) == 1) { continue; } sum += i * j; } }
  oi[0] = sum;
  var f = 1.0; var k = 0; loop { if (k >= 5) { break; } f = f * 1.5; k++; } of[0] = f;
}""")

prog("one_body_switch", """
@compute @workgroup_size(1) fn main() {
  var acc = 0u;
  for (var i = 0u; i < 5u; i = i + 1u) {
    switch (o[i] % 3u) { default: { if (i == 2u) { continue; } acc = acc + i; } }
    switch (i) { case 0u, 1u, default: { acc = acc * 2u; if (acc > 40u) { break; } acc = acc + 1u; } }
  }
  o[5] = acc;
  switch (oi[0]) { default: { oi[1] = 5; } }
}""")

prog("vec_scalar_mix", """
@group(0) @binding(3) var<storage, read_write> v: array<vec3<i32>, 8>;
@group(0) @binding(4) var<storage, read_write> w: array<vec3<f32>, 8>;
@group(0) @binding(5) var<storage, read_write> x: array<vec3<u32>, 8>;
@compute @workgroup_size(1) fn main() {
  let a = v[0]; let s = oi[0];
  v[1] = a + s; v[2] = s - a; v[3] = a * s; v[4] = a / s; v[5] = s / a; v[6] = a % s; v[7] = s % a;
  let f = w[0]; let g = of[0];
  w[1] = f + g; w[2] = g - f; w[3] = f * g; w[4] = f / g; w[5] = g / f;
  let u = x[0]; let t = o[0];
  x[1] = u + t; x[2] = t - u; x[3] = u * t; x[4] = u / t; x[5] = t / u; x[6] = u % t; x[7] = t % u;
}""")

prog("mat_cx2_local", """
struct M { m: mat3x2<f32>, k: u32, n: mat2x2<f32> }
@group(0) @binding(3) var<uniform> u: M;
@group(0) @binding(4) var<storage, read_write> s: M;
@compute @workgroup_size(1) fn main() {
  let a = u.m; let b = u.n;
  s.m = a; s.n = b * b; s.k = u.k + 1u;
  s.m[1] = vec2<f32>(of[0], of[1]); s.n[o[0] % 2u].y = 4.0;
  let c = u.m[o[1] % 3u]; of[2] = c.x + c.y; of[3] = u.n[1].x; of[4] = u.m[2][o[2] % 2u];
  let t = s.m * vec3<f32>(1.0, 2.0, 3.0); of[5] = t.x; of[6] = t.y;
}""")

prog("atomics_seq", """
struct A { c: atomic<u32>, d: array<atomic<i32>, 3> }
@group(0) @binding(3) var<storage, read_write> a: A;
var<workgroup> wc: atomic<u32>;
@compute @workgroup_size(1) fn main() {
  let old = atomicAdd(&a.c, 5u); o[0] = old; o[1] = atomicLoad(&a.c);
  atomicStore(&a.d[1], -4); let p = atomicMax(&a.d[1], oi[0]); oi[1] = p; let q = atomicMin(&a.d[2], oi[0]); oi[2] = q;
  let e = atomicExchange(&a.d[0], 9); oi[3] = e; o[2] = atomicOr(&a.c, 0xf0u); o[3] = atomicAnd(&a.c, 0x3cu); o[4] = atomicXor(&a.c, 0xffu);
  o[5] = atomicSub(&a.c, 1u); atomicStore(&wc, 3u); o[6] = atomicAdd(&wc, o[7]); o[8] = atomicLoad(&wc);
}""")

# ---- systematic family: run-time subscripts (the index is a loop variable, so it is never folded) into every
# indexable value type, in every address space where the HLSL writer takes a different path, as load and as store.
# Every index stays in bounds, so WGSL defines the result; every element holds a distinct value, so reading or
# writing the wrong column / component / element changes the output.
def _dynidx_programs():
    out = []

    def decl(space, ty, name):
        if space == "private":
            return "var<private> %s: %s;\n" % (name, ty), ""
        if space == "workgroup":
            return "var<workgroup> %s: %s;\n" % (name, ty), ""
        return "", "  var %s: %s;\n" % (name, ty)

    for space in ("function", "private", "workgroup", "let"):
        # matrices: C columns of R rows
        for c in (2, 3, 4):
            for r in (2, 3, 4):
                ty = "mat%dx%d<f32>" % (c, r)
                cols = ", ".join("vec%d<f32>(%s)" % (r, ", ".join("%d.0" % (10 * k + j + 1) for j in range(r))) for k in range(c))
                init = "%s(%s)" % (ty, cols)
                if space == "let":
                    g, l = "", "  let m = %s;\n" % init
                else:
                    g, l = decl(space, ty, "m")
                    l += "  m = %s;\n" % init
                body = l
                body += "  for (var k = 0u; k < %du; k++) { let col = m[k]; for (var j = 0u; j < %du; j++) { of[k * 4u + j] = col[j]; } }\n" % (c, r)
                if space != "let":
                    body += "  for (var k = 0u; k < %du; k++) { m[k] = vec%d<f32>(f32(k) + 100.0); of[16u + k] = m[k].x + m[(k + 1u) %% %du].y; }\n" % (c, r, c)
                    body += "  for (var k = 0u; k < %du; k++) { m[k][k %% %du] = f32(k) + 200.0; }\n" % (c, r)
                    body += "  for (var k = 0u; k < %du; k++) { for (var j = 0u; j < %du; j++) { of[32u + k * 4u + j] = m[k][j]; } }\n" % (c, r)
                out.append(("dynidx_%s_mat%dx%d" % (space, c, r), g + "@compute @workgroup_size(1) fn main() {\n" + body + "}"))
        # vectors and fixed-size arrays
        for n in (2, 3, 4):
            for (ty, init, outb, conv) in (("vec%d<i32>" % n, "vec%d<i32>(%s)" % (n, ", ".join(str(7 * j + 1) for j in range(n))), "oi", "i32"),
                                           ("array<u32, %d>" % n, "array<u32, %d>(%s)" % (n, ", ".join("%du" % (5 * j + 2) for j in range(n))), "o", "u32")):
                if space == "let":
                    g, l = "", "  let m = %s;\n" % init
                else:
                    g, l = decl(space, ty, "m")
                    l += "  m = %s;\n" % init
                body = l + "  for (var k = 0u; k < %du; k++) { %s[k] = m[k]; }\n" % (n, outb)
                if space != "let":
                    body += "  for (var k = 0u; k < %du; k++) { m[k] = %s(k) + %s(50); %s[8u + k] = m[(k + 1u) %% %du]; }\n" % (n, conv, conv, outb, n)
                    body += "  for (var k = 0u; k < %du; k++) { %s[16u + k] = m[k]; }\n" % (n, outb)
                out.append(("dynidx_%s_%s%d" % (space, "vec" if ty.startswith("vec") else "arr", n), g + "@compute @workgroup_size(1) fn main() {\n" + body + "}"))
    return out


for _n, _s in _dynidx_programs():
    prog(_n, _s)

# programs isolating constructs with an open finding (mismatch expected; key diff:<name>)
# statement forms with inlined operator operands (lib/opforms.py): atomic statements whose index and value operands are
# operator expressions used once
import opforms as _opforms
for _n, _s in _opforms.programs():
    prog(_n, _s, hdr=False)

KNOWN = []


def known(name, src):
    KNOWN.append((name, HDR + src))


known("clz_ctz", """
@compute @workgroup_size(1) fn main() {
  o[1] = countLeadingZeros(o[0]); oi[1] = countLeadingZeros(oi[0]); o[2] = countTrailingZeros(o[0]); oi[2] = countTrailingZeros(oi[0]);
}""")

known("sign_f32_inline", """
@compute @workgroup_size(1) fn main() { of[1] = sign(of[0]); }""")

known("matcx2_member_store_local", """
struct M { m: mat3x2<f32>, k: u32 }
@compute @workgroup_size(1) fn main() {
  var loc: M; loc.k = 3u;
  loc.m = mat3x2<f32>(vec2<f32>(1.0, 2.0), vec2<f32>(3.0, 4.0), vec2<f32>(5.0, 6.0));
  loc.m[1] = vec2<f32>(of[0], 8.0);
  let r = loc.m[2]; let c = loc.m[1];
  of[1] = r.x; of[2] = r.y; of[3] = c.x; of[4] = c.y;
}""")

known("uniform_nested_matcx2", """
struct Inner { a: i32, m: mat2x2<f32> }
struct U { x: u32, inner: Inner }
@group(0) @binding(3) var<uniform> u: U;
@compute @workgroup_size(1) fn main() { let m = u.inner.m; of[0] = m[1].x + f32(u.x); }""")

# programs on which the shared WGSL-side definition (Base/F32.v) and the WGSL specification may differ:
# a disagreement is recorded in the evidence (open_questions), not reported
QUESTIONS = []


def question(name, src):
    QUESTIONS.append((name, HDR + src))


question("f2i_saturation", """
@compute @workgroup_size(1) fn main() { oi[0] = i32(of[0]); o[0] = u32(of[0]); oi[1] = i32(of[1]); o[1] = u32(of[1]); }""")
