"""C13, generated family: typed random WGSL compute programs (lib/wgslgen.py) for the
differential execution of the IR-to-IR passes (IR before the pass vs after it under the
reference interpreter), with

  * generator options that keep the programs clear of the constructs of the RECORDED C13
    findings (known_findings.jsonl; they stay covered by their dedicated hand-written
    programs in lib/c13progs.py), so that the leg is quiet on the pinned tree;
  * a structural feature extraction on the generated AST (which constructs a program
    contains: calls in continuing blocks, multi-selector switch clauses, calls in case
    bodies, ...), used for coverage figures and for violation keys;
  * classification of a disagreement: the program is shrunk (lib/shrink.py) while the same
    pass still disagrees in the same way, and the violation key is
    `gen:<kind>:<pass>:<class of disagreement>:<features of the shrunk program>`,
    never the index of the random program;
  * IR-level recognisers that attribute disagreements of the DXIL optimisation stages to
    recorded findings (dce sweeping the predecessors of a phi, dce sweeping the stores of
    a local that is still loaded).
"""
import copy
import json

import shrink
import wgslgen

# ---------------------------------------------------------------------------------------
# generator profiles

# constructs of recorded findings that the options below exclude:
#   helper_ret_nested=False   no `return` inside a loop or switch of a helper
#                             (inliner: return in loop/switch, diff:inline:hand/early_return_in_loop ...)
#   loop_calls="nolocals"     inside loops only helpers without local variables are called
#                             (inliner: callee locals initialised once, diff:inline:hand/call_in_loop_local_init ...)
#   agg_params=False          helper parameters are scalars or pointers
#                             (inliner: aliased aggregate Load arguments, diff:inline:hand/aggregate_arg_then_store)
GENERAL = dict(helper_ret_nested=False, loop_calls="nolocals", agg_params=False, n_helpers=3,
               switch_multi=True, switch_calls=True, small_helpers=True, n_stmts=6)
# the DXIL optimisation stages (sroa, mem2reg, dce) additionally get loop-free programs without struct types:
#   loops=False               (mem2reg phase A inside loop bodies, diff:stage:mem2reg:hand/loop_carried_local_only_in_body)
#   structs=False             (sroa: Compose without Type / whole-struct Compose store, diff:stage:sroa:*)
LOOPFREE = dict(GENERAL, loops=False, structs=False)

DXIL_STAGES = ("stage:sroa", "stage:mem2reg", "stage:dce", "dxil")


def generate(rng, n_general, n_loopfree, inputs_per_prog=2):
    """-> list of {"name", "family": "general"|"loopfree", "prog", "src", "inputs": [{"globals": by name, "args"}]}"""
    out = []
    for fam, n, opts in (("general", n_general, GENERAL), ("loopfree", n_loopfree, LOOPFREE)):
        for i in range(n):
            r = rng.fork("%s%d" % (fam, i))
            prog, src = wgslgen.generate(r, opts)
            out.append({"name": "gen/%s%d" % (fam, i), "family": fam, "prog": prog, "src": src,
                        "inputs": inputs_for(prog, r, inputs_per_prog)})
    return out


def inputs_for(prog, rng, n):
    ins = []
    for k in range(n):
        gi = wgslgen.gen_inputs(rng.fork("in%d" % k), prog, exact=True)
        ins.append({"globals": {g["n"]: v for g, v in zip(prog["globals"], gi["globals"])}, "args": gi["args"]})
    return ins


# ---------------------------------------------------------------------------------------
# structural features of a generated program

LOOPS = ("for", "while", "loop")


def _calls_in_expr(e, out):
    if isinstance(e, dict):
        if e.get("e") == "call":
            out.append(e["f"])
        for v in e.values():
            if isinstance(v, dict):
                _calls_in_expr(v, out)
            elif isinstance(v, list):
                for x in v:
                    _calls_in_expr(x, out)
    return out


def stmt_calls(s, deep=True):
    """names of the user functions called by statement s (deep: including nested statements)"""
    out = []
    if s.get("s") == "callstmt":
        out.append(s["f"])
    for k in ("e", "l", "c", "break_if"):
        if isinstance(s.get(k), dict):
            _calls_in_expr(s[k], out)
    for a in s.get("args", []) if s.get("s") == "callstmt" else []:
        _calls_in_expr(a, out)
    for k in ("init", "upd"):
        if isinstance(s.get(k), dict):
            out += stmt_calls(s[k], deep)
    if deep:
        for b in sub_blocks(s):
            for t in b:
                out += stmt_calls(t, True)
    return out


def sub_blocks(s):
    out = []
    for k in shrink.BLOCK_KEYS:
        if isinstance(s.get(k), list):
            out.append(s[k])
    if s.get("s") == "switch":
        out += [c["body"] for c in s["cases"]]
    return out


def _has(stmts, pred):
    for s in stmts:
        if pred(s):
            return True
        for b in sub_blocks(s):
            if _has(b, pred):
                return True
        for k in ("init", "upd"):
            if isinstance(s.get(k), dict) and pred(s[k]):
                return True
    return False


def features(prog):
    """set of construct names present in the program (vocabulary of the violation keys)"""
    fs = set()
    funcs = {f["n"]: f for f in prog["funcs"]}
    has_var = {}
    for f in prog["funcs"]:          # declaration order = callees first
        v = _has(f["body"], lambda s: s.get("s") == "var")
        for c in set(x for s in f["body"] for x in stmt_calls(s)):
            v = v or has_var.get(c, False)
        has_var[f["n"]] = v

    def walk(stmts, in_loop, in_switch, in_cont, owner):
        for s in stmts:
            k = s.get("s")
            direct = stmt_calls(s, deep=False)
            if k == "for" and isinstance(s.get("upd"), dict) and stmt_calls(s["upd"], False):
                fs.add("call-in-continuing")
            for c in direct:
                fs.add("call")
                if in_cont:
                    fs.add("call-in-continuing")
                if in_loop:
                    fs.add("call-in-loop")
                    if has_var.get(c):
                        fs.add("call-in-loop-callee-has-locals")
                if in_switch:
                    fs.add("call-in-switch-case")
                f = funcs.get(c)
                if f and any(not (isinstance(p["t"], str) or p["t"][0] == "ptr") for p in f["params"]):
                    fs.add("call-aggregate-arg")
                if f and any(isinstance(p["t"], list) and p["t"][0] == "ptr" for p in f["params"]):
                    fs.add("call-pointer-arg")
                if owner != "main":
                    fs.add("call-in-helper")
            if k == "return" and owner != "main":
                if in_loop or in_switch:
                    fs.add("helper-return-in-loop-or-switch")
                elif stmts is not funcs[owner]["body"]:
                    fs.add("helper-early-return")
            if k == "switch":
                fs.add("switch")
                multi = any(len(c["sel"]) > 1 for c in s["cases"])
                if multi:
                    fs.add("switch-multi-selector")
                    if any(stmt_calls(t) for c in s["cases"] for t in c["body"]):
                        fs.add("switch-multi-selector-with-call")
                for c in s["cases"]:
                    walk(c["body"], in_loop, True, in_cont, owner)
                continue
            if k in LOOPS:
                fs.add("loop")
                walk(s.get("body", []), True, False, in_cont, owner)
                walk(s.get("cont", []), True, False, True, owner)
                continue
            for b in sub_blocks(s):
                walk(b, in_loop, in_switch, in_cont, owner)

    for f in prog["funcs"]:
        walk(f["body"], False, False, False, f["n"])
        if has_var[f["n"]]:
            fs.add("helper-has-locals")
    walk(prog["entry"]["body"], False, False, False, "main")
    return fs


# features that may appear in a violation key (in this order); everything else is noise for a key
KEY_FEATURES = ["call-in-continuing", "switch-multi-selector-with-call", "switch-multi-selector", "call-in-switch-case",
                "helper-return-in-loop-or-switch", "call-in-loop-callee-has-locals", "call-aggregate-arg",
                "call-pointer-arg", "helper-early-return", "call-in-loop", "call-in-helper", "call", "switch", "loop"]
# a more specific feature hides the ones it implies
IMPLIED = {"switch-multi-selector-with-call": ["switch-multi-selector", "call-in-switch-case", "call", "switch"],
           "switch-multi-selector": ["switch"], "call-in-switch-case": ["call", "switch"],
           "call-in-continuing": ["call-in-loop", "call", "loop"], "call-in-loop-callee-has-locals": ["call-in-loop", "call", "loop"],
           "call-in-loop": ["call", "loop"], "call-aggregate-arg": ["call"], "call-pointer-arg": ["call"],
           "helper-return-in-loop-or-switch": ["call"], "helper-early-return": ["call"], "call-in-helper": ["call"]}


def key_features(prog, limit=3):
    fs = features(prog)
    drop = set()
    for f in fs:
        drop.update(IMPLIED.get(f, []))
    out = [f for f in KEY_FEATURES if f in fs and f not in drop]
    return out[:limit] or ["straight-line"]


# ---------------------------------------------------------------------------------------
# shrinking a disagreement

class Budget:
    def __init__(self, n):
        self.n = n


def shrink_failure(case, outcome_of, want, budget):
    """Smallest program (greedy) on which outcome_of(prog, src) == want still holds; every evaluation
    costs one unit of `budget` (when it is exhausted the shrinking stops where it is)."""
    def still(p):
        if budget.n <= 0:
            return False
        budget.n -= 1
        p = prune(copy.deepcopy(p))
        return outcome_of(p, wgslgen.render(p)) == want
    try:
        small = shrink.shrink(case["prog"], still, max_rounds=3)
    except Exception:
        small = case["prog"]
    return prune(small)


def prune(prog):
    """drop the helper functions that the entry point no longer reaches"""
    byname = {f["n"]: f for f in prog["funcs"]}
    live = set()
    work = [x for s in prog["entry"]["body"] for x in stmt_calls(s)]
    while work:
        n = work.pop()
        if n in live or n not in byname:
            continue
        live.add(n)
        work += [x for s in byname[n]["body"] for x in stmt_calls(s)]
    prog["funcs"] = [f for f in prog["funcs"] if f["n"] in live]
    return prog


# ---------------------------------------------------------------------------------------
# recognisers on the IR dumps for recorded findings of the DXIL optimisation stages

def _walk_stmts(block, f):
    for s in block or []:
        k = s["Kind"]
        f(k)
        t = k["_t"]
        if t == "StmtBlock":
            _walk_stmts(k.get("Block"), f)
        elif t == "StmtIf":
            _walk_stmts(k.get("Accept"), f)
            _walk_stmts(k.get("Reject"), f)
        elif t == "StmtLoop":
            _walk_stmts(k.get("Body"), f)
            _walk_stmts(k.get("Continuing"), f)
        elif t == "StmtSwitch":
            for c in k.get("Cases") or []:
                _walk_stmts(c.get("Body"), f)


HANDLE_FIELDS = ("Pointer", "Source", "Left", "Right", "Base", "Value", "Condition", "Accept", "Reject", "Expr", "Argument",
                 "Arg", "Arg1", "Arg2", "Arg3", "Vector", "Array", "Image", "Coordinate", "Sampler", "ArrayIndex", "DepthRef",
                 "Level", "Bias", "X", "Y", "Query", "Delta", "Mask")


def _operands(kind):
    """expression handles an expression kind (reflection dump) refers to"""
    out = []
    for key, v in kind.items():
        if isinstance(v, bool):
            continue
        if isinstance(v, int) and (key in HANDLE_FIELDS or (key == "Index" and kind["_t"] != "ExprAccessIndex")):
            out.append(v)
        elif key == "Components" and isinstance(v, list):
            out += [x for x in v if isinstance(x, int) and not isinstance(x, bool)]
        elif isinstance(v, dict):
            out += _operands(dict(v, _t=v.get("_t", "")))
        elif isinstance(v, list):
            for x in v:
                if isinstance(x, dict):
                    out += _operands(dict(x, _t=x.get("_t", "")))
    return out


def _functions(ir):
    return [e["Function"] for e in ir["EntryPoints"]] + list(ir["Functions"])


def dce_cause(before, after):
    """`before` = module handed to dce (after sroa+mem2reg), `after` = what dce returns.
    -> "phi-predecessors-swept": dce deleted an if/switch although the function has ExprPhi expressions
       (recorded: diff:stage:dce:hand/local_stored_one_path ...);
       "stores-of-loaded-local-swept": dce deleted every store to a local variable that is still loaded
       (recorded: diff:stage:dce:hand/nested_helpers ...); None otherwise."""
    causes = []
    try:
        for fb, fa in zip(_functions(before), _functions(after)):
            nb = {"StmtIf": 0, "StmtSwitch": 0}
            na = {"StmtIf": 0, "StmtSwitch": 0}

            def count(d):
                def f(k):
                    if k["_t"] in d:
                        d[k["_t"]] += 1
                return f
            _walk_stmts(fb["Body"], count(nb))
            _walk_stmts(fa["Body"], count(na))
            has_phi = any(e["Kind"]["_t"] == "ExprPhi" for e in fb["Expressions"])
            if has_phi and (na["StmtIf"] < nb["StmtIf"] or na["StmtSwitch"] < nb["StmtSwitch"]):
                causes.append("phi-predecessors-swept")

            def stored_locals(fn):
                out = set()

                def f(k):
                    if k["_t"] == "StmtStore":
                        e = fn["Expressions"][k["Pointer"]]["Kind"]
                        while e["_t"] in ("ExprAccess", "ExprAccessIndex"):
                            e = fn["Expressions"][e["Base"]]["Kind"]
                        if e["_t"] == "ExprLocalVariable":
                            out.add(e["Variable"])
                _walk_stmts(fn["Body"], f)
                return out

            def live_handles(fn):
                """expressions evaluated by the statements that are left: emitted ones and direct statement operands"""
                out = set()

                def f(k):
                    if k["_t"] == "StmtEmit":
                        r = k["Range"]
                        out.update(range(r["Start"], r["End"]))
                        return
                    for key, v in k.items():
                        if key in ("Value", "Condition", "Selector", "Pointer", "Result", "Comparand") and isinstance(v, int) and not isinstance(v, bool):
                            out.add(v)
                        elif key == "Arguments" and isinstance(v, list):
                            out.update(x for x in v if isinstance(x, int))
                _walk_stmts(fn["Body"], f)
                return out
            loaded = set()
            work, seen = list(live_handles(fa)), set()
            while work:
                h = work.pop()
                if h in seen or not (0 <= h < len(fa["Expressions"])):
                    continue
                seen.add(h)
                k = fa["Expressions"][h]["Kind"]
                work += _operands(k)
                if k["_t"] == "ExprLoad":
                    p = fa["Expressions"][k["Pointer"]]["Kind"]
                    while p["_t"] in ("ExprAccess", "ExprAccessIndex"):
                        p = fa["Expressions"][p["Base"]]["Kind"]
                    if p["_t"] == "ExprLocalVariable":
                        loaded.add(p["Variable"])
            if (stored_locals(fb) - stored_locals(fa)) & loaded:
                causes.append("stores-of-loaded-local-swept")
    except Exception:
        return None
    for c in ("phi-predecessors-swept", "stores-of-loaded-local-swept"):
        if c in causes:
            return c
    return None


def mem2reg_cause(before, after):
    """`after` = module returned by mem2reg.  -> "switch-break-edge" when mem2reg created a switch-merge ExprPhi
    (an incoming with PredKey 4) in a function one of whose switch cases contains a `break` nested in an if/block
    (recorded: diff:stage:mem2reg:hand/switch_case_break_before_store); None otherwise."""
    try:
        for fb, fa in zip(_functions(before), _functions(after)):
            def switch_phis(fn):
                return sum(1 for e in fn["Expressions"] if e["Kind"]["_t"] == "ExprPhi"
                           and any(i.get("PredKey") == 4 for i in e["Kind"].get("Incoming") or []))
            if switch_phis(fa) <= switch_phis(fb):
                continue
            found = []

            def nested_break(block, depth):
                for s in block or []:
                    k = s["Kind"]
                    t = k["_t"]
                    if t == "StmtBreak" and depth > 0:
                        found.append(1)
                    elif t == "StmtIf":
                        nested_break(k.get("Accept"), depth + 1)
                        nested_break(k.get("Reject"), depth + 1)
                    elif t == "StmtBlock":
                        nested_break(k.get("Block"), depth + 1)

            def f(k):
                if k["_t"] == "StmtSwitch":
                    for c in k.get("Cases") or []:
                        nested_break(c.get("Body"), 0)
            _walk_stmts(fa["Body"], f)
            if found:
                return "switch-break-edge"
    except Exception:
        return None
    return None


def dump_summary(x):
    return json.dumps(x)[:300]
