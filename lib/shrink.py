"""Structural shrinking of generated WGSL-core programs (AST of lib/wgslgen.py)."""
import copy

BLOCK_KEYS = ("body", "then", "else", "cont")


def _blocks(stmts, out):
    out.append(stmts)
    for s in stmts:
        for k in BLOCK_KEYS:
            if isinstance(s.get(k), list):
                _blocks(s[k], out)
        if s.get("s") == "switch":
            for c in s["cases"]:
                _blocks(c["body"], out)


def all_blocks(prog):
    out = []
    _blocks(prog["entry"]["body"], out)
    for f in prog["funcs"]:
        _blocks(f["body"], out)
    return out


def shrink(prog, still_fails, max_rounds=6):
    """Greedy deletion of statements (anywhere), then of helper functions/globals that became unused."""
    prog = copy.deepcopy(prog)
    for _ in range(max_rounds):
        changed = False
        bi = 0
        while True:
            blocks = all_blocks(prog)
            if bi >= len(blocks):
                break
            blk = blocks[bi]
            k = 0
            while k < len(blk):
                s = blk[k]
                if s.get("s") == "return" and blk is not prog["entry"]["body"]:
                    k += 1
                    continue
                del blk[k]
                ok = False
                try:
                    ok = still_fails(prog)
                except Exception:
                    ok = False
                if ok:
                    changed = True
                else:
                    blk.insert(k, s)
                    k += 1
            bi += 1
        # replace compound statements by their bodies
        for blk in all_blocks(prog):
            for k, s in enumerate(list(blk)):
                if s.get("s") in ("if", "block", "for", "while", "loop"):
                    for key in ("then", "body"):
                        if isinstance(s.get(key), list) and s[key]:
                            saved = list(blk)
                            idx = blk.index(s)
                            blk[idx:idx + 1] = [x for x in s[key] if x.get("s") not in ("break", "continue")]
                            ok = False
                            try:
                                ok = still_fails(prog)
                            except Exception:
                                ok = False
                            if ok:
                                changed = True
                            else:
                                blk[:] = saved
                            break
        if not changed:
            break
    return prog
