"""C16 whole-program tie: adversarial renaming of WGSL programs and independent
checks on the text the three backends emit.

  classify(lex, kinds)        which spellings of a WGSL token list are user-declared names
  rename(lex, kinds, plan)    consistent, spelling-based renaming (meaning-preserving when the
                              new spellings are fresh and are not predeclared WGSL names)
  canonical_plan(...)         all user names -> benign unique names (the baseline program)
  targets / make_plan         adversarial target names
  check_output(...)           checks on one emitted text against the baseline text

Nothing here looks at naga's tables: keywords come from speclists (the same words
as coq/Namer/Spec*.v), scoping from an independent scan of the emitted text."""
import re

import ctok

# ------------------------------------------------------------------ WGSL side

SWIZZLE = re.compile(r"^(?:[xyzw]{1,4}|[rgba]{1,4})$")
# context-dependent names (address spaces, access modes, texel formats, builtin values, interpolation)
ENUMERANTS = set("""function private workgroup uniform storage handle push_constant read write read_write
rgba8unorm rgba8snorm rgba8uint rgba8sint rgba16uint rgba16sint rgba16float r32uint r32sint r32float rg32uint rg32sint
rg32float rgba32uint rgba32sint rgba32float bgra8unorm r8unorm r8snorm r8uint r8sint r16uint r16sint r16float rg8unorm
rg8snorm rg8uint rg8sint rg16uint rg16sint rg16float rgb10a2uint rgb10a2unorm rg11b10ufloat r16unorm r16snorm rg16unorm
rg16snorm rgba16unorm rgba16snorm r64uint
vertex_index instance_index position front_facing frag_depth sample_index sample_mask local_invocation_id
local_invocation_index global_invocation_id workgroup_id num_workgroups subgroup_invocation_id subgroup_size
primitive_index view_index clip_distances barycentric num_subgroups subgroup_id
perspective linear flat center centroid sample first either
fract whole exp old_value exchanged
f16 off on error warning info derivative_uniformity""".split())
WGSL_KEYWORDS = set("""alias break case const const_assert continue continuing default diagnostic discard else enable
false fn for if let loop override requires return struct switch true var while""".split())
DECL_KW = ("fn", "struct", "alias", "let", "const", "var")


def classify(lex, kinds):
    """-> (declared spellings that may be renamed, set of token positions that must never be renamed)"""
    n = len(lex)
    declared = set()
    banned = set()
    frozen = set()          # positions
    i = 0
    while i < n:
        lx = lex[i]
        if lx == "@" and i + 1 < n:
            frozen.add(i + 1)
            # arguments of @builtin / @interpolate / @blend_src / @diagnostic are enumerants
            if lex[i + 1] in ("builtin", "interpolate", "diagnostic") and i + 2 < n and lex[i + 2] == "(":
                j = i + 3
                depth = 1
                while j < n and depth > 0:
                    if lex[j] == "(":
                        depth += 1
                    elif lex[j] == ")":
                        depth -= 1
                    else:
                        frozen.add(j)
                        if kinds[j] == "Ident":
                            banned.add(lex[j])
                    j += 1
            i += 2
            continue
        if lx in ("enable", "requires", "diagnostic") and (i == 0 or lex[i - 1] in (";", "}")):
            j = i + 1
            while j < n and lex[j] != ";":
                frozen.add(j)
                if kinds[j] == "Ident":
                    banned.add(lex[j])
                j += 1
            i = j
            continue
        if lx == "override" and i + 1 < n and kinds[i + 1] == "Ident":
            banned.add(lex[i + 1])       # API-visible (pipeline constant key)
        if lx in DECL_KW and i + 1 < n:
            j = i + 1
            if lx == "var" and lex[j] == "<":
                while j < n and lex[j] != ">":
                    frozen.add(j)
                    j += 1
                j += 1
            if j < n and kinds[j] == "Ident":
                declared.add(lex[j])
                if lx == "fn" and j + 1 < n and lex[j + 1] == "(":
                    k = j + 2
                    depth = 1
                    while k < n and depth > 0:
                        if lex[k] == "(":
                            depth += 1
                        elif lex[k] == ")":
                            depth -= 1
                        elif depth == 1 and kinds[k] == "Ident" and k + 1 < n and lex[k + 1] == ":" and lex[k - 1] in ("(", ",", ")"):
                            declared.add(lex[k])
                        k += 1
                if lx == "struct" and j + 1 < n and lex[j + 1] == "{":
                    k = j + 2
                    depth = 1
                    pd = 0
                    while k < n and depth > 0:
                        if lex[k] == "{":
                            depth += 1
                        elif lex[k] == "}":
                            depth -= 1
                        elif lex[k] == "(":
                            pd += 1
                        elif lex[k] == ")":
                            pd -= 1
                        elif depth == 1 and pd == 0 and kinds[k] == "Ident" and k + 1 < n and lex[k + 1] == ":" \
                                and lex[k - 1] in ("{", ",", ")"):
                            declared.add(lex[k])
                        k += 1
        i += 1
    # template enumerants: ptr<function, T, read_write>, texture_storage_2d<rgba8unorm, write>
    for k, lx in enumerate(lex):
        if kinds[k] == "Ident" and lx in ENUMERANTS:
            banned.add(lx)
        if kinds[k] == "Ident" and SWIZZLE.match(lx):
            banned.add(lx)
    return {d for d in declared if d not in banned and d not in WGSL_KEYWORDS}, frozen


def decl_scopes(lex, kinds):
    """spelling -> subset of {'module', 'local', 'member'}: where the WGSL program declares that spelling
    (module scope; function parameter or local; struct member)"""
    n = len(lex)
    out = {}
    depth = 0
    i = 0
    while i < n:
        lx = lex[i]
        if lx == "{":
            depth += 1
        elif lx == "}":
            depth -= 1
        elif lx in DECL_KW and i + 1 < n and (i == 0 or lex[i - 1] != "."):
            j = i + 1
            if lx == "var" and lex[j] == "<":
                while j < n and lex[j] != ">":
                    j += 1
                j += 1
            if j < n and kinds[j] == "Ident":
                out.setdefault(lex[j], set()).add("module" if depth == 0 else "local")
                if lx == "fn" and j + 1 < n and lex[j + 1] == "(":
                    k = j + 2
                    pd = 1
                    while k < n and pd > 0:
                        if lex[k] == "(":
                            pd += 1
                        elif lex[k] == ")":
                            pd -= 1
                        elif pd == 1 and kinds[k] == "Ident" and k + 1 < n and lex[k + 1] == ":" and lex[k - 1] in ("(", ",", ")"):
                            out.setdefault(lex[k], set()).add("local")
                        k += 1
                if lx == "struct" and j + 1 < n and lex[j + 1] == "{":
                    k = j + 2
                    d = 1
                    pd = 0
                    while k < n and d > 0:
                        if lex[k] == "{":
                            d += 1
                        elif lex[k] == "}":
                            d -= 1
                        elif lex[k] == "(":
                            pd += 1
                        elif lex[k] == ")":
                            pd -= 1
                        elif d == 1 and pd == 0 and kinds[k] == "Ident" and k + 1 < n and lex[k + 1] == ":" and lex[k - 1] in ("{", ",", ")"):
                            out.setdefault(lex[k], set()).add("member")
                        k += 1
                    i = k - 1
                    depth += 0
        i += 1
    return out


def pack_targets(targets, entities):
    """Systematic coverage: every target is assigned to some entity in some variant.  A variant is a dict
    entity -> target in which no renamed entity occurs (case-insensitively) inside any target of the variant
    (generated names embed user names: `Construct<T>`; renaming T would change the generated name).
    -> (list of plans, list of targets that no entity can take)"""
    plans = []
    uncovered = []
    cur = {}
    ents = sorted(entities)

    def fits(e, t, plan):
        el = e.lower()
        if el in t.lower():
            return False
        for e2, t2 in plan.items():
            if el in t2.lower() or e2.lower() in t.lower():
                return False
        return True

    for t in targets:
        placed = False
        for e in ents:
            if e not in cur and fits(e, t, cur):
                cur[e] = t
                placed = True
                break
        if placed:
            continue
        if cur:
            plans.append(cur)
            cur = {}
        for e in ents:
            if fits(e, t, cur):
                cur[e] = t
                placed = True
                break
        if not placed:
            uncovered.append(t)
    if cur:
        plans.append(cur)
    return plans, uncovered


def rename(lex, kinds, frozen, plan):
    return [plan.get(lx, lx) if (kinds[k] == "Ident" and k not in frozen) else lx for k, lx in enumerate(lex)]


def benign_name(i):
    s = ""
    i += 1
    while i > 0:
        i, r = divmod(i - 1, 26)
        s = chr(97 + r) + s
    return "zq" + s + "v"


def canonical_plan(declared, all_idents):
    plan = {}
    k = 0
    for d in sorted(declared):
        while benign_name(k) in all_idents:
            k += 1
        plan[d] = benign_name(k)
        k += 1
    return plan


_XID = re.compile(r"^(?:[^\W\d]|_\w)\w*$", re.UNICODE)


def wgsl_ident_ok(s):
    """usable as a WGSL identifier: XID_Start XID_Continue* or _ XID_Continue+, not starting with __,
    not a WGSL keyword (approximation of XID by Python's \\w)."""
    return bool(s) and bool(_XID.match(s)) and not s.startswith("__") and s != "_" and s not in WGSL_KEYWORDS and s.isidentifier()


# WGSL predeclared names (WGSL spec: built-in functions; predeclared types and type generators).
WGSL_BUILTIN_FUNCTIONS = set("""bitcast all any select arrayLength abs acos acosh asin asinh atan atanh atan2 ceil clamp cos cosh
countLeadingZeros countOneBits countTrailingZeros cross degrees determinant distance dot dot4U8Packed dot4I8Packed exp exp2
extractBits faceForward firstLeadingBit firstTrailingBit floor fma fract frexp insertBits inverseSqrt ldexp length log log2 max min
mix modf normalize pow quantizeToF16 radians reflect refract reverseBits round saturate sign sin sinh smoothstep sqrt step tan tanh
transpose trunc dpdx dpdxCoarse dpdxFine dpdy dpdyCoarse dpdyFine fwidth fwidthCoarse fwidthFine textureDimensions textureGather
textureGatherCompare textureLoad textureNumLayers textureNumLevels textureNumSamples textureSample textureSampleBias
textureSampleCompare textureSampleCompareLevel textureSampleGrad textureSampleLevel textureSampleBaseClampToEdge textureStore
atomicLoad atomicStore atomicAdd atomicSub atomicMax atomicMin atomicAnd atomicOr atomicXor atomicExchange
atomicCompareExchangeWeak pack4x8snorm pack4x8unorm pack4xI8 pack4xU8 pack4xI8Clamp pack4xU8Clamp pack2x16snorm pack2x16unorm
pack2x16float unpack4x8snorm unpack4x8unorm unpack4xI8 unpack4xU8 unpack2x16snorm unpack2x16unorm unpack2x16float storageBarrier
textureBarrier workgroupBarrier workgroupUniformLoad subgroupAdd subgroupExclusiveAdd subgroupInclusiveAdd subgroupAll
subgroupAnd subgroupAny subgroupBallot subgroupBroadcast subgroupBroadcastFirst subgroupElect subgroupMax subgroupMin subgroupMul
subgroupExclusiveMul subgroupInclusiveMul subgroupOr subgroupShuffle subgroupShuffleDown subgroupShuffleUp subgroupShuffleXor
subgroupXor quadBroadcast quadSwapDiagonal quadSwapX quadSwapY""".split())
WGSL_TYPES = set("""bool f16 f32 f64 i32 i64 u32 u64 vec2 vec3 vec4 vec2i vec3i vec4i vec2u vec3u vec4u vec2f vec3f vec4f vec2h vec3h vec4h
mat2x2 mat2x3 mat2x4 mat3x2 mat3x3 mat3x4 mat4x2 mat4x3 mat4x4 mat2x2f mat2x3f mat2x4f mat3x2f mat3x3f mat3x4f mat4x2f mat4x3f
mat4x4f mat2x2h mat2x3h mat2x4h mat3x2h mat3x3h mat3x4h mat4x2h mat4x3h mat4x4h array atomic ptr sampler sampler_comparison
binding_array acceleration_structure ray_query""".split())


def predeclared_like(name):
    """the name is (or, for naga's front end, is treated like) a WGSL predeclared function or type: a user entity of
    that name shadows the predeclared one (WGSL 'Declaration and scope'); naga's lowerer resolves calls and type names
    to the predeclared meaning first, and takes every type name starting with "texture" for a texture type.  Such
    names are exercised by a dedicated probe, not by the general renaming pools."""
    return name in WGSL_BUILTIN_FUNCTIONS or name in WGSL_TYPES or name.startswith("texture")


# `phony` is the name the front end gives to discarded values (`_ = e;`); the backends do not bind named
# expressions called phony to a variable, so `let phony = e;` legitimately changes the shape of the output.
EXCLUDED_TARGETS = {"phony"}

UNICODE_IDENTS = ["é", "été", "π", "Δx", "変数", "a変", "𝒳", "𝒳1", "ß_", "_é_", "é_é", "éé", "ǅz", "naïve", "données_1", "переменная", "变量2"]


def case_variants(w):
    return [w.upper(), w.lower(), w.swapcase(), w.capitalize(), w[:1].lower() + w[1:]]


def sibling_forms(w):
    return [w + "_", w + "_1", w + "_2", w + "1", w + "_0", w + "_01", "_" + w, w + "_a", w.upper(), w.lower(), w + "_1_", w + "_x_1"]


# ------------------------------------------------------------------ output side

CONTROL = set("return case default else do break continue discard if while for switch typedef using goto".split())
# words followed by a parenthesised group that is not a call: GLSL layout(...), HLSL register(...) / packoffset(...).
# All three are keywords of the language in question, so a user entity can never be spelled like them THERE;
# in the other languages they are ordinary identifiers, hence the set is switched per backend (set_backend).
GROUP_WORDS = {"glsl": ("layout",), "hlsl": ("register", "packoffset"), "msl": ()}
# statement heads that are not declarations; again only words that are keywords of the language in question
NONDECL_HEADS = {"glsl": ("precision", "using", "typedef"), "hlsl": ("using", "typedef"), "msl": ("using", "typedef")}
NOT_CONTROL = {"glsl": (), "hlsl": (), "msl": ("discard",)}          # `discard` is an ordinary identifier in C++
_group_words = ("layout", "register", "packoffset")
_nondecl_heads = ("using", "typedef", "precision")
_control = CONTROL


def set_backend(b):
    global _group_words, _nondecl_heads, _control
    _group_words = GROUP_WORDS[b]
    _nondecl_heads = NONDECL_HEADS[b]
    _control = CONTROL - set(NOT_CONTROL[b])


def id_map(base_toks, new_toks):
    """position-wise map of identifier spellings baseline -> variant.
    returns (None, reason) when the token shapes differ, else (fwd, conflicts):
    fwd: dict baseline spelling -> variant spelling; conflicts: list of
    ('nonfunctional', b, v1, v2) / ('noninjective', v, b1, b2)."""
    if len(base_toks) != len(new_toks):
        return None, "token count %d -> %d" % (len(base_toks), len(new_toks))
    fwd = {}
    back = {}
    conflicts = []
    for k, ((ka, a), (kb, b)) in enumerate(zip(base_toks, new_toks)):
        if ka != kb:
            return None, "token %d kind %s %r -> %s %r" % (k, ka, a, kb, b)
        if ka != "id":
            if a != b:
                return None, "token %d %r -> %r" % (k, a, b)
            continue
        if a in fwd:
            if fwd[a] != b:
                conflicts.append(("nonfunctional", a, fwd[a], b))
            continue
        fwd[a] = b
        if b in back and back[b] != a:
            conflicts.append(("noninjective", b, back[b], a))
        else:
            back[b] = a
    return fwd, conflicts


def functions_defined(toks):
    """functions defined at brace depth 0:  <type-end> NAME '(' params ')' [':' SEMANTIC] '{'
    -> list of (name, index of NAME, index of '{', param tokens)"""
    out = []
    depth = 0
    brk = 0
    n = len(toks)
    for i in range(n):
        k, t = toks[i]
        if k == "op":
            if t == "{":
                depth += 1
            elif t == "}":
                depth -= 1
            elif t == "[":
                brk += 1
            elif t == "]":
                brk -= 1
            continue
        if depth != 0 or brk != 0 or k != "id" or i == 0 or i + 1 >= n or toks[i + 1] != ("op", "("):
            continue
        if t in _group_words or not (toks[i - 1][0] == "id" or toks[i - 1] in (("op", ">"), ("op", "&"), ("op", "*"))):
            continue
        j = i + 2
        pd = 1
        while j < n and pd > 0:
            if toks[j] == ("op", "("):
                pd += 1
            elif toks[j] == ("op", ")"):
                pd -= 1
            j += 1
        params = toks[i + 2:j - 1]
        if j + 1 < n and toks[j] == ("op", ":") and toks[j + 1][0] == "id":
            j += 2
        if j < n and toks[j] == ("op", "{"):
            out.append((t, i, j, params))
    return out


def split_params(params):
    """parameter tokens -> (names, signature string)"""
    names = []
    sig = []
    cur = []
    pd = 0
    groups = []
    for tok in params:
        if tok[0] == "op" and tok[1] in ("(", "[", "<"):
            pd += 1
        elif tok[0] == "op" and tok[1] in (")", "]", ">"):
            pd -= 1
        if tok == ("op", ",") and pd == 0:
            groups.append(cur)
            cur = []
        else:
            cur.append(tok)
    if cur:
        groups.append(cur)
    for g in groups:
        nm = declared_name(g)
        if nm:
            names.append(nm)
        sig.append(" ".join(x for kk, x in g if x != nm))
    return names, ", ".join(sig)


def scope_scan(toks):
    """independent scan of emitted C-like text.
    returns (module: list of (kind, name, signature), blocks: list of (where, [names declared directly in that block]))
    module kinds: 'struct', 'func', 'var', 'block'."""
    n = len(toks)
    module = []
    blocks = []
    fstart = {i: (name, j, params) for name, i, j, params in functions_defined(toks)}
    i = 0
    stmt_start = 0
    while i < n:
        k, t = toks[i]
        if i in fstart:
            name, j, params = fstart[i]
            pnames, sig = split_params(params)
            module.append(("func", name, sig))
            body_end = match_brace(toks, j)
            blocks += local_blocks(toks, j, body_end, name, pnames)
            i = body_end + 1
            stmt_start = i
            continue
        if k == "op" and t == "{":
            head = toks[stmt_start:i]
            ids = [x for kk, x in head if kk == "id"]
            end = match_brace(toks, i)
            nxt = toks[end + 1] if end + 1 < n else ("op", ";")
            if any(tk == ("op", "=") for tk in head):
                nm = declared_name(head)
                if nm:
                    module.append(("var", nm, ""))
            elif "struct" in ids and ids.index("struct") + 1 < len(ids):
                nm = ids[ids.index("struct") + 1]
                module.append(("struct", nm, ""))
                blocks.append(("struct " + nm, member_names(toks, i, end)))
            elif "cbuffer" in ids or "uniform" in ids or "buffer" in ids:
                kwi = max(ids.index(w) for w in ("cbuffer", "uniform", "buffer") if w in ids)
                bname = ids[kwi + 1] if kwi + 1 < len(ids) else "?"
                has_inst = nxt[0] == "id" and end + 2 < n and toks[end + 2] == ("op", ";")
                if has_inst:
                    module.append(("var", nxt[1], ""))        # GLSL block with an instance name
                    blocks.append(("block " + bname, member_names(toks, i, end)))
                else:
                    for m in member_names(toks, i, end):       # members are module-scope variables
                        module.append(("var", m, ""))
                if "cbuffer" not in ids:
                    module.append(("block", bname, ""))
            i = end + 1
            if i < n and toks[i][0] == "id" and i + 1 < n and toks[i + 1] == ("op", ";"):
                i += 2
            elif i < n and toks[i] == ("op", ";"):
                i += 1
            stmt_start = i
            continue
        if k == "pp":
            stmt_start = i + 1
        elif k == "op" and t == ";":
            nm = declared_name(toks[stmt_start:i])
            if nm:
                module.append(("var", nm, ""))
            stmt_start = i + 1
        i += 1
    return module, blocks


def match_brace(toks, i):
    depth = 0
    n = len(toks)
    while i < n:
        if toks[i] == ("op", "{"):
            depth += 1
        elif toks[i] == ("op", "}"):
            depth -= 1
            if depth == 0:
                return i
        i += 1
    return n - 1


def declared_pos(head):
    """head: tokens of one declaration-or-statement (without the final ';' / ',').
    Returns the position (in head) of the declared name or None.  A declaration has a name directly
    after the end of a type (an identifier, '>', '&', '*', ']' or ')' of a layout(...) / attribute group)
    before any of  =  .  :   and does not start with a control keyword."""
    if not head or head[0][0] != "id" or head[0][1] in _control or head[0][1] in _nondecl_heads:
        return None
    i = 0
    n = len(head)
    name = None
    prev = None
    while i < n:
        k, t = head[i]
        if k == "op" and t in ("(", "["):
            if t == "(" and prev is not None and prev[0] == "id" and prev[1] not in _group_words:
                return None                      # a call / prototype, not a variable declaration
            close = ")" if t == "(" else "]"
            d = 1
            j = i + 1
            while j < n and d > 0:
                if head[j] == ("op", t):
                    d += 1
                elif head[j] == ("op", close):
                    d -= 1
                j += 1
            i = j
            prev = ("op", close) if name is None else prev
            continue
        if k == "op" and t in ("=", ".", ":"):
            break
        if k == "id" and prev is not None and ((prev[0] == "id" and prev[1] not in _control) or
                                               prev in (("op", ">"), ("op", "&"), ("op", "*"), ("op", ")"), ("op", "]"))):
            name = i
        prev = (k, t)
        i += 1
    return name


def declared_name(head):
    p = declared_pos(head)
    return None if p is None else head[p][1]


def member_names(toks, i, end):
    """declared member names inside the braces toks[i]..toks[end] (depth 1 statements)"""
    out = []
    depth = 0
    start = i + 1
    k = i
    while k <= end:
        if toks[k] == ("op", "{"):
            depth += 1
            if depth == 2:
                # nested definition (MSL template operator in DefaultConstructible): skip
                k = match_brace(toks, k)
                depth = 1
                start = k + 1
        elif toks[k] == ("op", "}"):
            depth -= 1
        elif toks[k] == ("op", ";") and depth == 1:
            nm = declared_name(toks[start:k])
            if nm:
                out.append(nm)
            start = k + 1
        k += 1
    return out


def local_blocks(toks, j, end, fname, pnames):
    """blocks of a function body toks[j]='{' .. toks[end]='}': list of (label, names declared directly in the block);
    parameters belong to the outermost block."""
    out = []
    stack = [list(pnames)]
    start = j + 1
    k = j + 1
    pd = 0
    while k < end:
        kk, t = toks[k]
        if kk == "op" and t == "(":
            pd += 1
        elif kk == "op" and t == ")":
            pd -= 1
        elif kk == "op" and t == "{" and pd == 0:
            # an initializer list `= { ... }` is not a block
            if k > 0 and toks[k - 1] in (("op", "="), ("op", ","), ("op", "(")) or (k > 0 and toks[k - 1][0] == "id" and looks_like_init(toks, start, k)):
                k = match_brace(toks, k)
            else:
                stack.append([])
                start = k + 1
        elif kk == "op" and t == "}" and pd == 0:
            if len(stack) > 1:
                out.append((fname, stack.pop()))
            start = k + 1
        elif kk == "op" and t == ";" and pd == 0:
            nm = declared_name(toks[start:k])
            if nm:
                stack[-1].append(nm)
            start = k + 1
        k += 1
    while stack:
        out.append((fname, stack.pop()))
    return out


def looks_like_init(toks, start, k):
    """`Type name {` / `return Type {` brace initialisers (MSL): the statement already contains '=' or starts with return"""
    head = toks[start:k]
    if not head:
        return False
    if head[0] == ("id", "return"):
        return True
    return any(t == ("op", "=") for t in head)


def duplicates(names):
    seen = set()
    dup = []
    for x in names:
        if x in seen and x not in dup:
            dup.append(x)
        seen.add(x)
    return dup


def scope_violations(toks):
    """-> list of (kind, name, where)"""
    out = []
    module, blocks = scope_scan(toks)
    seen = {}
    for kind, name, sig in module:
        key = name
        if key in seen:
            pk, psig = seen[key]
            if kind == "func" and pk == "func" and sig != psig:
                continue                                     # overload with a different parameter list
            if {kind, pk} == {"block", "struct"} or (kind == "block" and pk == "block"):
                continue
            out.append(("module-duplicate", name, "%s vs %s" % (pk, kind)))
        else:
            seen[key] = (kind, sig)
    for where, names in blocks:
        for d in duplicates(names):
            out.append(("block-duplicate", d, where))
    return out


def has_function(toks, name):
    return any(f[0] == name for f in functions_defined(toks))


# ------------------------------------------------------------------ spec words (single source: coq/Namer/Spec*.v)

def load_spec(coq_dir):
    """-> {'hlsl': [...], 'hlsl_ci': [...], 'msl': [...], 'glsl': [...]} parsed from the Coq spec files"""
    import os
    out = {}
    def defs(path):
        src = open(os.path.join(coq_dir, "Namer", path), encoding="utf-8").read()
        d = {}
        for m in re.finditer(r"Definition (\w+) : list str := map z_of_string \[(.*?)\]%string\.", src, re.S):
            d[m.group(1)] = re.findall(r'"([^"]*)"', m.group(2))
        return d
    h = defs("SpecHlsl.v")
    out["hlsl"] = h["hlsl_spec_keywords"] + h["hlsl_spec_reserved"]
    out["hlsl_ci"] = h["hlsl_spec_ci"]
    out["hlsl_sized"] = h["hlsl_sized_types"]
    m = defs("SpecMsl.v")
    out["msl"] = m["cpp14_keywords"] + m["cpp14_alt_tokens"] + m["metal_words"]
    g = defs("SpecGlsl.v")
    out["glsl"] = g["glsl_spec_keywords"] + g["glsl_spec_reserved"]
    return out


def reserved_reason(backend, name, spec):
    """why `name` is not a legal non-reserved identifier of the target language, or None"""
    if name in spec["_set_" + backend]:
        return "keyword"
    if backend in ("hlsl", "glsl") and not name.isascii():
        return "non-ascii"          # HLSL / GLSL identifiers are [A-Za-z_][A-Za-z0-9_]*
    if backend == "hlsl" and name.lower() in spec["_set_hlsl_ci"]:
        return "case-insensitive-keyword"
    if backend == "hlsl" and name in spec["_set_hlsl_sized"]:
        return "sized-type-name"
    if backend == "glsl":
        if name.startswith("gl_"):
            return "gl_-prefix"
        if "__" in name:
            return "double-underscore"
    if backend == "msl":
        if "__" in name:
            return "double-underscore"
        if re.match(r"_[A-Z]", name):
            return "underscore-uppercase"
    return None


def prepare_spec(spec):
    for b in ("hlsl", "msl", "glsl"):
        spec["_set_" + b] = set(spec[b])
    spec["_set_hlsl_ci"] = set(w.lower() for w in spec["hlsl_ci"])
    spec["_set_hlsl_sized"] = set(spec["hlsl_sized"])
    return spec


# ------------------------------------------------------------------ small programs covering every declaration kind

_UF = "".join("fn uf%d(x: f32) -> f32 { var loc%d = x; loc%d += %d.0; return loc%d; }\n" % (i, i, i, i, i) for i in range(10))
_UFCALL = " + ".join("uf%d(a)" % i for i in range(10))

# every WGSL builtin function, so that every spelling a back end emits for one of them occurs in a baseline output and is
# tried as the name of a user function (module scope) and of a local (the uf*/loc* entities are there to carry the names)
BUILTIN_PROGRAMS = [
    ("c16_builtins_float", _UF + """
@group(0) @binding(0) var<storage, read_write> o: array<f32>;
@compute @workgroup_size(1) fn main() {
  let a = o[0]; let v = vec3<f32>(a, o[1], o[2]); let m = mat2x2<f32>(a, o[1], o[2], o[3]);
  var acc = """ + _UFCALL + """;
  acc += abs(a) + acos(a) + acosh(a) + asin(a) + asinh(a) + atan(a) + atanh(a) + atan2(a, a) + ceil(a) + clamp(a, a, a) + cos(a) + cosh(a);
  acc += degrees(a) + exp(a) + exp2(a) + floor(a) + fma(a, a, a) + fract(a) + inverseSqrt(a) + ldexp(a, 2) + log(a) + log2(a) + max(a, a) + min(a, a);
  acc += mix(a, a, a) + pow(a, a) + radians(a) + round(a) + saturate(a) + sign(a) + sin(a) + sinh(a) + smoothstep(a, a, a) + sqrt(a) + step(a, a);
  acc += tan(a) + tanh(a) + trunc(a) + quantizeToF16(a) + select(a, a, a > 0.0);
  acc += length(v) + distance(v, v) + dot(v, v) + cross(v, v).x + normalize(v).x + faceForward(v, v, v).x + reflect(v, v).x + refract(v, v, a).x;
  acc += determinant(m) + transpose(m)[0].x + modf(a).fract + modf(a).whole + frexp(a).fract + f32(frexp(a).exp);
  acc += select(0.0, 1.0, all(v > vec3<f32>(0.0))) + select(0.0, 1.0, any(v > vec3<f32>(0.0))) + f32(arrayLength(&o));
  acc += mix(v, v, v).x + mix(v, v, a).y + clamp(v, v, v).z + fma(v, v, v).x + smoothstep(v, v, v).x + ldexp(v, vec3<i32>(1)).x + length(a);
  o[0] = acc;
}
"""),
    ("c16_builtins_int", _UF + """
@group(0) @binding(0) var<storage, read_write> o: array<u32>;
@group(0) @binding(1) var<storage, read_write> of: array<f32>;
@compute @workgroup_size(1) fn main() {
  let a = of[0]; let u = o[0]; let i = bitcast<i32>(o[1]); let uv = vec4<u32>(u, o[1], o[2], o[3]); let fv = vec4<f32>(a, of[1], of[2], of[3]);
  var facc = """ + _UFCALL + """;
  var acc = countOneBits(u) + countLeadingZeros(u) + countTrailingZeros(u) + reverseBits(u) + firstLeadingBit(u) + firstTrailingBit(u);
  acc += extractBits(u, 1u, 2u) + insertBits(u, u, 1u, 2u) + u32(extractBits(i, 1u, 2u)) + u32(firstLeadingBit(i)) + u32(abs(i)) + u32(sign(i));
  acc += min(u, 3u) + max(u, 3u) + clamp(u, 1u, 3u) + dot(uv, uv) + select(u, 3u, u > 1u) + u32(dot(vec2<i32>(i), vec2<i32>(i)));
  acc += pack4x8snorm(fv) + pack4x8unorm(fv) + pack2x16snorm(fv.xy) + pack2x16unorm(fv.xy) + pack2x16float(fv.xy);
  acc += pack4xI8(vec4<i32>(uv)) + pack4xU8(uv) + pack4xI8Clamp(vec4<i32>(uv)) + pack4xU8Clamp(uv) + dot4U8Packed(u, u) + u32(dot4I8Packed(u, u));
  facc += unpack4x8snorm(u).x + unpack4x8unorm(u).x + unpack2x16snorm(u).x + unpack2x16unorm(u).x + unpack2x16float(u).x;
  acc += unpack4xU8(u).x + u32(unpack4xI8(u).x) + countOneBits(uv).x + reverseBits(uv).y + u32(i32(a)) + u32(a) + u32(f32(u));
  acc += bitcast<u32>(a) + u32(bitcast<i32>(a)) + bitcast<vec4<u32>>(fv).x;
  o[0] = acc; of[0] = facc;
}
"""),
    ("c16_builtins_fragment", _UF + """
@group(0) @binding(0) var t2: texture_2d<f32>;
@group(0) @binding(1) var s: sampler;
@group(0) @binding(2) var td: texture_depth_2d;
@group(0) @binding(3) var sc: sampler_comparison;
@group(0) @binding(4) var ta: texture_2d_array<f32>;
@group(0) @binding(5) var tc: texture_cube<f32>;
@group(0) @binding(6) var tm: texture_multisampled_2d<f32>;
@group(0) @binding(7) var t3: texture_3d<f32>;
@fragment fn main(@location(0) uv: vec2<f32>) -> @location(0) vec4<f32> {
  let a = uv.x;
  var acc = vec4<f32>(""" + _UFCALL + """);
  acc += textureSample(t2, s, uv) + textureSampleBias(t2, s, uv, 0.5) + textureSampleLevel(t2, s, uv, 1.0) + textureSampleGrad(t2, s, uv, uv, uv);
  acc += textureGather(0, t2, s, uv) + textureLoad(t2, vec2<i32>(uv), 0) + textureSample(ta, s, uv, 1) + textureSample(tc, s, vec3<f32>(uv, 1.0));
  acc += vec4<f32>(textureSampleCompare(td, sc, uv, 0.5)) + vec4<f32>(textureSampleCompareLevel(td, sc, uv, 0.5)) + textureGatherCompare(td, sc, uv, 0.5);
  acc += textureLoad(tm, vec2<i32>(uv), 1) + textureSample(t3, s, vec3<f32>(uv, 0.5)) + textureSampleBaseClampToEdge(t2, s, uv);
  acc += vec4<f32>(vec2<f32>(textureDimensions(t2)), f32(textureNumLevels(t2)), f32(textureNumLayers(ta))) + vec4<f32>(f32(textureNumSamples(tm)));
  acc += vec4<f32>(dpdx(a) + dpdy(a) + fwidth(a) + dpdxFine(a) + dpdyFine(a) + fwidthFine(a) + dpdxCoarse(a) + dpdyCoarse(a) + fwidthCoarse(a));
  return acc;
}
"""),
]

SMALL_PROGRAMS = [
    ("c16_vertex_struct_inputs", """
const first: u32 = 1000u;
const bias = 0.5;
struct VIn { @location(0) pos: vec4<f32>, @location(1) nrm: vec3<f32>, @builtin(vertex_index) vid: u32, @builtin(instance_index) iid: u32, }
struct VOut { @builtin(position) p: vec4<f32>, @location(0) c: vec4<f32>, }
var<private> scale: f32 = 2.0;
fn helper(q: f32) -> f32 { let t = q * bias; return t + scale; }
@vertex fn vs(v: VIn) -> VOut { var o: VOut; let k = v.vid + v.iid + first; o.p = v.pos * helper(f32(k)); o.c = vec4<f32>(v.nrm, 1.0); return o; }
@fragment fn fs(i: VOut) -> @location(0) vec4<f32> { return i.c * bias; }
"""),
    ("c16_all_kinds", """
struct Inner { a: f32, b: vec2<f32>, }
struct Outer { inner: Inner, count: u32, items: array<f32, 4>, }
struct VsOut { @builtin(position) pos: vec4<f32>, @location(0) uv: vec2<f32>, @location(1) @interpolate(flat) idx: u32, }
alias Scalar = f32;
const SCALE: f32 = 2.0;
const COUNT: u32 = 3u;
var<private> counter: u32 = 0u;
var<workgroup> shared_data: array<u32, 64>;
@group(0) @binding(0) var<uniform> params: Outer;
@group(0) @binding(1) var<storage, read_write> data: array<Outer>;
@group(1) @binding(0) var tex: texture_2d<f32>;
@group(1) @binding(1) var samp: sampler;
fn helper(value: f32, other: f32) -> f32 { var acc: f32 = value; let twice = other * SCALE; acc = acc + twice; return acc / other; }
fn make(count: u32) -> Outer { var o: Outer; o.count = count; o.inner = Inner(1.0, vec2<f32>(2.0)); o.items[1] = helper(1.0, 2.0); return o; }
fn divide(num: i32, den: i32) -> i32 { return num / den + num % den; }
@vertex fn vert(@builtin(vertex_index) vi: u32, @location(0) attr: vec2<f32>) -> VsOut {
  var out: VsOut; let o = make(vi); out.pos = vec4<f32>(attr * params.inner.a, 0.0, 1.0); out.uv = attr; out.idx = o.count + COUNT; return out; }
@fragment fn frag(input: VsOut) -> @location(0) vec4<f32> {
  let color = textureSample(tex, samp, input.uv); var total: Scalar = 0.0;
  for (var i: u32 = 0u; i < input.idx; i = i + 1u) { total = total + data[i].inner.a; }
  return color * total; }
@compute @workgroup_size(64) fn comp(@builtin(local_invocation_id) lid: vec3<u32>, @builtin(global_invocation_id) gid: vec3<u32>) {
  shared_data[lid.x] = gid.x; workgroupBarrier(); counter = counter + 1u;
  data[gid.x].count = shared_data[lid.x] + counter + u32(divide(i32(gid.x), 3)); }
"""),
    ("c16_shadowing", """
struct Item { value: i32, next: i32, }
var<private> value: i32 = 1;
var<private> total: i32 = 0;
fn next(value: i32) -> i32 { var total: i32 = value; { var value: i32 = total + 1; total = value; } return total; }
fn bump(item: Item) -> Item { var r: Item = item; r.value = next(item.value) + value; r.next = item.next + total; return r; }
@compute @workgroup_size(1) fn main() { var item: Item; item = bump(item); total = item.value + value; loop { if total > 3 { break; } total = total + 1; } }
"""),
    ("c16_math_helpers", """
@group(0) @binding(0) var<storage, read_write> out: array<f32>;
@group(0) @binding(1) var<storage, read_write> outi: array<i32>;
fn work(x: f32, n: i32, u: u32) -> f32 {
  let m = modf(x); let f = frexp(x); let q = n / 3; let r = n % 5; let a = abs(n); let neg = -n;
  let e = extractBits(u, 1u, 3u); let ins = insertBits(u, 2u, 1u, 3u); let c = i32(x); let d = u32(x);
  outi[0] = q + r + a + neg + c; return m.fract + f.fract + f32(e + ins + d); }
@compute @workgroup_size(1) fn main() { out[0] = work(1.5, 7, 9u); }
"""),
    ("c16_io_structs", """
struct VertexInput { @location(0) position: vec3<f32>, @location(1) normal: vec3<f32>, }
struct VertexOutput { @builtin(position) clip: vec4<f32>, @location(0) normal: vec3<f32>, @location(1) depth: f32, }
struct FragmentOutput { @location(0) color: vec4<f32>, @builtin(frag_depth) depth: f32, }
struct Camera { view: mat4x4<f32>, proj: mat4x4<f32>, }
@group(0) @binding(0) var<uniform> camera: Camera;
@vertex fn vs_main(vin: VertexInput, @builtin(instance_index) inst: u32) -> VertexOutput {
  var vout: VertexOutput; vout.clip = camera.proj * camera.view * vec4<f32>(vin.position, 1.0); vout.normal = vin.normal; vout.depth = f32(inst); return vout; }
@fragment fn fs_main(fin: VertexOutput, @builtin(front_facing) front: bool) -> FragmentOutput {
  var fout: FragmentOutput; fout.color = vec4<f32>(fin.normal, select(0.0, 1.0, front)); fout.depth = fin.depth; return fout; }
"""),
]


# ------------------------------------------------------------------ reference resolution (C scoping)

def resolve(toks):
    """For every identifier token: the index of the declaration it refers to under C-like scoping
    (innermost block first, a name is visible from its declarator on, then parameters, then module
    scope), or None when it is not a reference to a declared entity (member access after '.', '->'
    or '::', attribute / layout / register arguments, semantics, builtins, keywords).
    Declarations resolve to themselves.  -> dict index -> index|None"""
    n = len(toks)
    res = {}
    skip = set()
    # contexts that are not references
    i = 0
    while i < n:
        k, t = toks[i]
        if k == "op" and t == "[":
            prev = toks[i - 1] if i > 0 else ("op", ";")
            attr = (i + 1 < n and toks[i + 1] == ("op", "[")) or not (prev[0] in ("id", "num") or prev in (("op", "]"), ("op", ")")))
            if attr:
                d = 0
                j = i
                while j < n:
                    if toks[j] == ("op", "["):
                        d += 1
                    elif toks[j] == ("op", "]"):
                        d -= 1
                        if d == 0:
                            break
                    elif toks[j][0] == "id":
                        skip.add(j)
                    j += 1
                i = j + 1
                continue
        if k == "id" and t in _group_words and i + 1 < n and toks[i + 1] == ("op", "("):
            skip.add(i)
            d = 0
            j = i + 1
            while j < n:
                if toks[j] == ("op", "("):
                    d += 1
                elif toks[j] == ("op", ")"):
                    d -= 1
                    if d == 0:
                        break
                elif toks[j][0] == "id":
                    skip.add(j)
                j += 1
            i = j + 1
            continue
        if k == "id" and i > 0 and toks[i - 1] in (("op", "."), ("op", "->"), ("op", "::")):
            skip.add(i)
        i += 1

    module = {}
    fstart = {fi: (name, j, params) for name, fi, j, params in functions_defined(toks)}

    def lookup(name, scopes):
        for sc in reversed(scopes):
            if name in sc:
                return sc[name]
        return module.get(name)

    def refs(a, b, scopes, decl=None):
        for q in range(a, b):
            if toks[q][0] != "id" or q in skip:
                continue
            if q == decl:
                res[q] = q
            else:
                res[q] = lookup(toks[q][1], scopes)

    def statement(a, b, scopes, target):
        """tokens a..b-1 form one statement / declaration; target: dict receiving a declared name"""
        p = declared_pos(toks[a:b])
        decl = None if p is None else a + p
        # the initializer is resolved before the name becomes visible only for `T x = x;` corner cases; C makes
        # the name visible from its declarator on: resolve the head first, then add
        if decl is not None:
            refs(a, decl, scopes)
            res[decl] = decl
            if target is not None:
                target[toks[decl][1]] = decl
            refs(decl + 1, b, scopes)
        else:
            refs(a, b, scopes)

    def struct_body(i, end, scopes):
        depth = 0
        start = i + 1
        q = i
        while q <= end:
            if toks[q] == ("op", "{"):
                depth += 1
                if depth == 2:
                    e2 = match_brace(toks, q)
                    refs(start, e2 + 1, scopes)
                    q = e2
                    depth = 1
                    start = q + 1
            elif toks[q] == ("op", "}"):
                depth -= 1
            elif toks[q] == ("op", ";") and depth == 1:
                statement(start, q, scopes, {})          # member names live in the struct's own namespace
                start = q + 1
            q += 1

    def body(j, end, scopes):
        scopes = scopes + [{}]
        base_depth = len(scopes)
        start = j + 1
        q = j + 1
        pd = 0
        while q < end:
            kk, t = toks[q]
            if kk == "op" and t == "(":
                pd += 1
            elif kk == "op" and t == ")":
                pd -= 1
            elif kk == "op" and t == "{" and pd == 0:
                if toks[q - 1] in (("op", "="), ("op", ","), ("op", "(")) or (toks[q - 1][0] == "id" and looks_like_init(toks, start, q)):
                    q = match_brace(toks, q)           # initializer list: part of the current statement
                else:
                    statement(start, q, scopes, None)
                    scopes.append({})
                    start = q + 1
            elif kk == "op" and t == "}" and pd == 0:
                statement(start, q, scopes, None)
                if len(scopes) > base_depth:
                    scopes.pop()
                start = q + 1
            elif kk == "op" and t == ";" and pd == 0:
                statement(start, q, scopes, scopes[-1])
                start = q + 1
            q += 1
        statement(start, end, scopes, None)

    i = 0
    stmt_start = 0
    while i < n:
        k, t = toks[i]
        if i in fstart:
            name, j, params = fstart[i]
            pscope = {}
            # template<typename A, ...> before the function: A is declared in the function's scope
            q = stmt_start
            if q < i and toks[q] == ("id", "template") and q + 1 < i and toks[q + 1] == ("op", "<"):
                q += 2
                while q < i and toks[q] != ("op", ">"):
                    if toks[q][0] == "id" and toks[q - 1] in (("id", "typename"), ("id", "class")):
                        pscope[toks[q][1]] = q
                        res[q] = q
                        skip.add(q)
                    q += 1
            refs(stmt_start, i, [pscope])               # return type
            res[i] = i
            module[name] = i
            # parameters: split at top-level commas
            a = i + 2
            pd = 0
            q = a
            pend = a + len(params)
            while q <= pend:
                tok = toks[q] if q < pend else ("op", ",")
                if tok[0] == "op" and tok[1] in ("(", "[", "<") and q < pend:
                    pd += 1
                elif tok[0] == "op" and tok[1] in (")", "]", ">") and q < pend:
                    pd -= 1
                if tok == ("op", ",") and pd == 0:
                    statement(a, q, [pscope], pscope)
                    a = q + 1
                q += 1
            refs(pend, j, [pscope])                    # ': SEMANTIC'
            body_end = match_brace(toks, j)
            body(j, body_end, [pscope])
            i = body_end + 1
            stmt_start = i
            continue
        if k == "op" and t == "{":
            head = toks[stmt_start:i]
            ids = [x for kk, x in head if kk == "id"]
            end = match_brace(toks, i)
            if any(tk == ("op", "=") for tk in head):
                statement(stmt_start, end + 1, [], module)
            elif "struct" in ids and ids.index("struct") + 1 < len(ids):
                q = stmt_start
                while toks[q] != ("id", "struct"):
                    q += 1
                refs(stmt_start, q + 1, [])
                res[q + 1] = q + 1
                module[toks[q + 1][1]] = q + 1
                refs(q + 2, i, [])
                struct_body(i, end, [])
            elif "cbuffer" in ids or "uniform" in ids or "buffer" in ids:
                refs(stmt_start, i, [])
                has_inst = end + 2 < n and toks[end + 1][0] == "id" and toks[end + 2] == ("op", ";")
                if has_inst:
                    struct_body(i, end, [])
                    res[end + 1] = end + 1
                    module[toks[end + 1][1]] = end + 1
                else:
                    # members are module-scope variables
                    start = i + 1
                    for q in range(i + 1, end + 1):
                        if toks[q] == ("op", ";"):
                            statement(start, q, [], module)
                            start = q + 1
            else:
                refs(stmt_start, end + 1, [])
            i = end + 1
            if i < n and toks[i][0] == "id" and i + 1 < n and toks[i + 1] == ("op", ";"):
                i += 2
            elif i < n and toks[i] == ("op", ";"):
                i += 1
            stmt_start = i
            continue
        if k == "pp":
            stmt_start = i + 1
        elif k == "op" and t == ";":
            statement(stmt_start, i, [], module)
            stmt_start = i + 1
        i += 1
    return res


def resolution_diffs(bt, nt):
    """bt, nt: token lists of equal shape.  -> list of (index, baseline target index, variant target index)"""
    rb = resolve(bt)
    rn = resolve(nt)
    out = []
    for i in sorted(set(rb) | set(rn)):
        if rb.get(i) != rn.get(i):
            out.append((i, rb.get(i), rn.get(i)))
    return out


def member_diffs(bt, nt):
    """member accesses (identifier after '.' or '->'): where the baseline names a member that some struct /
    block of the baseline declares, the variant must name a member that some struct / block of the variant
    declares.  -> list of (index, baseline spelling, variant spelling)"""
    def declared_members(toks):
        out = set()
        module, blocks = scope_scan(toks)
        for where, names in blocks:
            if where.startswith("struct ") or where.startswith("block "):
                out |= set(names)
        return out
    db = declared_members(bt)
    dn = declared_members(nt)
    out = []
    for i in range(1, len(bt)):
        if bt[i][0] == "id" and bt[i - 1] in (("op", "."), ("op", "->")):
            if bt[i][1] in db and nt[i][1] not in dn:
                out.append((i, bt[i][1], nt[i][1]))
    return out
