"""Statement forms whose operands are INLINED operator expressions (used once, never bound by `let`).

The text back ends print a statement by pasting operand text into a statement template; how an operand is pasted
(as a printf argument, by concatenation into a format string, with or without parentheses) is independent of what
the operand is - unless the writer gets it wrong: a `%` in the operand text re-read as a printf verb, a missing
parenthesis that lets a low-precedence operator of the operand re-associate with the statement's own syntax, an
operand evaluated twice.  The typed generator binds most operands of atomic statements to lets, so this family
enumerates {atomic statement form} x {operator at the top of each operand} instead.

programs() -> [(name, wgsl)]; every program has the buffers
   c : array<atomic<u32>, 8> (or atomic<i32>), ou : array<u32, 40>, iu : array<u32, 8> (inputs)
and is free of WGSL-undefined and GLSL-undefined behaviour for arbitrary u32 inputs (divisors and shift amounts are
literals, `%` and `/` only on u32)."""

U_OPS = [("add", "{a} + {k}u"), ("sub", "{a} - {k}u"), ("mul", "{a} * {k}u"), ("div", "{a} / {k}u"), ("mod", "{a} % {k}u"),
         ("and", "{a} & {k}u"), ("or", "{a} | {k}u"), ("xor", "{a} ^ {k}u"), ("shl", "{a} << {k}u"), ("shr", "{a} >> {k}u"),
         ("not", "~{a}"), ("min", "min({a}, {k}u)"), ("sel", "select({a}, {k}u, {a} > {k}u)"), ("cast", "u32(i32({a}) + {k})")]
RMW = ["atomicAdd", "atomicSub", "atomicMax", "atomicMin", "atomicAnd", "atomicOr", "atomicXor", "atomicExchange"]

HDR_U0 = ("@group(0) @binding(0) var<storage, read_write> c: array<atomic<u32>, 8>;\n"
          "@group(0) @binding(1) var<storage, read_write> ou: array<u32, 40>;\n"
          "@group(0) @binding(2) var<storage, read> iu: array<u32, 8>;\n")


def programs(workgroup_array=True):
    """workgroup_array=False: the workgroup atomic is a scalar (the MSL interpreter does not model the element-wise
    zero-initialisation of workgroup aggregates of atomics)"""
    out = []
    HDR_U = HDR_U0 + ("var<workgroup> w: array<atomic<u32>, 4>;\n" if workgroup_array else "var<workgroup> w: atomic<u32>;\n")
    for opn, form in U_OPS:
        def e(a, k):
            return form.format(a=a, k=k)
        L = []
        n = 0
        for f in RMW:
            # with a result: index = (<op expr>) % 8u  (the `%` is the TOP operator of the index operand), value = <op expr>
            L.append("  let r%d = %s(&c[(%s) %% 8u], %s); ou[%d] = r%d;" % (n, f, e("iu[%d]" % (n % 8), 3), e("iu[%d]" % ((n + 1) % 8), 5), n, n))
            # without a result (statement form)
            L.append("  %s(&c[(%s) %% 8u], %s);" % (f, e("iu[%d]" % ((n + 2) % 8), 2), e("iu[%d]" % ((n + 3) % 8), 7)))
            n += 1
        L.append("  atomicStore(&c[(%s) %% 8u], %s);" % (e("iu[4]", 3), e("iu[5]", 2)))
        L.append("  ou[20] = atomicLoad(&c[(%s) %% 8u]);" % e("iu[6]", 3))
        if workgroup_array:
            L.append("  atomicStore(&w[(%s) %% 4u], %s);" % (e("iu[0]", 1), e("iu[3]", 4)))
            L.append("  let rw = atomicAdd(&w[(%s) %% 4u], %s); ou[23] = rw;" % (e("iu[0]", 1), e("iu[7]", 6)))
            L.append("  atomicMax(&w[(%s) %% 4u], %s);" % (e("iu[1]", 2), e("iu[2]", 3)))
            for k in range(4):
                L.append("  ou[%d] = atomicLoad(&w[%d]);" % (24 + k, k))
        else:
            L.append("  atomicStore(&w, %s);" % e("iu[3]", 4))
            L.append("  let rw = atomicAdd(&w, %s); ou[23] = rw;" % e("iu[7]", 6))
            L.append("  atomicMax(&w, %s);" % e("iu[2]", 3))
            L.append("  ou[24] = atomicLoad(&w);")
        for k in range(8):
            L.append("  ou[%d] = atomicLoad(&c[%d]);" % (28 + k, k))
        out.append(("opform_atomic_u32_%s" % opn, HDR_U + "@compute @workgroup_size(1)\nfn main() {\n" + "\n".join(L) + "\n}\n"))
    # i32 atomics: operands with unary minus and the additive / bitwise operators
    L = []
    forms_i = ["-{a}", "{a} + {k}", "{a} - {k}", "{a} * {k}", "{a} & {k}", "{a} | {k}", "{a} ^ {k}", "max({a}, -{k})"]
    for n, f in enumerate(RMW):
        fi = forms_i[n % len(forms_i)]
        L.append("  let r%d = %s(&d[(iu[%d] + %du) %% 8u], %s); oi[%d] = r%d;" % (n, f, n % 8, n, fi.format(a="ii[%d]" % (n % 8), k=3 + n), n, n))
        L.append("  %s(&d[(iu[%d] * 3u) %% 8u], %s);" % (f, (n + 1) % 8, forms_i[(n + 3) % len(forms_i)].format(a="ii[%d]" % ((n + 2) % 8), k=2 + n)))
    for k in range(8):
        L.append("  oi[%d] = atomicLoad(&d[%d]);" % (8 + k, k))
    out.append(("opform_atomic_i32", "@group(0) @binding(0) var<storage, read_write> d: array<atomic<i32>, 8>;\n"
                "@group(0) @binding(1) var<storage, read_write> oi: array<i32, 16>;\n"
                "@group(0) @binding(2) var<storage, read> iu: array<u32, 8>;\n"
                "@group(0) @binding(3) var<storage, read> ii: array<i32, 8>;\n"
                "@compute @workgroup_size(1)\nfn main() {\n" + "\n".join(L) + "\n}\n"))
    return out
