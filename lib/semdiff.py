"""Differential execution helpers: WGSL-core AST (wgslrun) vs lowered IR (irrun)."""
import json

import nagarun
import vcheck
import wgslgen


def gen_cases(rng, n, opts=None, inputs_per_prog=2):
    cases = []
    for i in range(n):
        r = rng.fork("prog%d" % i)
        prog, src = wgslgen.generate(r, opts)
        ins = [wgslgen.gen_inputs(r.fork("in%d" % k), prog) for k in range(inputs_per_prog)]
        cases.append({"prog": prog, "src": src, "inputs": ins})
    return cases


def lower_all(tools, cases, want=("ir",)):
    jobs = [{"id": i, "src": c["src"], "want": list(want)} for i, c in enumerate(cases)]
    res = nagarun.parallel_batches(tools["nagadrive"], "compile", jobs, per_job_timeout=30.0, chunk=16)
    for i, c in enumerate(cases):
        c["naga"] = res.get(i, {"crash": "noresult"})
    return cases


def run_wgsl_vs_ir(exe_w, exe_ir, cases, fuel=200000):
    """Returns (n_compared, outcomes) where outcomes is a list of dicts per (case, input)."""
    wj, ij, idx = [], [], []
    for ci, c in enumerate(cases):
        ir = c["naga"].get("ir")
        if ir is None:
            continue
        for k, inp in enumerate(c["inputs"]):
            wj.append({"ast": c["prog"], "globals": inp["globals"], "args": inp["args"], "fuel": fuel})
            ij.append({"ir": ir, "ep": 0, "globals": inp["globals"], "args": inp["args"], "fuel": fuel})
            idx.append((ci, k))
    wr = run_chunked(exe_w, wj)
    irr = run_chunked(exe_ir, ij)
    out = []
    for (ci, k), a, b in zip(idx, wr, irr):
        out.append({"case": ci, "input": k, "wgsl": a, "ir": b})
    return out


def run_chunked(exe, jobs, chunk=16, timeout=180):
    """Run a model tool on jobs in small batches in parallel; a batch that times out yields
    {"ok": False, "kind": "timeout"} for each of its jobs."""
    import subprocess
    from concurrent.futures import ThreadPoolExecutor
    parts = [jobs[i:i + chunk] for i in range(0, len(jobs), chunk)]

    def one(part):
        try:
            return vcheck.run_model(exe, part, timeout=timeout)
        except subprocess.TimeoutExpired:
            return [{"ok": False, "kind": "timeout"} for _ in part]
        except RuntimeError as e:
            return [{"ok": False, "kind": "toolerror", "msg": str(e)[:200]} for _ in part]
    out = []
    with ThreadPoolExecutor(max(1, vcheck.NCPU // 2)) as ex:
        for r in ex.map(one, parts):
            out += r
    return out


def classify(o):
    a, b = o["wgsl"], o["ir"]
    if not a.get("ok"):
        return "wgsl_" + a.get("kind", "?")
    if not b.get("ok"):
        return "ir_" + b.get("kind", "?")
    return "agree" if a["globals"] == b["globals"] else "DIFFER"
