"""Reader for the subset of Metal Shading Language that gogpu/naga emits (C04).

Trusted, simple and strict: a tokenizer and a recursive-descent parser that
produce a JSON AST (nested lists, see coq/Msl/Syntax.v / coq/Msl/Decode.v for
the shapes).  Every top-level item is parsed on its own; an item outside the
subset is recorded as {"unparsed": name, "why": ...} (the program is then
"out_of_fragment" if the entry point that is run depends on it) and is never
guessed at.

Types      ["s", "int"|"uint"|"float"|"bool"|"char"]   ["v", n, scalar, packed]   ["m", cols, rows]
           ["a", T, n]   ["n", name]   ["atomic", "int"|"uint"]
Exprs      ["int", z] ["uint", z] ["float", bits] ["bool", b] ["var", x] ["un", op, e] ["bin", op, l, r]
           ["cond", c, a, b] ["cast", T, e] ["astype", T, e] ["ctor", T, [args]] ["zero"] ["dc"]
           ["member", e, name] ["index", e, i] ["call", f, [args]] ["addr", e]
Stmts      ["decl", T, x, e|None] ["assign", op, lhs, rhs] ["if", c, [then], [else]] ["while", [body]]
           ["switch", e, [[[label|None...], [body]]...]] ["break"] ["continue"] ["return", e|None]
           ["block", [stmts]] ["expr", e] ["barrier"]
"""
import re
from fractions import Fraction


class OutOfFragment(Exception):
    pass


# ------------------------------------------------------------------ float literals

def f32_bits_of_fraction(q):
    """Round an exact rational to the nearest binary32 (ties to even); returns the bit pattern."""
    if q == 0:
        return 0
    sign = 0
    if q < 0:
        sign = 0x80000000
        q = -q
    # find e with 2^e <= q < 2^(e+1)
    e = q.numerator.bit_length() - q.denominator.bit_length()
    if Fraction(2) ** e > q:
        e -= 1
    if Fraction(2) ** (e + 1) <= q:
        e += 1
    if e < -126:
        e = -126
    # significand in units of 2^(e-23)
    scaled = q / (Fraction(2) ** (e - 23))
    n = scaled.numerator // scaled.denominator
    rem = scaled - n
    if rem > Fraction(1, 2) or (rem == Fraction(1, 2) and n % 2 == 1):
        n += 1
    if n >= (1 << 24):
        n >>= 1
        e += 1
    if e > 127:
        return sign | 0x7F800000
    if n < (1 << 23):          # subnormal (e == -126)
        return sign | n
    return sign | ((e + 127) << 23) | (n - (1 << 23))


def f32_bits_of_text(txt):
    return f32_bits_of_fraction(Fraction(txt))


# ------------------------------------------------------------------ tokens

TOKEN_RE = re.compile(r"""
    (?P<ws>\s+)
  | (?P<lc>//[^\n]*)
  | (?P<bc>/\*.*?\*/)
  | (?P<pp>\#[^\n]*)
  | (?P<num>(?:\d+\.\d*|\.\d+|\d+)(?:[eE][+-]?\d+)?[A-Za-z]*)
  | (?P<id>[A-Za-z_][A-Za-z_0-9]*(?:::[A-Za-z_][A-Za-z_0-9]*)*)
  | (?P<op>\[\[|\]\]|<<=|>>=|<<|>>|<=|>=|==|!=|&&|\|\||\+=|-=|\*=|/=|%=|&=|\|=|\^=|\+\+|--|->|[-+*/%&|^~!<>=?:;,.(){}\[\]])
""", re.X | re.S)


def tokenize(text):
    toks = []
    i = 0
    n = len(text)
    while i < n:
        m = TOKEN_RE.match(text, i)
        if not m:
            raise OutOfFragment("cannot tokenize at %r" % text[i:i + 20])
        i = m.end()
        k = m.lastgroup
        if k in ("ws", "lc", "bc"):
            continue
        toks.append((k, m.group(k)))
    return toks


SCALARS = {"int": "int", "uint": "uint", "unsigned": "uint", "float": "float", "bool": "bool", "char": "char",
           "metal::uint": "uint", "metal::int": "int"}
ATOMICS = {"metal::atomic_int": "int", "metal::atomic_uint": "uint"}
VEC_RE = re.compile(r"^(?:metal::)?(packed_)?(int|uint|float|bool)([234])$")
MAT_RE = re.compile(r"^(?:metal::)?float([234])x([234])$")
BUILTIN_ATTRS = {"thread_position_in_grid", "thread_position_in_threadgroup", "thread_index_in_threadgroup",
                 "threadgroup_position_in_grid", "threadgroups_per_grid", "threads_per_threadgroup"}
ASSIGN_OPS = {"=", "+=", "-=", "*=", "/=", "%=", "&=", "|=", "^=", "<<=", ">>="}

BINPREC = [["||"], ["&&"], ["|"], ["^"], ["&"], ["==", "!="], ["<", "<=", ">", ">="], ["<<", ">>"], ["+", "-"], ["*", "/", "%"]]


class Parser:
    def __init__(self, toks, typenames):
        self.t = toks
        self.i = 0
        self.typenames = typenames      # struct and typedef names seen so far

    # -- token helpers
    def peek(self, k=0):
        j = self.i + k
        return self.t[j] if j < len(self.t) else ("eof", "")

    def at(self, s, k=0):
        return self.peek(k)[1] == s and self.peek(k)[0] in ("op", "id")

    def eat(self, s):
        if not self.at(s):
            raise OutOfFragment("expected %r, got %r" % (s, self.peek()[1]))
        self.i += 1

    def accept(self, s):
        if self.at(s):
            self.i += 1
            return True
        return False

    def ident(self):
        k, v = self.peek()
        if k != "id":
            raise OutOfFragment("expected identifier, got %r" % v)
        self.i += 1
        return v

    def done(self):
        return self.i >= len(self.t)

    # -- types
    def is_type_start(self, k=0):
        kind, v = self.peek(k)
        if kind != "id":
            return False
        return v in SCALARS or v in ATOMICS or VEC_RE.match(v) is not None or MAT_RE.match(v) is not None or v in self.typenames

    def base_type(self):
        v = self.ident()
        if v in SCALARS:
            return ["s", SCALARS[v]]
        if v in ATOMICS:
            return ["atomic", ATOMICS[v]]
        m = VEC_RE.match(v)
        if m:
            return ["v", int(m.group(3)), m.group(2), bool(m.group(1))]
        m = MAT_RE.match(v)
        if m:
            return ["m", int(m.group(1)), int(m.group(2))]
        if v in self.typenames:
            return ["n", v]
        raise OutOfFragment("type %r" % v)

    # -- expressions
    def expr(self):
        c = self.binary(0)
        if self.accept("?"):
            a = self.expr()
            self.eat(":")
            b = self.expr()
            return ["cond", c, a, b]
        return c

    def binary(self, lvl):
        if lvl == len(BINPREC):
            return self.unary()
        l = self.binary(lvl + 1)
        while self.peek()[0] == "op" and self.peek()[1] in BINPREC[lvl]:
            op = self.peek()[1]
            self.i += 1
            r = self.binary(lvl + 1)
            l = ["bin", op, l, r]
        return l

    def unary(self):
        k, v = self.peek()
        if k == "op" and v in ("-", "!", "~"):
            self.i += 1
            return ["un", v, self.unary()]
        if k == "op" and v == "&":
            self.i += 1
            return ["addr", self.unary()]
        if k == "op" and v == "+":
            # naga's integer dot helper writes "( + a.x * b.x + ...)": unary plus
            self.i += 1
            return self.unary()
        return self.postfix()

    def args(self, close):
        out = []
        if self.accept(close):
            return out
        while True:
            if self.at("{") and self.at("}", 1):
                self.i += 2
                out.append(["zero"])
            else:
                out.append(self.expr())
            if self.accept(close):
                return out
            self.eat(",")

    def number(self, v):
        m = re.match(r"^(\d+)([uU]?)$", v)
        if m:
            z = int(m.group(1))
            if m.group(2):
                if z > 0xFFFFFFFF:
                    raise OutOfFragment("unsigned literal out of range")
                return ["uint", z]
            if z > 0x7FFFFFFF:
                raise OutOfFragment("int literal out of range (would be long)")
            return ["int", z]
        m = re.match(r"^((?:\d+\.\d*|\.\d+|\d+)(?:[eE][+-]?\d+)?)([fF]?)$", v)
        if m and ("." in v or "e" in v.lower()):
            return ["float", f32_bits_of_text(m.group(1))]
        raise OutOfFragment("literal %r (half/long/...)" % v)

    def primary(self):
        k, v = self.peek()
        if k == "num":
            self.i += 1
            return self.number(v)
        if k == "op" and v == "(":
            self.i += 1
            e = self.expr()
            self.eat(")")
            return e
        if k != "id":
            raise OutOfFragment("unexpected token %r in expression" % v)
        if v in ("true", "false"):
            self.i += 1
            return ["bool", v == "true"]
        if v == "INFINITY":
            self.i += 1
            return ["float", 0x7F800000]
        if v == "NAN":
            self.i += 1
            return ["float", 0x7FC00000]
        if v in ("static_cast", "as_type"):
            self.i += 1
            self.eat("<")
            ty = self.base_type()
            self.eat(">")
            self.eat("(")
            e = self.expr()
            self.eat(")")
            return ["cast" if v == "static_cast" else "astype", ty, e]
        if v == "DefaultConstructible":
            self.i += 1
            self.eat("(")
            self.eat(")")
            return ["dc"]
        if self.is_type_start():
            ty = self.base_type()
            if self.accept("("):
                a = self.args(")")
                if ty[0] == "s" and len(a) == 1:
                    return ["cast", ty, a[0]]
                return ["ctor", ty, a]
            if self.accept("{"):
                return ["ctor", ty, self.args("}")]
            raise OutOfFragment("type name %r in expression" % v)
        self.i += 1
        if self.at("("):
            self.i += 1
            return ["call", v, self.args(")")]
        return ["var", v]

    def postfix(self):
        e = self.primary()
        while True:
            if self.accept("."):
                e = ["member", e, self.ident()]
            elif self.at("[") :
                self.i += 1
                ix = self.expr()
                self.eat("]")
                e = ["index", e, ix]
            else:
                return e

    # -- statements
    def block(self):
        self.eat("{")
        out = []
        while not self.accept("}"):
            out.append(self.stmt())
        return out

    def stmt(self):
        k, v = self.peek()
        if k == "op" and v == "{":
            return ["block", self.block()]
        if k == "id":
            if v == "if":
                self.i += 1
                self.eat("(")
                c = self.expr()
                self.eat(")")
                th = self.block()
                el = []
                if self.accept("else"):
                    if self.at("if"):
                        el = [self.stmt()]
                    else:
                        el = self.block()
                return ["if", c, th, el]
            if v == "while":
                self.i += 1
                self.eat("(")
                self.eat("true")
                self.eat(")")
                return ["while", self.block()]
            if v == "for" and self.peek(1)[1] == "(" and self.peek(2)[1] == "int":
                # counted loop of naga's workgroup zero-initialisation: for (int x = A; x < N; x++) { body }
                # (body without `continue`) = { int x = A; while (true) { if (!(x < N)) break; { body } x += 1; } }
                self.i += 3
                x = self.ident()
                self.eat("=")
                a = self.expr()
                self.eat(";")
                c = self.expr()
                self.eat(";")
                if self.ident() != x:
                    raise OutOfFragment("for loop: update of another variable")
                self.eat("++")
                self.eat(")")
                start = self.i
                body = self.block()
                if any(t == ("id", "continue") for t in self.t[start:self.i]):
                    raise OutOfFragment("for loop with continue")
                if not (c[0] == "bin" and c[1] == "<" and c[2] == ["var", x]):
                    raise OutOfFragment("for loop: condition is not x < N")
                return ["block", [["decl", ["s", "int"], x, a],
                                  ["while", [["if", c, [], [["break"]]], ["block", body],
                                             ["assign", "+=", ["var", x], ["int", 1]]]]]]
            if v == "switch":
                self.i += 1
                self.eat("(")
                e = self.expr()
                self.eat(")")
                self.eat("{")
                cases = []
                while not self.accept("}"):
                    labels = []
                    while self.at("case") or self.at("default"):
                        if self.accept("default"):
                            labels.append(None)
                        else:
                            self.eat("case")
                            if self.at("-") and self.peek(1) == ("num", "2147483648"):
                                # `case -2147483648:` the literal is a long in C++, the label is converted to the
                                # int type of the condition (value fits): INT_MIN
                                self.i += 2
                                labels.append(["int", -2147483648])
                            else:
                                labels.append(self.expr())
                        self.eat(":")
                    if not labels:
                        raise OutOfFragment("statement without a case label inside switch")
                    cases.append([labels, self.block()])
                return ["switch", e, cases]
            if v == "break":
                self.i += 1
                self.eat(";")
                return ["break"]
            if v == "continue":
                self.i += 1
                self.eat(";")
                return ["continue"]
            if v == "return":
                self.i += 1
                if self.accept(";"):
                    return ["return", None]
                e = self.expr()
                self.eat(";")
                return ["return", e]
            if v == "metal::threadgroup_barrier" or v == "metal::simdgroup_barrier":
                self.i += 1
                self.eat("(")
                depth = 1
                while depth:
                    kk, vv = self.peek()
                    if kk == "eof":
                        raise OutOfFragment("unterminated barrier call")
                    self.i += 1
                    depth += (vv == "(") - (vv == ")")
                self.eat(";")
                return ["barrier"]
            # declaration?
            j = 0
            while self.peek(j)[1] in ("threadgroup", "const", "constant", "thread") and self.peek(j)[0] == "id":
                j += 1
            if self.is_type_start(j) and self.peek(j + 1)[0] == "id":
                self.i += j
                ty = self.base_type()
                name = self.ident()
                if self.accept("["):
                    kk, n = self.peek()
                    self.i += 1
                    self.eat("]")
                    ty = ["a", ty, int(n)]
                init = None
                if self.accept("="):
                    if self.at("{") and self.at("}", 1):
                        self.i += 2
                        init = ["zero"]
                    else:
                        init = self.expr()
                self.eat(";")
                return ["decl", ty, name, init]
        # expression statement / assignment
        lhs = self.expr()
        k, v = self.peek()
        if k == "op" and v in ASSIGN_OPS:
            self.i += 1
            if self.at("{") and self.at("}", 1):
                self.i += 2
                rhs = ["zero"]
            else:
                rhs = self.expr()
            self.eat(";")
            return ["assign", v, lhs, rhs]
        self.eat(";")
        if lhs[0] != "call":
            raise OutOfFragment("expression statement that is not a call")
        return ["expr", lhs]


# ------------------------------------------------------------------ top level

DEFAULT_CONSTRUCTIBLE = "struct DefaultConstructible { template < typename T > operator T ( ) && { return T { } ; } }"


def split_items(toks):
    """Top-level items: [tokens...] each ending at `;` (depth 0) or at the `}` closing a function body."""
    items = []
    cur = []
    depth = 0
    paren = 0
    for tk in toks:
        k, v = tk
        if k == "pp":
            if cur:
                raise OutOfFragment("preprocessor line inside an item")
            items.append([tk])
            continue
        cur.append(tk)
        if k == "op":
            if v == "{":
                depth += 1
            elif v == "}":
                depth -= 1
                if depth == 0 and paren == 0:
                    # function body ends here unless a `;` follows (struct) -- decided by the next token
                    pass
            elif v == "(":
                paren += 1
            elif v == ")":
                paren -= 1
            elif v == ";" and depth == 0 and paren == 0:
                items.append(cur)
                cur = []
                continue
        if k == "op" and v == "}" and depth == 0 and paren == 0:
            items.append(cur)      # provisional; merged with a following lone `;`
            cur = []
    if cur:
        raise OutOfFragment("trailing tokens at top level")
    out = []
    for it in items:
        if len(it) == 1 and it[0] == ("op", ";") and out:
            out[-1] = out[-1] + it
        else:
            out.append(it)
    return out


def item_name(it):
    """Best-effort name of an item for reporting (the identifier before the first `(` or `{` or `=`)."""
    prev = "?"
    for k, v in it:
        if k == "op" and v in ("(", "{", "=", ";", "["):
            return prev
        if k == "id":
            prev = v
    return prev


def parse_struct(it, typenames):
    p = Parser(it, typenames)
    p.eat("struct")
    name = p.ident()
    p.eat("{")
    members = []
    while not p.accept("}"):
        ty = p.base_type()
        mname = p.ident()
        if p.accept("["):
            k, n = p.peek()
            if k != "num" or not n.isdigit():
                raise OutOfFragment("array bound")
            p.i += 1
            p.eat("]")
            ty = ["a", ty, int(n)]
        if p.at("[["):
            raise OutOfFragment("attribute on struct member (stage IO struct)")
        p.eat(";")
        members.append([mname, ty])
    p.eat(";")
    if not p.done():
        raise OutOfFragment("tokens after struct")
    return {"name": name, "members": members}


def parse_param(p):
    space = None
    if p.peek()[1] in ("thread", "device", "constant", "threadgroup") and p.peek()[0] == "id":
        space = p.ident()
    ty = p.base_type()
    p.accept("const")
    mode = "val"
    if p.accept("&"):
        mode = "ref"
    elif p.at("*"):
        raise OutOfFragment("pointer parameter")
    name = p.ident()
    attr = None
    if p.accept("[["):
        a = p.ident()
        if a == "buffer":
            p.eat("(")
            k, n = p.peek()
            p.i += 1
            p.eat(")")
            attr = ["buffer", int(n)]
        elif a in BUILTIN_ATTRS:
            attr = ["builtin", a]
        elif a == "user":
            # FakeMissingBindings: [[user(fake0)]]; the caller numbers these parameters in order (slot 1000 + k)
            p.eat("(")
            p.ident()
            p.eat(")")
            attr = ["fake"]
        else:
            raise OutOfFragment("parameter attribute %s" % a)
        p.eat("]]")
    if mode == "val" and space is not None:
        raise OutOfFragment("address space on a by-value parameter")
    return {"name": name, "ty": ty, "mode": mode, "space": space or "", "attr": attr}


def parse_function(it, typenames):
    p = Parser(it, typenames)
    kernel = p.accept("kernel")
    if p.at("vertex") or p.at("fragment") or p.at("template"):
        raise OutOfFragment("non-compute entry point / template")
    if p.accept("void"):
        ret = None
    else:
        ret = p.base_type()
    name = p.ident()
    p.eat("(")
    params = []
    if not p.accept(")"):
        while True:
            params.append(parse_param(p))
            if p.accept(")"):
                break
            p.eat(",")
    body = p.block()
    if not p.done():
        raise OutOfFragment("tokens after function body")
    k = 0
    for q in params:
        if q["attr"] == ["fake"]:
            q["attr"] = ["buffer", 1000 + k]
            k += 1
    return {"name": name, "ret": ret, "params": params, "body": body, "kernel": bool(kernel)}


def parse(text):
    """Parse emitted MSL text.  Returns the program AST (dict).  Items outside the subset are listed
    under "unparsed"; raises OutOfFragment only when the text cannot even be split into items."""
    toks = tokenize(text)
    prog = {"structs": [], "typedefs": [], "consts": [], "funcs": [], "unparsed": [], "opaque": []}
    typenames = set()
    for it in split_items(toks):
        if it[0][0] == "pp":
            if not re.match(r"#include <(metal_stdlib|simd/simd\.h)>$", it[0][1].strip()):
                prog["unparsed"].append({"name": it[0][1], "why": "preprocessor"})
            continue
        txt = " ".join(v for _k, v in it)
        head = it[0][1]
        try:
            if head == "using":
                if txt not in ("using metal::uint ;",):
                    raise OutOfFragment("using declaration")
                continue
            if txt.rstrip(" ;") == DEFAULT_CONSTRUCTIBLE:
                continue
            if head == "struct":
                s = parse_struct(it, typenames)
                prog["structs"].append(s)
                typenames.add(s["name"])
                continue
            if head == "typedef":
                p = Parser(it, typenames)
                p.eat("typedef")
                ty = p.base_type()
                name = p.ident()
                if p.accept("["):
                    k, n = p.peek()
                    p.i += 1
                    p.eat("]")
                    ty = ["a", ty, int(n)]
                p.eat(";")
                prog["typedefs"].append({"name": name, "ty": ty})
                typenames.add(name)
                continue
            if head == "constant" or head == "constexpr":
                p = Parser(it, typenames)
                p.i += 1
                p.accept("constant")
                p.accept("const")
                ty = p.base_type()
                name = p.ident()
                p.eat("=")
                if p.at("{") and p.at("}", 1):
                    p.i += 2
                    init = ["zero"]
                else:
                    init = p.expr()
                p.eat(";")
                if not p.done():
                    raise OutOfFragment("tokens after constant")
                prog["consts"].append({"name": name, "ty": ty, "init": init})
                continue
            f = parse_function(it, typenames)
            prog["funcs"].append(f)
        except (OutOfFragment, ValueError, IndexError) as e:
            name = item_name(it)
            prog["unparsed"].append({"name": name, "why": str(e)[:200]})
            if head in ("struct", "typedef"):
                # keep the name known as a type so that later items still parse; uses of it are not modelled
                nm = None
                if head == "struct" and len(it) > 1:
                    nm = it[1][1]
                elif head == "typedef":
                    for k, v in reversed(it):
                        if k == "id":
                            nm = v
                            break
                if nm:
                    typenames.add(nm)
                    prog["opaque"].append(nm)
    return prog
