"""C06 correspondence machinery: constant-expression trees, their WGSL text in
each syntactic position the property lists, reading back what naga substituted
(from `nagadrive compile` IR dumps), and asking the extracted Coq models
(build/bin/fold_model: naga model + WGSL specification) about the same trees.

A tree is the JSON the model reads (coq/Fold/FoldJson.v):
  ["lit", kind, n] | ["un", op, e] | ["bin", op, a, b] | ["as", ty, e]
  | ["m1", f, a] | ["m2", f, a, b] | ["m3", f, a, b, c] | ["sel", fv, tv, c]
"""
import json

import nagarun
import vcheck

M32 = 1 << 32
H32 = 1 << 31
H64 = 1 << 63

# ----------------------------------------------------------------- trees

def lit(kind, n):
    return ["lit", kind, n]


def i32(v):
    """tree denoting the i32 value v (signed), written with literal tokens only"""
    if 0 <= v < H32:
        return lit("I32", v)
    if -H32 < v < 0:
        return ["un", "-", lit("I32", -v)]
    if v == -H32:
        return ["bin", "-", ["un", "-", lit("I32", H32 - 1)], lit("I32", 1)]
    raise ValueError(v)


def u32(v):
    assert 0 <= v < M32
    return lit("U32", v)


def ai(v):
    if v >= 0:
        return lit("AI", v)
    return ["un", "-", lit("AI", -v)]


def boolean(b):
    return lit("Bool", 1 if b else 0)


def typed(ty, v):
    return {"i32": i32, "u32": u32, "ai": ai, "bool": boolean}[ty](v)


def strip_named(e):
    """["named", ty, v] stands for a reference to `const n: ty = v;` - for the model it IS the typed value v"""
    if isinstance(e, list):
        if e and e[0] == "named":
            return strip_named(e[2])
        return [strip_named(x) for x in e]
    return e


def lift_named(e, prefix, decls):
    """replace every ["named", ty, v] by ["ident", name] and record (name, ty, text of v) in decls"""
    if isinstance(e, list):
        if e and e[0] == "named":
            name = "%s_%d" % (prefix, len(decls))
            decls.append((name, e[1], render(e[2])))
            return ["ident", name]
        return [lift_named(x, prefix, decls) for x in e]
    return e


def render(e):
    k = e[0]
    if k == "ident":
        return e[1]
    if k == "named":
        return render(e[2])
    if k == "lit":
        kind, n = e[1], e[2]
        if kind == "I32":
            return "%di" % n
        if kind == "U32":
            return "%du" % n
        if kind == "AI":
            return "%d" % n
        if kind == "Bool":
            return "true" if n else "false"
        if kind == "F32":
            return f32_text(n) + "f"
        if kind == "F16":
            return f32_text(n) + "h"
        if kind == "AF":
            return f64_text(n)
        raise ValueError(kind)
    if k == "un":
        return "(%s%s)" % (e[1], render(e[2]))
    if k == "bin":
        return "(%s %s %s)" % (render(e[2]), e[1], render(e[3]))
    if k == "as":
        return "%s(%s)" % (e[1], render(e[2]))
    if k in ("m1", "m2", "m3"):
        return "%s(%s)" % (e[1], ", ".join(render(x) for x in e[2:]))
    if k == "sel":
        return "select(%s, %s, %s)" % (render(e[1]), render(e[2]), render(e[3]))
    raise ValueError(k)


def f32_text(bits):
    import struct
    v = struct.unpack("<f", struct.pack("<I", bits))[0]
    return float_text(v)


def f64_text(bits):
    import struct
    v = struct.unpack("<d", struct.pack("<Q", bits))[0]
    return float_text(v)


def float_text(v):
    """exact decimal text of a finite double, always with a '.' or exponent so it lexes as a float"""
    from decimal import Decimal
    s = format(Decimal(v), "f")
    if "." not in s:
        s += ".0"
    return s


def top_is_unparenthesised(e):
    return e[0] in ("lit", "as", "m1", "m2", "m3", "sel")


def render_top(e):
    """text without the outermost parentheses (a parenthesised initialiser is the same AST)"""
    s = render(e)
    if s.startswith("(") and s.endswith(")") and e[0] in ("un", "bin"):
        return s[1:-1]
    return s


# ----------------------------------------------------------------- reading the IR dump

LIT_KINDS = {"LiteralI32": "I32", "LiteralU32": "U32", "LiteralAbstractInt": "AI", "LiteralBool": "Bool",
             "LiteralF32": "F32", "LiteralF16": "F16", "LiteralAbstractFloat": "AF",
             "LiteralI64": "I64", "LiteralU64": "U64", "LiteralF64": "F64"}


def norm_literal(v):
    """{"_t": "LiteralI32", "v": -3} -> ["lit", "I32", bit pattern]"""
    t = LIT_KINDS.get(v.get("_t"))
    x = v.get("v")
    if t is None:
        return ["other", v.get("_t")]
    if isinstance(x, dict):
        if "f32" in x:
            x = int(x["f32"])
        elif "f64" in x:
            x = int(x["f64"])
        elif "u64" in x:
            x = int(x["u64"])
    if t == "I32":
        x = x % M32
    elif t == "Bool":
        x = 1 if x else 0
    return ["lit", t, x]


def expr_obs(fn, h):
    """what expression handle h of function fn is: a literal, or the kind of the unfolded node"""
    k = fn["Expressions"][h]["Kind"]
    if k["_t"] == "Literal":
        return norm_literal(k["Value"])
    d = {"unfolded": k["_t"]}
    for key in ("Op", "Fun"):
        if key in k:
            d[key.lower()] = k[key]
    return d


def u64_of(x):
    if isinstance(x, dict) and "u64" in x:
        return int(x["u64"])
    return x


# ----------------------------------------------------------------- programs

WGSL_TY = {"i32": "i32", "u32": "u32", "bool": "bool", "f32": "f32", "f16": "f16"}


class Case:
    """one expression observed at one position.
       pos: store | let | fnconst | sub | modconst | modconstT | modabs | modnot | modas | switch | arraysize | wgsize | assert
       ty : type of the observation site (array element / declared type / selector type)"""
    __slots__ = ("pos", "ty", "e", "tag", "model", "spec", "rt", "obs", "src", "extra")

    def __init__(self, pos, ty, e, tag=""):
        self.pos, self.ty, self.e, self.tag = pos, ty, e, tag
        self.model = self.spec = self.rt = self.obs = self.src = None
        self.extra = {}

    def key(self):
        return json.dumps([self.pos, self.ty, self.e], separators=(",", ":"))


MODEL_FN = {
    "store": ("fold_store", "ty"), "fnconst": ("fold_store", "ty"), "sub": ("fold_store", "ty"),
    "let": ("fold_let", "default"),
    "modconst": ("mod_const_binary", None), "modconstT": ("mod_const_binary", "ty"),
    "modnot": ("mod_const_bitnot", None), "modnotT": ("mod_const_bitnot", "ty"),
    "modas": ("mod_const_as", None),
    "modabs": ("mod_abstract_store", "ty"),
    "switch": ("mod_switch_value", "ty"),
    "arraysize": ("mod_array_size", None),
    "wgsize": ("workgroup_dim", None),
    "assert": ("const_assert", None),
}


def model_request(c):
    fn, as_ = MODEL_FN[c.pos]
    rq = {"fn": fn, "e": strip_named(c.e), "ty": c.ty if c.pos not in ("modconst", "modnot") else None}
    if c.pos == "modas":
        rq["e"] = c.e[2]          # ["as", ty, arg]: the model takes the argument
        rq["ty"] = c.e[1]
    if c.pos == "modnot" or c.pos == "modnotT":
        rq["e"] = c.e[2]          # ["un", "~", arg]
    if as_:
        rq["as"] = as_
    return rq


def ask_model(exe, cases):
    reqs = [model_request(c) for c in cases]
    res = vcheck.run_model(exe, reqs)
    # positions whose request expression differs from the full expression: ask the spec separately
    extra = [(i, c) for i, c in enumerate(cases) if c.pos in ("modas", "modnot", "modnotT")]
    if extra:
        rs = vcheck.run_model(exe, [{"fn": "fold_expr", "e": c.e, "ty": c.ty, **({"as": "ty"} if c.pos == "modnotT" else {})} for _, c in extra])
        for (i, c), r in zip(extra, rs):
            res[i]["s"] = r.get("s")
            res[i]["rt"] = r.get("rt")
    for c, r in zip(cases, res):
        if "err" in r:
            raise RuntimeError("model rejected request %s: %s" % (model_request(c), r))
        c.model = r.get("r")
        c.spec = r.get("s")
        c.rt = r.get("rt")
        c.extra = {k: v for k, v in r.items() if k not in ("r", "s", "rt")}


FN_POS = ("store", "let", "fnconst", "sub")
MOD_POS = ("modconst", "modconstT", "modabs", "modnot", "modnotT", "modas")


def build_program(cases):
    """one WGSL module holding all the given cases (not wgsize/assert: see build_single).
       Returns the source."""
    tys = sorted({c.ty for c in cases if c.pos in FN_POS + MOD_POS})
    n = len(cases)
    head = (["enable f16;"] if "f16" in tys else []) + ["@group(0) @binding(0) var<storage, read_write> rt: array<u32, 8>;"]
    for t in tys:
        head.append("var<private> p_%s: array<%s, %d>;" % (t, WGSL_TY[t], n + 1))
    body = []
    for k, c in enumerate(cases):
        decls = []
        lifted = lift_named(c.e, "n%d" % k, decls)
        for name, nty, text in decls:
            head.append("const %s: %s = %s;" % (name, WGSL_TY[nty], text))
        x = render_top(lifted)
        t = c.ty
        if c.pos == "store":
            body.append("  p_%s[%d] = %s;" % (t, k, x))
        elif c.pos == "let":
            body.append("  let l%d = %s;" % (k, x))
        elif c.pos == "fnconst":
            body.append("  const c%d = %s;\n  p_%s[%d] = c%d;" % (k, x, t, k, k))
        elif c.pos == "sub":
            rt = {"i32": "i32(rt[%d])", "u32": "rt[%d]", "bool": "(rt[%d] == 7u)"}[t] % (k % 8)
            op = {"i32": "+", "u32": "+", "bool": "!="}[t]
            body.append("  p_%s[%d] = %s %s (%s);" % (t, k, rt, op, x))
        elif c.pos in ("modconst", "modabs", "modnot", "modas"):
            head.append("const m%d = %s;" % (k, x))
            if c.pos == "modabs":
                body.append("  p_%s[%d] = m%d;" % (t, k, k))
        elif c.pos in ("modconstT", "modnotT"):
            head.append("const m%d: %s = %s;" % (k, WGSL_TY[t], x))
        elif c.pos == "switch":
            sel = {"i32": "i32(rt[%d])", "u32": "rt[%d]"}[t] % (k % 8)
            body.append("  switch %s { case %s: { rt[0] = %du; } default: { } }" % (sel, x, k))
        elif c.pos == "arraysize":
            head.append("var<private> a%d: array<i32, %s>;" % (k, render(lifted)))
        else:
            raise ValueError(c.pos)
    src = "\n".join(head) + "\n@compute @workgroup_size(1)\nfn main() {\n" + "\n".join(body) + "\n}\n"
    return src


def read_program(cases, res):
    """fill c.obs for every case from one compile result"""
    if res is None or "ir" not in res:
        err = (res or {}).get("err") or (res or {}).get("panic") or (res or {}).get("crash") or "no result"
        for c in cases:
            c.obs = {"error": (res or {}).get("stage", "crash"), "msg": str(err)[:300]}
        return
    ir = res["ir"]
    fn = ir["EntryPoints"][0]["Function"]
    consts = {c["Name"]: c for c in ir["Constants"] if c.get("Name")}
    named = {name: h for h, name in fn["NamedExpressions"]}
    gvars = {g["Name"]: g for g in ir["GlobalVariables"]}
    stores = []
    switches = []

    def walk(block):
        for st in block:
            k = st["Kind"]
            t = k["_t"]
            if t == "StmtStore":
                stores.append(k)
            elif t == "StmtSwitch":
                switches.append(k)
            elif t == "StmtIf":
                walk(k["Accept"]); walk(k["Reject"])
            elif t == "StmtBlock":
                walk(k["Block"])
    walk(fn["Body"])
    # stores into p_<ty>[k]: pointer = AccessIndex(GlobalVariable p_ty, k)
    store_at = {}
    for s in stores:
        pk = fn["Expressions"][s["Pointer"]]["Kind"]
        if pk["_t"] == "ExprAccessIndex":
            bk = fn["Expressions"][pk["Base"]]["Kind"]
            if bk["_t"] == "ExprGlobalVariable":
                gname = ir["GlobalVariables"][bk["Variable"]]["Name"]
                store_at[(gname, pk["Index"])] = s["Value"]
    sw_by_marker = {}
    for sw in switches:
        for case in sw["Cases"]:
            v = case["Value"]
            if v and v.get("_t", "").startswith("SwitchValue") and v["_t"] != "SwitchValueDefault":
                # marker: the store `rt[0] = Ku` in the case body
                for st in case["Body"]:
                    if st["Kind"]["_t"] == "StmtStore":
                        mk = expr_obs(fn, st["Kind"]["Value"])
                        if mk[0] == "lit":
                            sw_by_marker[mk[2]] = v
    for k, c in enumerate(cases):
        if c.pos in ("store", "fnconst", "modabs"):
            h = store_at.get(("p_%s" % c.ty, k))
            c.obs = expr_obs(fn, h) if h is not None else {"error": "reader", "msg": "store not found"}
        elif c.pos == "sub":
            h = store_at.get(("p_%s" % c.ty, k))
            if h is None:
                c.obs = {"error": "reader", "msg": "store not found"}
            else:
                kk = fn["Expressions"][h]["Kind"]
                if kk["_t"] == "ExprBinary":
                    c.obs = expr_obs(fn, kk["Right"])
                else:
                    c.obs = {"unfolded": kk["_t"], "note": "outer expression is not a Binary"}
        elif c.pos == "let":
            h = named.get("l%d" % k)
            c.obs = expr_obs(fn, h) if h is not None else {"error": "reader", "msg": "let not found"}
        elif c.pos in ("modconst", "modconstT", "modnot", "modnotT", "modas"):
            mc = consts.get("m%d" % k)
            if mc is None:
                c.obs = {"error": "reader", "msg": "constant not in module (treated as abstract?)"}
                continue
            ge = ir["GlobalExpressions"][mc["Init"]]["Kind"]
            c.obs = norm_literal(ge["Value"]) if ge["_t"] == "Literal" else {"unfolded": ge["_t"]}
            v = mc.get("Value")
            if v and v.get("_t") == "ScalarValue":
                c.extra["obs_bits"] = u64_of(v["Bits"])
                c.extra["obs_kind"] = {0: "sint", 1: "uint", 2: "float", 3: "bool"}.get(v["Kind"], v["Kind"])
        elif c.pos == "switch":
            v = sw_by_marker.get(k)
            if v is None:
                c.obs = {"error": "reader", "msg": "case not found"}
            else:
                t = {"SwitchValueI32": "I32", "SwitchValueU32": "U32"}[v["_t"]]
                c.obs = ["lit", t, v["v"] % M32]
        elif c.pos == "arraysize":
            g = gvars.get("a%d" % k)
            ty = ir["Types"][g["Type"]]["Inner"]
            sz = ty.get("Size") or {}
            c.obs = sz.get("Constant") if sz.get("Constant") is not None else "runtime"


def build_single(c):
    x = render_top(c.e)
    if c.pos == "wgsize":
        return "@compute @workgroup_size(%s)\nfn main() { }\n" % x
    if c.pos == "assert":
        return "const_assert %s;\n@compute @workgroup_size(1)\nfn main() { }\n" % x
    raise ValueError(c.pos)


def read_single(c, res):
    if res is None or "ir" not in res:
        c.obs = {"error": (res or {}).get("stage", "crash"), "msg": str((res or {}).get("err"))[:300]}
        return
    if c.pos == "wgsize":
        c.obs = res["ir"]["EntryPoints"][0]["Workgroup"][0]
    else:
        c.obs = "accepted"


def model_predicts_module_error(c):
    return c.pos in MOD_POS + ("switch", "arraysize") and (c.model is None or c.model == "error")


def run_cases(tools, exe, cases, chunk=40):
    """Ask the models, compile, read back.  Cases the model predicts to abort lowering are
       compiled alone; a batch that unexpectedly fails is split until the culprit is alone."""
    ask_model(exe, cases)
    jobs = []
    groups = {}

    def add_group(cs):
        gid = len(groups)
        if cs[0].pos in ("wgsize", "assert"):
            src = build_single(cs[0])
        else:
            src = build_program(cs)
        for c in cs:
            c.src = src
        groups[gid] = cs
        jobs.append({"id": gid, "src": src, "want": ["ir"]})

    batchable = [c for c in cases if c.pos not in ("wgsize", "assert") and not model_predicts_module_error(c)]
    singles = [c for c in cases if c.pos in ("wgsize", "assert") or model_predicts_module_error(c)]
    # keep module-scope and function-scope cases apart so that a lowering error of a constant
    # does not hide function cases
    fnc = [c for c in batchable if c.pos in FN_POS]
    modc = [c for c in batchable if c.pos not in FN_POS]
    for part in (fnc, modc):
        for i in range(0, len(part), chunk):
            add_group(part[i:i + chunk])
    for c in singles:
        add_group([c])
    pending = list(jobs)
    while pending:
        res = nagarun.parallel_batches(tools["nagadrive"], "compile", pending, per_job_timeout=20.0, chunk=32)
        pending = []
        jobs_before = len(jobs)
        for gid in list(groups):
            cs = groups[gid]
            if cs is None or gid not in res:
                continue
            r = res.get(gid)
            if (r is None or "ir" not in r) and len(cs) > 1:
                groups[gid] = None
                half = len(cs) // 2
                add_group(cs[:half])
                add_group(cs[half:])
                continue
            if cs[0].pos in ("wgsize", "assert"):
                read_single(cs[0], r)
            else:
                read_program(cs, r)
            groups[gid] = None
        pending = jobs[jobs_before:]
    return cases


# ----------------------------------------------------------------- comparison

def obs_matches_model(c):
    """naga's observable == the model's prediction"""
    m, o = c.model, c.obs
    if c.pos == "wgsize":
        return o == m
    if c.pos == "arraysize":
        if m == "error":
            return isinstance(o, dict) and "error" in o
        return o == m
    if c.pos == "assert":
        if m is False:
            return isinstance(o, dict) and "error" in o
        return o == "accepted"
    if m is None:
        return isinstance(o, dict) and ("unfolded" in o or o.get("error") in ("lower", "parse"))
    if not (isinstance(o, list) and o[:1] == ["lit"]):
        return False
    if o != m:
        return False
    if "bits" in c.extra and "obs_bits" in c.extra:
        return c.extra["bits"] == c.extra["obs_bits"] and c.extra.get("kind") == c.extra.get("obs_kind")
    return True


def is_err(s):
    return isinstance(s, list) and s[:1] == ["err"]


EVALUATOR = {"store": "fn", "let": "fn", "fnconst": "fn", "sub": "fn",
             "modconst": "modconst", "modconstT": "modconst", "modabs": "modconst", "modnot": "modconst", "modnotT": "modconst", "modas": "modconst",
             "switch": "switch", "arraysize": "arraysize", "wgsize": "wgsize", "assert": "assert"}


def spec_class(c):
    """Compare the model's prediction (== naga's behaviour once the tie holds) with what WGSL
       specifies.  Returns None when they agree (or nothing is claimed), else a stable class key:
         <evaluator>:<WGSL error reason>:error-not-reported      a value is substituted where WGSL says shader-creation error
         <evaluator>:const-error:left-to-run-time                 no value substituted, no diagnostic either (function scope)
         <evaluator>:intermediate-not-wrapped:value               module evaluators: an intermediate result left the 32-bit range
         <evaluator>:not-evaluated:<what naga substitutes>        array size / workgroup_size
         <evaluator>:type:<WGSL type>-typed-as-<naga type>        module evaluators
         <evaluator>:<top operator>:<first literal kind>:value|type
       evaluator: fn (function-scope folder), modconst, switch, arraysize, wgsize, assert"""
    s, m = c.spec, c.model
    if s == "ill" or s is None:
        return None            # outside the modelled WGSL fragment: nothing is claimed
    ev = EVALUATOR[c.pos]
    opn = "%s:%s" % (c.tag or top_op(c.e), first_leaf_kind(c.e))
    exact = c.extra.get("exact", True)
    if c.pos in ("wgsize", "arraysize"):
        want = spec_positive_u32(s)
        if want == "ill":
            return None
        not_eval = (c.pos == "wgsize" and not c.extra.get("evaluated", True)) or (c.pos == "arraysize" and m == "runtime")
        if want in ("err", "nonpositive"):
            if c.pos == "arraysize" and m == "error":
                return None
            if want == "nonpositive" and not exact:
                return "%s:intermediate-not-wrapped:value" % ev      # the size is only non-positive after the 32-bit wrap naga skips
            return "%s:%s:error-not-reported" % (ev, s[1] if is_err(s) else "size-not-positive")
        if want == m:
            return None
        if not_eval:
            return "%s:not-evaluated:%s" % (ev, "dimension-silently-1" if c.pos == "wgsize" else "array-silently-runtime-sized")
        if not exact:
            return "%s:intermediate-not-wrapped:value" % ev
        return "%s:%s:value" % (ev, opn)
    if c.pos == "assert":
        if is_err(s):
            return None if m is False else "%s:%s:error-not-reported" % (ev, s[1])
        truth = bool(s[2])
        if m is None:
            return None        # not evaluated, accepted: a false assertion slipping through is C11's business
        if m == truth:
            return None
        return "%s:intermediate-not-wrapped:value" % ev if not exact else "%s:%s:value" % (ev, opn)
    if c.extra.get("float_fallback") and isinstance(m, list) and (is_err(s) or s[1] != "F32"):
        return "%s:integer-expression:re-evaluated-in-floating-point" % ev
    if is_err(s):
        if m is None:
            # no value substituted; at function scope the expression is left to run time without any diagnostic
            return "%s:const-error:left-to-run-time" % ev if c.pos in FN_POS else None
        return "%s:%s:error-not-reported" % (ev, s[1])
    # s is a literal
    if m is None:
        return None            # not folded (function scope) / rejected (module scope): no value was substituted
    if m == s:
        return None
    if m[1] != s[1]:
        if c.pos not in FN_POS:
            return "%s:type:%s-typed-as-%s" % (ev, s[1], m[1])
        return "%s:%s:type" % (ev, opn)
    if c.pos not in FN_POS and not exact:
        return "%s:intermediate-not-wrapped:value" % ev
    return "%s:%s:value" % (ev, opn)


def rt_relation(c):
    """for a folded value where WGSL says error: 'same' / 'differs' from the run-time value, or None"""
    if is_err(c.spec) and isinstance(c.rt, list) and c.rt[:1] == ["lit"] and isinstance(c.model, list):
        return "same" if c.model == c.rt else "differs"
    return None


def spec_positive_u32(s):
    """the value a size/dimension must have per WGSL: 'err' for a const-expression error,
       'nonpositive' when the value is <= 0 (WGSL: error), 'ill' when it is not an integer at all"""
    if is_err(s):
        return "err"
    if s[1] == "I32":
        v = s[2] if s[2] < H32 else s[2] - M32
    elif s[1] == "U32":
        v = s[2]
    elif s[1] == "AI":
        v = s[2]
        if v >= H32:
            return "ill"       # which concrete type such a size takes is not modelled
    else:
        return "ill"
    return v if v > 0 else "nonpositive"


def top_op(e):
    if e[0] in ("bin", "un"):
        return e[1]
    if e[0] in ("m1", "m2", "m3", "as"):
        return e[1]
    if e[0] == "sel":
        return "select"
    return "lit"


def first_leaf_kind(e):
    if e[0] == "lit":
        return e[1]
    for x in e[1:]:
        if isinstance(x, list):
            return first_leaf_kind(x)
    return "?"
