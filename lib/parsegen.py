"""Parser model (coq/Parse): regenerates coq/Gen/ParseTables.v — the case lists of the three switch
tables of wgsl/internal/parser/parser.go that the model transcribes (isTypeKeyword, isAssignOp, the
resynchronisation keywords of synchronize) — from /repo via goextract.  Registered in gen.py
GENERATORS as "parse".  The obligations over them are in coq/Parse/ParseInst.v."""


def gen_parse(G, tools):
    pf = "wgsl/internal/parser/parser.go"
    tkw, aop, sync = G.extract(tools, [
        {"kind": "switchmap", "file": pf, "name": "isTypeKeyword", "recv": "Parser"},
        {"kind": "switchmap", "file": pf, "name": "isAssignOp", "recv": "Parser"},
        {"kind": "switchmap", "file": pf, "name": "synchronize", "recv": "Parser"},
    ])
    for name, rows, res in (("isTypeKeyword", tkw, "true"), ("isAssignOp", aop, "true"), ("synchronize", sync, "")):
        if not rows or any(r[1] != res for r in rows):
            raise G.GenError("parser.go %s: unexpected switch shape %r" % (name, rows[:3]))
    out = ["From Coq Require Import List String.", "Import ListNotations.", "Open Scope string_scope.", ""]
    for cname, rows, what in (("go_type_keywords", tkw, "isTypeKeyword: kinds answering true"),
                              ("go_assign_ops", aop, "isAssignOp: kinds answering true"),
                              ("go_sync_keywords", sync, "synchronize: kinds at which error recovery stops")):
        out.append("(* parser.go %s *)" % what)
        out.append("Definition %s : list string := [\n  %s]." % (cname, ";\n  ".join(G.coq_string(r[0]) for r in rows)))
        out.append("")
    return [G.write("Gen/ParseTables.v", "\n".join(out))]
