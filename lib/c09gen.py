"""C09: random well-typed WGSL programs exercising what lowering has to get right
structurally: helper calls (value and pointer parameters, results used or dropped),
loops with continuing / break-if, for / while, switch with multi-selectors and
default anywhere, early returns, pointers, structs, arrays, matrices, swizzles,
abstract literals in every position, atomics, barriers, arrayLength, entry-point IO.

Types are tuples: ('s', 'i32'|'u32'|'f32'|'bool'), ('v', n, scalar), ('m', cols, rows),
('a', elem, n), ('st', name).  Programs a front end rejects are simply not counted."""

S_I32, S_U32, S_F32, S_BOOL = ('s', 'i32'), ('s', 'u32'), ('s', 'f32'), ('s', 'bool')
NUM_SCALARS = [S_I32, S_U32, S_F32]


def tname(t):
    k = t[0]
    if k == 's':
        return t[1]
    if k == 'v':
        return "vec%d<%s>" % (t[1], t[2])
    if k == 'm':
        return "mat%dx%d<f32>" % (t[1], t[2])
    if k == 'a':
        return "array<%s, %d>" % (tname(t[1]), t[2])
    if k == 'st':
        return t[1]
    raise ValueError(t)


STRUCTS = {
    "Pt": [("pos", ('v', 3, 'f32')), ("id", S_U32), ("w", S_F32)],
    "Box": [("lo", ('v', 2, 'i32')), ("hi", ('v', 2, 'i32')), ("m", ('m', 2, 2)), ("tags", ('a', S_I32, 3))],
}

PRELUDE = """struct Pt { pos: vec3<f32>, id: u32, w: f32 }
struct Box { lo: vec2<i32>, hi: vec2<i32>, m: mat2x2<f32>, tags: array<i32, 3> }
struct SB { cnt: atomic<i32>, total: atomic<u32>, data: array<u32> }
struct UB { scale: f32, offs: vec4<f32>, k: vec3<i32>, mm: mat3x3<f32> }
@group(0) @binding(0) var<storage, read_write> sb: SB;
@group(0) @binding(1) var<uniform> ub: UB;
@group(0) @binding(2) var<storage, read> ro: array<vec4<f32>, 8>;
var<private> gp: Pt;
var<private> gcount: i32 = 3;
var<workgroup> wa: atomic<u32>;
var<workgroup> wtile: array<f32, 16>;
const KI = 5;
const KF = 2.5;
const KU: u32 = 7u;
const KV = vec3(1.0, 2.0, 3.0);
const KA = array<i32, 4>(1, 2, 3, 4);
"""

GLOBAL_VALUES = [  # (expression text, type): readable anywhere
    ("gp.pos", ('v', 3, 'f32')), ("gp.id", S_U32), ("gp.w", S_F32), ("gcount", S_I32),
    ("ub.scale", S_F32), ("ub.offs", ('v', 4, 'f32')), ("ub.k", ('v', 3, 'i32')), ("ub.mm", ('m', 3, 3)),
    ("ro[1]", ('v', 4, 'f32')), ("f32(KI)", S_F32), ("KF", S_F32), ("KU", S_U32), ("KV", ('v', 3, 'f32')),
    ("KA[2]", S_I32), ("i32(KI)", S_I32), ("sb.data[0]", S_U32), ("wtile[3]", S_F32),
]
GLOBAL_VARS = [("gp.pos", ('v', 3, 'f32')), ("gp.id", S_U32), ("gp.w", S_F32), ("gcount", S_I32),
               ("sb.data[1]", S_U32), ("wtile[2]", S_F32), ("gp", ('st', 'Pt'))]

VALUE_TYPES = NUM_SCALARS + [S_BOOL, ('v', 2, 'f32'), ('v', 3, 'f32'), ('v', 4, 'f32'), ('v', 2, 'i32'), ('v', 3, 'i32'),
                             ('v', 4, 'u32'), ('v', 3, 'u32'), ('m', 2, 2), ('m', 3, 3), ('m', 2, 3), ('m', 4, 4),
                             ('a', S_I32, 3), ('a', S_F32, 4), ('a', ('v', 2, 'f32'), 2), ('st', 'Pt'), ('st', 'Box')]
SWZ = "xyzw"


class Fn:
    def __init__(self, name, params, ret):
        self.name, self.params, self.ret = name, params, ret   # params: (name, type, is_ptr)


class Gen:
    def __init__(self, rng, size=3, atomics=True):
        self.r = rng
        self.size = size
        self.fns = []
        self.nvar = 0
        self.atomics = atomics

    # ---------------- literals
    def lit(self, t):
        r = self.r
        s = t[1]
        if s == 'bool':
            return r.choice(["true", "false"])
        n = r.below(9) + 1
        if s == 'i32':
            return r.choice(["%d", "%di", "%d", "i32(%d)"]) % n
        if s == 'u32':
            return r.choice(["%du", "%d", "%du", "u32(%d)"]) % n
        return r.choice(["%d.0", "%d.5", "%d", "%d.25f", "%d.", "f32(%d)"]) % n

    def fresh(self, p="v"):
        self.nvar += 1
        return "%s%d" % (p, self.nvar)

    # ---------------- expressions
    def candidates(self, env, t):
        out = [(n if m_ != 'ptr' else "(*%s)" % n) for (n, ty, m_) in env if ty == t]
        out += [e for (e, ty) in GLOBAL_VALUES if ty == t]
        return out

    def expr(self, env, t, d):
        r = self.r
        k = t[0]
        if d <= 0 or r.chance(1, 5):
            c = self.candidates(env, t)
            if c and r.chance(3, 4):
                return r.choice(c)
            return self.leaf(env, t)
        if k == 's':
            return self.scalar_expr(env, t, d)
        if k == 'v':
            return self.vector_expr(env, t, d)
        if k == 'm':
            return self.matrix_expr(env, t, d)
        return self.leaf(env, t)

    def leaf(self, env, t):
        r = self.r
        k = t[0]
        c = self.candidates(env, t)
        if c and r.chance(1, 2):
            return r.choice(c)
        if k == 's':
            return self.lit(t)
        if k == 'v':
            n, s = t[1], t[2]
            st = ('s', s)
            m = r.below(4)
            if m == 0:
                return "vec%d<%s>(%s)" % (n, s, self.lit(st))
            if m == 1:
                return "vec%d(%s)" % (n, ", ".join(self.lit(st) for _ in range(n)))
            if m == 2 and n > 2:
                return "vec%d<%s>(vec2(%s, %s), %s)" % (n, s, self.lit(st), self.lit(st), ", ".join(self.lit(st) for _ in range(n - 2)))
            return "vec%d<%s>(%s)" % (n, s, ", ".join(self.lit(st) for _ in range(n)))
        if k == 'm':
            c_, r_ = t[1], t[2]
            if r.chance(1, 2):
                return "mat%dx%d<f32>(%s)" % (c_, r_, ", ".join(self.leaf(env, ('v', r_, 'f32')) for _ in range(c_)))
            return "mat%dx%d(%s)" % (c_, r_, ", ".join(self.lit(S_F32) for _ in range(c_ * r_)))
        if k == 'a':
            if r.chance(1, 3):
                return "%s()" % tname(t)
            return "%s(%s)" % (r.choice([tname(t), "array"]) if t[1][0] != 's' or True else tname(t),
                               ", ".join(self.leaf(env, t[1]) if t[1][0] != 's' else self.typed_lit(t[1]) for _ in range(t[2])))
        if k == 'st':
            if r.chance(1, 3):
                return "%s()" % t[1]
            return "%s(%s)" % (t[1], ", ".join(self.leaf(env, mt) for (_n, mt) in STRUCTS[t[1]]))
        raise ValueError(t)

    def typed_lit(self, t):
        s = t[1]
        n = self.r.below(9) + 1
        return {"i32": "%di", "u32": "%du", "f32": "%d.0f", "bool": "true"}[s] % n if s != "bool" else "true"

    def scalar_expr(self, env, t, d):
        r = self.r
        s = t[1]
        e = lambda ty: self.expr(env, ty, d - 1)
        if s == 'bool':
            m = r.below(7)
            if m == 0:
                nt = r.choice(NUM_SCALARS)
                return "(%s %s %s)" % (e(nt), r.choice(["<", "<=", ">", ">=", "==", "!="]), e(nt))
            if m == 1:
                return "(%s %s %s)" % (e(t), r.choice(["&&", "||", "&", "|", "!=", "=="]), e(t))
            if m == 2:
                return "!(%s)" % e(t)
            if m == 3:
                vt = ('v', r.choice([2, 3, 4]), r.choice(['f32', 'i32']))
                return "%s(%s %s %s)" % (r.choice(["all", "any"]), e(vt), r.choice(["<", "==", ">="]), e(vt))
            if m == 4:
                return "select(%s, %s, %s)" % (e(t), e(t), e(t))
            return self.access(env, t, d) or self.leaf(env, t)
        m = r.below(14)
        if m == 0:
            return "(%s %s %s)" % (e(t), r.choice(["+", "-", "*"]), e(t))
        if m == 1:
            if s == 'f32':
                return "(%s / (abs(%s) + 1.0))" % (e(t), e(t))
            return "(%s %s %s)" % (e(t), r.choice(["/", "%"]), self.lit(t) if r.chance(1, 2) else "(%s | %s)" % (e(t), "1u" if s == 'u32' else "1i"))
        if m == 2 and s != 'f32':
            return "(%s %s %s)" % (e(t), r.choice(["&", "|", "^"]), e(t))
        if m == 3 and s != 'f32':
            return "(%s %s %s)" % (e(t), r.choice(["<<", ">>"]), r.choice(["%du" % r.below(8), "(%s %% 32u)" % e(S_U32)]))
        if m == 4:
            return "(-%s)" % e(t) if s != 'u32' else "(~%s)" % e(t)
        if m == 5:
            return "%s(%s, %s)" % (r.choice(["min", "max"]), e(t), e(t))
        if m == 6:
            return "clamp(%s, %s, %s)" % (e(t), self.lit(t), e(t))
        if m == 7:
            return "select(%s, %s, %s)" % (e(t), e(t), e(S_BOOL))
        if m == 8:
            src = r.choice([x for x in NUM_SCALARS + [S_BOOL] if x != t])
            return "%s(%s)" % (s, e(src))
        if m == 9:
            if s == 'f32':
                c = r.below(6)
                vt = ('v', r.choice([2, 3, 4]), 'f32')
                if c == 0:
                    return "dot(%s, %s)" % (e(vt), e(vt))
                if c == 1:
                    return "length(%s)" % e(vt)
                if c == 2:
                    return "%s(%s)" % (r.choice(["floor", "ceil", "fract", "sin", "cos", "abs", "sqrt", "exp2", "trunc", "saturate"]), e(t))
                if c == 3:
                    return "mix(%s, %s, %s)" % (e(t), e(t), e(t))
                if c == 4:
                    return "determinant(%s)" % e(r.choice([('m', 2, 2), ('m', 3, 3), ('m', 4, 4)]))
                return "distance(%s, %s)" % (e(vt), e(vt))
            c = r.below(4)
            if c == 0:
                return "%s(%s)" % (r.choice(["abs", "countOneBits", "reverseBits", "firstLeadingBit", "countLeadingZeros"]), e(t))
            if c == 1:
                vt = ('v', r.choice([2, 3, 4]), s)
                return "dot(%s, %s)" % (e(vt), e(vt))
            if c == 2 and s == 'u32':
                return r.choice(["arrayLength(&sb.data)", "pack4x8unorm(%s)" % e(('v', 4, 'f32')), "pack2x16float(%s)" % e(('v', 2, 'f32'))])
            return "bitcast<%s>(%s)" % (s, e(r.choice([x for x in NUM_SCALARS if x != t])))
        if m == 10:
            f = self.pick_fn(t)
            if f:
                return self.call(env, f, d)
        a = self.access(env, t, d)
        return a or self.leaf(env, t)

    def access(self, env, t, d):
        """an expression of scalar/vector type t obtained by indexing / member access / swizzle"""
        r = self.r
        opts = []
        for (n, ty, m_) in env + [(x, y, False) for (x, y) in GLOBAL_VALUES]:
            if m_ == 'ptr':
                n = "(*%s)" % n
            if ty[0] == 'v' and t[0] == 's' and ty[2] == t[1]:
                opts.append("%s.%s" % (n, SWZ[r.below(ty[1])]))
                opts.append("%s[%d]" % (n, r.below(ty[1])))
                opts.append("%s[%s %% %du]" % (n, self.expr(env, S_U32, 0), ty[1]))
            if ty[0] == 'v' and t[0] == 'v' and ty[2] == t[2]:
                opts.append("%s.%s" % (n, "".join(SWZ[r.below(ty[1])] for _ in range(t[1]))))
            if ty[0] == 'a' and ty[1] == t:
                opts.append("%s[%d]" % (n, r.below(ty[2])))
                opts.append("%s[%s %% %du]" % (n, self.expr(env, S_U32, 0), ty[2]))
            if ty[0] == 'm' and t == ('v', ty[2], 'f32'):
                opts.append("%s[%d]" % (n, r.below(ty[1])))
            if ty[0] == 'm' and t == S_F32:
                opts.append("%s[%d][%d]" % (n, r.below(ty[1]), r.below(ty[2])))
                opts.append("%s[%d].%s" % (n, r.below(ty[1]), SWZ[r.below(ty[2])]))
            if ty[0] == 'st':
                for (mn, mt) in STRUCTS[ty[1]]:
                    if mt == t:
                        opts.append("%s.%s" % (n, mn))
                    if mt[0] == 'v' and t[0] == 's' and mt[2] == t[1]:
                        opts.append("%s.%s.%s" % (n, mn, SWZ[r.below(mt[1])]))
                    if mt[0] == 'a' and mt[1] == t:
                        opts.append("%s.%s[%d]" % (n, mn, r.below(mt[2])))
        return r.choice(opts) if opts else None

    def vector_expr(self, env, t, d):
        r = self.r
        n, s = t[1], t[2]
        st = ('s', s)
        e = lambda ty: self.expr(env, ty, d - 1)
        m = r.below(13)
        if s == 'bool':
            return "vec%d<bool>(%s)" % (n, ", ".join(e(S_BOOL) for _ in range(n)))
        if m == 0:
            return "(%s %s %s)" % (e(t), r.choice(["+", "-", "*"]), e(t))
        if m == 1:
            return "(%s %s %s)" % (e(t), r.choice(["+", "*", "-"]), e(st))
        if m == 2:
            return "(%s * %s)" % (e(st), e(t))
        if m == 3 and s == 'f32':
            c = r.choice([2, 3, 4])
            if r.chance(1, 2):
                return "(%s * %s)" % (e(('m', c, n)), e(('v', c, 'f32')))
            return "(%s * %s)" % (e(('v', c, 'f32')), e(('m', n, c)))
        if m == 4:
            return "vec%d<%s>(%s)" % (n, s, ", ".join(e(st) for _ in range(n)))
        if m == 5:
            return "vec%d(%s)" % (n, e(st))
        if m == 6 and n > 2:
            return "vec%d(%s, %s)" % (n, e(('v', n - 1, s)), e(st))
        if m == 7:
            return "%s(%s, %s)" % (r.choice(["min", "max"]), e(t), e(t))
        if m == 8:
            return "select(%s, %s, %s)" % (e(t), e(t), r.choice([e(S_BOOL), "(%s < %s)" % (e(t), e(t))]))
        if m == 9:
            if s == 'f32':
                c = r.below(5)
                if c == 0:
                    return "normalize(%s + vec%d(1.0))" % (e(t), n)
                if c == 1 and n == 3:
                    return "cross(%s, %s)" % (e(t), e(t))
                if c == 2:
                    return "mix(%s, %s, %s)" % (e(t), e(t), r.choice([e(S_F32), e(t)]))
                if c == 3:
                    return "%s(%s)" % (r.choice(["floor", "abs", "fract", "sin", "sign"]), e(t))
                if n == 4:
                    return "unpack4x8unorm(%s)" % e(S_U32)
                return "clamp(%s, vec%d(0.0), vec%d(1.0))" % (e(t), n, n)
            return "%s(%s)" % (r.choice(["abs", "countOneBits", "reverseBits"]), e(t))
        if m == 10:
            src = r.choice([x for x in ['i32', 'u32', 'f32'] if x != s])
            return "vec%d<%s>(%s)" % (n, s, e(('v', n, src)))
        if m == 11 and s != 'f32':
            return "(%s %s %s)" % (e(t), r.choice(["&", "|", "^"]), e(t))
        if m == 12:
            f = self.pick_fn(t)
            if f:
                return self.call(env, f, d)
        a = self.access(env, t, d)
        return a or self.leaf(env, t)

    def matrix_expr(self, env, t, d):
        r = self.r
        c_, r_ = t[1], t[2]
        e = lambda ty: self.expr(env, ty, d - 1)
        m = r.below(7)
        if m == 0:
            return "(%s %s %s)" % (e(t), r.choice(["+", "-"]), e(t))
        if m == 1:
            return r.choice(["(%s * %s)", "(%s * %s)"]) % ((e(t), e(S_F32)) if r.chance(1, 2) else (e(S_F32), e(t)))
        if m == 2:
            k = r.choice([2, 3, 4])
            if ('m', k, r_) in VALUE_TYPES and ('m', c_, k) in VALUE_TYPES:
                return "(%s * %s)" % (e(('m', k, r_)), e(('m', c_, k)))
        if m == 3 and ('m', r_, c_) in VALUE_TYPES:
            return "transpose(%s)" % e(('m', r_, c_))
        if m == 4:
            return "mat%dx%d<f32>(%s)" % (c_, r_, ", ".join(e(('v', r_, 'f32')) for _ in range(c_)))
        if m == 5:
            return "(%s * %s)" % (e(t), self.lit(S_F32))
        return self.leaf(env, t)

    def pick_fn(self, t):
        c = [f for f in self.fns if f.ret == t]
        return self.r.choice(c) if c else None

    def call(self, env, f, d):
        args = []
        for (_pn, pt, isptr) in f.params:
            if isptr:
                c = [n for (n, ty, m) in env if ty == pt and m == 'var']
                if not c:
                    return self.leaf(env, f.ret) if f.ret else None
                args.append("&" + self.r.choice(c))
            else:
                args.append(self.expr(env, pt, min(d - 1, 1)))
        return "%s(%s)" % (f.name, ", ".join(args))

    # ---------------- statements
    def lvalues(self, env):
        """(text, type) of assignable places"""
        out = []
        for (n, ty, m) in env:
            if m == 'var' or m == 'ptr':
                base = n if m == 'var' else "(*%s)" % n
                out.append((base, ty))
                if ty[0] == 'v':
                    out.append(("%s.%s" % (base, SWZ[self.r.below(ty[1])]), ('s', ty[2])))
                    out.append(("%s[%d]" % (base, self.r.below(ty[1])), ('s', ty[2])))
                if ty[0] == 'a':
                    out.append(("%s[%d]" % (base, self.r.below(ty[2])), ty[1]))
                    out.append(("%s[%s %% %du]" % (base, self.expr(env, S_U32, 0), ty[2]), ty[1]))
                if ty[0] == 'm':
                    out.append(("%s[%d]" % (base, self.r.below(ty[1])), ('v', ty[2], 'f32')))
                    out.append(("%s[%d][%d]" % (base, self.r.below(ty[1]), self.r.below(ty[2])), S_F32))
                if ty[0] == 'st':
                    for (mn, mt) in STRUCTS[ty[1]]:
                        out.append(("%s.%s" % (base, mn), mt))
                        if mt[0] == 'v':
                            out.append(("%s.%s.%s" % (base, mn, SWZ[self.r.below(mt[1])]), ('s', mt[2])))
        out += GLOBAL_VARS
        return out

    def block(self, env, ret, depth, in_loop, n, ind, in_cont=False):
        env = list(env)
        out = []
        for _ in range(n):
            out += self.stmt(env, ret, depth, in_loop, ind, in_cont)
        return out

    def stmt(self, env, ret, depth, in_loop, ind, in_cont=False):
        r = self.r
        pad = "    " * ind
        d = 2
        m = r.below(22 if depth > 0 else 12)
        if m <= 1:
            t = r.choice(VALUE_TYPES)
            n = self.fresh()
            kind = r.below(4)
            ex = self.expr(env, t, d)
            if kind == 0:
                env.append((n, t, 'let'))
                return [pad + "let %s = %s;" % (n, ex)]
            if kind == 1:
                env.append((n, t, 'let'))
                return [pad + "let %s: %s = %s;" % (n, tname(t), ex)]
            if kind == 2:
                env.append((n, t, 'var'))
                return [pad + "var %s: %s = %s;" % (n, tname(t), ex)]
            env.append((n, t, 'var'))
            return [pad + (("var %s = %s;" % (n, ex)) if r.chance(2, 3) else ("var %s: %s;" % (n, tname(t))))]
        if m <= 4:
            lv, t = r.choice(self.lvalues(env))
            return [pad + "%s = %s;" % (lv, self.expr(env, t, d))]
        if m == 5:
            c = [(lv, t) for (lv, t) in self.lvalues(env) if t in NUM_SCALARS or (t[0] == 'v' and t[2] != 'bool')]
            if c:
                lv, t = r.choice(c)
                if t in (S_I32, S_U32) and r.chance(1, 3):
                    return [pad + "%s%s;" % (lv, r.choice(["++", "--"]))]
                return [pad + "%s %s %s;" % (lv, r.choice(["+=", "-=", "*="]), self.expr(env, t, 1))]
        if m == 6:
            t = r.choice(VALUE_TYPES)
            return [pad + "_ = %s;" % self.expr(env, t, d)]
        if m == 7 and self.fns:
            f = r.choice(self.fns)
            c = self.call(env, f, 2)
            if c and c.startswith(f.name + "("):
                if f.ret and r.chance(1, 2):
                    n = self.fresh()
                    env.append((n, f.ret, 'let'))
                    return [pad + "let %s = %s;" % (n, c)]
                return [pad + c + ";"]
        if m == 8 and self.atomics:
            k = r.below(7)
            tgt, t = r.choice([("&sb.cnt", S_I32), ("&sb.total", S_U32), ("&wa", S_U32)])
            v = self.expr(env, t, 1)
            if k == 0:
                return [pad + "atomicStore(%s, %s);" % (tgt, v)]
            n = self.fresh()
            if k == 1:
                env.append((n, t, 'let'))
                return [pad + "let %s = atomicLoad(%s);" % (n, tgt)]
            if k == 2:
                return [pad + "%s(%s, %s);" % (r.choice(["atomicAdd", "atomicMax", "atomicAnd"]), tgt, v)]
            if k == 3:
                env.append((n, t, 'let'))
                return [pad + "let %s = atomicCompareExchangeWeak(%s, %s, %s).old_value;" % (n, tgt, self.lit(t), v)]
            env.append((n, t, 'let'))
            return [pad + "let %s = %s(%s, %s);" % (n, r.choice(["atomicAdd", "atomicSub", "atomicMin", "atomicOr", "atomicXor", "atomicExchange"]), tgt, v)]
        if m == 9 and in_loop and not in_cont:
            return [pad + "if %s { %s; }" % (self.expr(env, S_BOOL, 1), r.choice(["break", "continue"]))]
        if m == 10 and depth > 0 and not in_cont:
            # early return
            rv = "return %s;" % self.expr(env, ret, 1) if ret else "return;"
            return [pad + "if %s {" % self.expr(env, S_BOOL, 1), pad + "    " + rv, pad + "}"]
        if m == 11 and not in_cont:
            c = [n for (n, ty, mm) in env if mm == 'var' and ty in (S_I32, S_F32, ('v', 3, 'f32'))]
            if c:
                n = r.choice(c)
                p = self.fresh("p")
                ty = [ty for (x, ty, _) in env if x == n][0]
                env.append((p, ty, 'ptr'))
                return [pad + "let %s = &%s;" % (p, n)]
        if depth <= 0:
            lv, t = r.choice(self.lvalues(env))
            return [pad + "%s = %s;" % (lv, self.expr(env, t, 1))]
        nb = 1 + r.below(self.size)
        if m in (12, 13):
            out = [pad + "if %s {" % self.expr(env, S_BOOL, d)]
            out += self.block(env, ret, depth - 1, in_loop, nb, ind + 1, in_cont)
            if r.chance(1, 2):
                if r.chance(1, 3):
                    out += [pad + "} else if %s {" % self.expr(env, S_BOOL, 1)]
                    out += self.block(env, ret, depth - 1, in_loop, 1, ind + 1, in_cont)
                out += [pad + "} else {"]
                out += self.block(env, ret, depth - 1, in_loop, nb, ind + 1, in_cont)
            return out + [pad + "}"]
        if m in (14, 15) and not in_cont:
            t = r.choice([S_I32, S_U32])
            suf = "" if t == S_I32 else "u"
            out = [pad + "switch %s {" % self.expr(env, t, d)]
            vals = r.shuffle(list(range(0, 8)))
            ncase = 1 + r.below(3)
            defpos = r.below(ncase + 1)
            vi = 0
            for c in range(ncase + 1):
                if c == defpos:
                    if r.chance(1, 3):
                        out += [pad + "    case %d%s, default: {" % (vals[vi], suf)]
                        vi += 1
                    else:
                        out += [pad + "    default: {"]
                else:
                    k = 1 + r.below(2)
                    out += [pad + "    case %s: {" % ", ".join("%d%s" % (v, suf) for v in vals[vi:vi + k])]
                    vi += k
                out += self.block(env, ret, depth - 1, in_loop, r.below(3), ind + 2)
                if r.chance(1, 4):
                    out += [pad + "        break;"]
                out += [pad + "    }"]
            return out + [pad + "}"]
        if m == 16 and not in_cont:
            i = self.fresh("i")
            out = [pad + "for (var %s = 0%s; %s < %d; %s) {" % (i, r.choice(["", "i"]), i, 1 + r.below(4), r.choice(["%s++" % i, "%s += 1" % i]))]
            out += self.block(env + [(i, S_I32, 'let')], ret, depth - 1, True, nb, ind + 1)
            return out + [pad + "}"]
        if m == 17 and not in_cont:
            i = self.fresh("w")
            out = [pad + "var %s = %s;" % (i, self.lit(S_U32).replace("u32(", "u32(")) if False else pad + "var %s = %du;" % (i, 1 + r.below(3))]
            env.append((i, S_U32, 'var'))
            out += [pad + "while %s > 0u {" % i, pad + "    %s -= 1u;" % i]
            out += self.block(env, ret, depth - 1, True, nb, ind + 1)
            return out + [pad + "}"]
        if m in (18, 19) and not in_cont:
            i = self.fresh("k")
            env.append((i, S_I32, 'var'))
            out = [pad + "var %s = 0;" % i, pad + "loop {"]
            out += [pad + "    if %s >= %d { break; }" % (i, 1 + r.below(4))] if r.chance(2, 3) else []
            out += self.block(env, ret, depth - 1, True, nb, ind + 1)
            out += [pad + "    continuing {"]
            out += [pad + "        %s += 1;" % i]
            out += self.block(env, ret, 0, False, r.below(2), ind + 2, True)
            if r.chance(2, 3):
                out += [pad + "        break if %s;" % r.choice(["%s > 5" % i, "(%s > 5) || %s" % (i, self.expr(env, S_BOOL, 1))])]
            out += [pad + "    }", pad + "}"]
            return out
        if m == 20:
            out = [pad + "{"]
            out += self.block(env, ret, depth - 1, in_loop, nb, ind + 1, in_cont)
            return out + [pad + "}"]
        lv, t = r.choice(self.lvalues(env))
        return [pad + "%s = %s;" % (lv, self.expr(env, t, d))]

    # ---------------- functions
    def helper(self, idx):
        r = self.r
        ret = r.choice(VALUE_TYPES + [None, None, S_F32, S_I32])
        params = []
        for j in range(r.below(4)):
            isptr = r.chance(1, 4)
            pt = r.choice([S_I32, S_F32, ('v', 3, 'f32'), ('a', S_I32, 3), ('st', 'Pt'), ('m', 2, 2)] if isptr else VALUE_TYPES)
            params.append(("a%d" % j, pt, isptr))
        f = Fn("h%d" % idx, params, ret)
        env = [(n, t, 'ptr' if p else 'let') for (n, t, p) in params]
        body = self.block(env, ret, 2, False, 2 + r.below(self.size + 1), 1)
        # the final return sees only parameters (locals of nested blocks are out of scope)
        tail = ["    return %s;" % self.expr([e for e in env], ret, 2)] if ret else ([] if r.chance(1, 2) else ["    return;"])
        sig = ", ".join("%s: %s" % (n, ("ptr<function, %s>" % tname(t)) if p else tname(t)) for (n, t, p) in params)
        text = ["fn %s(%s)%s {" % (f.name, sig, (" -> " + tname(ret)) if ret else "")] + body + tail + ["}"]
        return f, text

    def program(self):
        r = self.r
        out = [PRELUDE]
        for i in range(1 + r.below(4)):
            f, text = self.helper(i)
            out += text + [""]
            self.fns.append(f)
        kind = r.below(4)
        if kind <= 1:
            env = [("gid", ('v', 3, 'u32'), 'let'), ("lidx", S_U32, 'let')]
            body = self.block(env, None, 2, False, 3 + r.below(self.size + 2), 1)
            bar = ["    %s();" % r.choice(["workgroupBarrier", "storageBarrier"])] if r.chance(1, 2) else []
            out += ["@compute @workgroup_size(%s)" % r.choice(["4", "2, 2", "1, 2, 1", "KI"]),
                    "fn main(@builtin(global_invocation_id) gid: vec3<u32>, @builtin(local_invocation_index) lidx: u32) {"] + bar + body + ["}"]
        elif kind == 2:
            self.atomics = False
            out += ["struct VOut { @builtin(position) pos: vec4<f32>, @location(0) color: vec3<f32>, @location(1) @interpolate(flat) tag: u32 }",
                    "@vertex", "fn main(@builtin(vertex_index) vi: u32, @location(0) inpos: vec3<f32>, @location(1) w: f32) -> VOut {"]
            env = [("vi", S_U32, 'let'), ("inpos", ('v', 3, 'f32'), 'let'), ("w", S_F32, 'let')]
            body = self.block(env, None, 1, False, 2 + r.below(self.size + 1), 1)
            body = [b for b in body if "return" not in b]
            out += ["    var o: VOut;"] + body
            out += ["    o.pos = vec4(%s, 1.0);" % self.expr(env, ('v', 3, 'f32'), 2), "    o.color = %s;" % self.expr(env, ('v', 3, 'f32'), 2),
                    "    o.tag = %s;" % self.expr(env, S_U32, 1), "    return o;", "}"]
        else:
            out += ["struct FIn { @builtin(position) fc: vec4<f32>, @location(0) color: vec3<f32>, @location(1) @interpolate(flat) tag: u32 }",
                    "@fragment", "fn main(fin: FIn, @builtin(front_facing) ff: bool) -> @location(0) vec4<f32> {"]
            env = [("fin", None, 'x'), ("ff", S_BOOL, 'let'), ("fin.color", ('v', 3, 'f32'), 'let'), ("fin.tag", S_U32, 'let'), ("fin.fc", ('v', 4, 'f32'), 'let')]
            env = env[1:]
            body = self.block(env, ('v', 4, 'f32'), 2, False, 2 + r.below(self.size + 1), 1)
            out += body + ["    return %s;" % self.expr(env, ('v', 4, 'f32'), 2), "}"]
        return "\n".join(out) + "\n"


def generate(rng, size=3):
    return Gen(rng, size).program()


# Hand-written templates hitting specific lowering paths.
TEMPLATES = [
    # helper call results in every position; pointer arguments; call before/after stores
    """fn inc(p: ptr<function, i32>) -> i32 { *p += 1; return *p; }
fn pair(a: i32, b: i32) -> vec2<i32> { return vec2(a, b); }
@group(0) @binding(0) var<storage, read_write> out: array<i32, 8>;
@compute @workgroup_size(1) fn main() {
    var x = 1; var y = 2;
    let a = inc(&x) + inc(&x) * y;
    y = inc(&y);
    out[0] = a; out[1] = pair(inc(&x), y).y; out[inc(&x) % 8] = pair(x, inc(&y)).x;
    if inc(&x) > 3 { out[2] = x; } else { out[3] = inc(&y); }
    for (var i = inc(&x); i < 10; i = inc(&i)) { out[4] += i; }
    switch inc(&x) { case 1, 2: { out[5] = 1; } default: { out[5] = inc(&y); } }
}
""",
    # loop shapes
    """@group(0) @binding(0) var<storage, read_write> out: array<u32, 8>;
fn f(n: u32) -> u32 {
    var acc = 0u; var i = 0u;
    loop {
        if i >= n { break; }
        if (i & 1u) == 0u { i++; continue; }
        acc += i;
        continuing { i += 1u; acc ^= i; break if acc > 100u; }
    }
    while acc > 7u { acc /= 2u; if acc == 9u { return acc; } }
    for (var j = 0u; j < n; j++) { loop { acc++; break; } if acc > 50u { break; } }
    return acc + i;
}
@compute @workgroup_size(2) fn main(@builtin(local_invocation_index) l: u32) { out[l] = f(l + 3u); }
""",
    # switch with fallthrough-free multi selectors, default in the middle, returns in every arm
    """fn g(x: i32) -> f32 {
    switch x {
        case 0: { return 1.0; }
        case 1, 2, default: { if x > 5 { return 2; } return 2.5; }
        case 3: { }
        case 4: { return f32(x); }
    }
    switch u32(x) { case 1u: { return 0.5; } default: { break; } }
    return 3.0;
}
fn h(x: i32) -> i32 { switch x { case 1: { return 1; } default: { return 2; } } }
@fragment fn main(@location(0) @interpolate(flat) v: i32) -> @location(0) vec4<f32> { return vec4(g(v), f32(h(v)), 0.0, 1.0); }
""",
    # pointers into structs, arrays, matrices; vector component stores; abstract literals
    """struct S { a: vec3<f32>, b: array<vec2<i32>, 3>, m: mat3x2<f32>, c: f32 }
var<private> gs: S;
fn upd(p: ptr<function, S>, q: ptr<private, S>, i: u32) -> f32 {
    (*p).a.y = 2; (*p).b[i].x += 1; (*p).m[1] = vec2(1, 2.5); (*p).m[i % 3u][1] = 7.0;
    let pa = &(*p).a; (*pa).z = (*q).c; let pc = &(*q).b[1]; (*pc) = vec2(3);
    p.c = q.a[i % 3u] + p.m[2].x * 2;
    return (*p).c + pa.x;
}
@compute @workgroup_size(1) fn main(@builtin(global_invocation_id) g: vec3<u32>) {
    var s = S(vec3(1), array(vec2(1), vec2(2, 3), vec2<i32>()), mat3x2<f32>(), 1);
    let r = upd(&s, &gs, g.x); gs = s; gs.c = r; gs.a *= 2; gs.m = transpose(mat2x3(1, 2, 3, 4, 5, 6)) * 0.5;
}
""",
    # atomics and barriers, workgroupUniformLoad, arrayLength
    """struct B { n: atomic<u32>, v: array<atomic<i32>> }
@group(0) @binding(0) var<storage, read_write> b: B;
var<workgroup> w: atomic<i32>; var<workgroup> flag: u32;
@compute @workgroup_size(4) fn main(@builtin(local_invocation_index) l: u32) {
    if l == 0u { atomicStore(&w, 0); flag = 3u; }
    workgroupBarrier();
    let f = workgroupUniformLoad(&flag);
    let o = atomicAdd(&w, i32(l)); let n = arrayLength(&b.v);
    let r = atomicCompareExchangeWeak(&b.n, f, n); if r.exchanged { atomicMax(&b.v[l % n], o); }
    storageBarrier();
    atomicStore(&b.v[0], atomicLoad(&w) + atomicExchange(&b.v[1], 5) + i32(atomicSub(&b.n, 1u)));
}
""",
    # matrices of every shape, f16-free numeric builtins with result types differing from arguments
    """@group(0) @binding(0) var<storage, read_write> o: array<f32, 16>;
@compute @workgroup_size(1) fn main() {
    let a = mat2x3<f32>(1, 2, 3, 4, 5, 6); let b = mat3x2<f32>(1, 0, 0, 1, 1, 1); let v2 = vec2(1.0, 2); let v3 = vec3(1, 2, 3.0);
    let ab = a * b; let ba = b * a; let t = transpose(a); let d = determinant(ab) + determinant(ba);
    let x = a * v2; let y = v3 * a; let z = t * v3; let s = a * 2.0; let s2 = 2 * b;
    let m4 = mat4x4<f32>(vec4(1), vec4(2), vec4(3), vec4(4)); let c = m4[2]; let e = m4[1][3];
    let l = length(x) + distance(y, z) + dot(x, vec3(1)) + e + c.w + d + s[1].z + s2[2].y;
    let q = vec3(1, 2, 3) < vec3(2); let w = select(x, vec3(0), q); let u = all(q) || any(!q);
    let md = modf(1.5); let fr = frexp(v2); let cl = countOneBits(7u) + firstTrailingBit(8u); let pk = unpack2x16float(pack2x16float(v2));
    o[0] = l + w.x + f32(u) + md.fract + fr.fract.x + f32(fr.exp.y) + f32(cl) + pk.y + ldexp(1.0, 2) + outerp(v2, v3)[1].x;
}
fn outerp(a: vec2<f32>, b: vec3<f32>) -> mat3x2<f32> { return mat3x2<f32>(a * b.x, a * b.y, a * b.z); }
""",
    # entry point IO through structs, locations and builtins in both directions
    """struct VIn { @location(0) p: vec3<f32>, @location(1) n: vec3<f32>, @builtin(vertex_index) vi: u32 }
struct VOut { @builtin(position) pos: vec4<f32>, @location(0) n: vec3<f32>, @location(1) @interpolate(flat) id: u32 }
struct FOut { @location(0) c: vec4<f32>, @builtin(frag_depth) d: f32, @builtin(sample_mask) m: u32 }
@vertex fn vs(i: VIn, @builtin(instance_index) ii: u32) -> VOut { var o: VOut; o.pos = vec4(i.p, 1); o.n = i.n * 2; o.id = i.vi + ii; return o; }
@fragment fn fs(i: VOut, @builtin(front_facing) ff: bool, @builtin(sample_index) si: u32) -> FOut {
    if !ff { discard; }
    return FOut(vec4(i.n, 1), i.pos.z, 1u << si);
}
@compute @workgroup_size(8, 2, 1) fn cs(@builtin(workgroup_id) w: vec3<u32>, @builtin(num_workgroups) n: vec3<u32>) { }
""",
]
