"""Word-level mutations of SPIR-V modules, each of which makes a valid module
INVALID in a known way (C02 sensitivity self-test: the extracted Coq validator must
report the expected rule on every applicable mutant).  Pure python, no naga code."""


def split(words):
    """-> (header words, [instruction word lists])"""
    hdr = list(words[:5])
    out = []
    k = 5
    while k < len(words):
        wc = words[k] >> 16
        if wc == 0 or k + wc > len(words):
            raise ValueError("bad word count at %d" % k)
        out.append(list(words[k:k + wc]))
        k += wc
    return hdr, out


def join(hdr, instrs):
    out = list(hdr)
    for i in instrs:
        i = list(i)
        i[0] = (len(i) << 16) | (i[0] & 0xFFFF)
        out += i
    return out


def op(i):
    return i[0] & 0xFFFF


def _first(instrs, pred, nth=0):
    n = 0
    for k, i in enumerate(instrs):
        if pred(i):
            if n == nth:
                return k
            n += 1
    return None


TERMINATORS = {249, 250, 251, 252, 253, 254, 255}


def m_drop_selection_merge(h, ins, r):
    ks = [k for k, i in enumerate(ins) if op(i) == 247]
    if not ks:
        return None
    k = r.choice(ks)
    return h, ins[:k] + ins[k + 1:]


def m_drop_loop_merge(h, ins, r):
    ks = [k for k, i in enumerate(ins) if op(i) == 246]
    if not ks:
        return None
    k = r.choice(ks)
    return h, ins[:k] + ins[k + 1:]


def m_duplicate_type(h, ins, r):
    ks = [k for k, i in enumerate(ins) if op(i) in (20, 21, 22, 23, 24, 33, 19)]
    if not ks:
        return None
    k = r.choice(ks)
    dup = list(ins[k])
    dup[1] = h[3]
    h2 = list(h)
    h2[3] += 1
    return h2, ins[:k + 1] + [dup] + ins[k + 1:]


def m_instr_after_terminator(h, ins, r):
    ks = [k for k, i in enumerate(ins) if op(i) in TERMINATORS and k > 0 and op(ins[k - 1]) not in (246, 247, 248)
          and op(ins[k - 1]) not in TERMINATORS]
    if not ks:
        return None
    k = r.choice(ks)
    out = list(ins)
    out[k - 1], out[k] = out[k], out[k - 1]
    return h, out


def m_swap_entry_and_mode(h, ins, r):
    e = _first(ins, lambda i: op(i) == 15)
    m = _first(ins, lambda i: op(i) == 16)
    if e is None or m is None:
        return None
    out = list(ins)
    mode = out.pop(m)
    out.insert(e, mode)
    return h, out


def _drop_decoration(deco, member=False):
    def f(h, ins, r):
        if member:
            ks = [k for k, i in enumerate(ins) if op(i) == 72 and len(i) > 3 and i[3] == deco]
        else:
            ks = [k for k, i in enumerate(ins) if op(i) == 71 and len(i) > 2 and i[2] == deco]
        if not ks:
            return None
        k = r.choice(ks)
        return h, ins[:k] + ins[k + 1:]
    return f


def m_drop_capability(h, ins, r):
    ks = [k for k, i in enumerate(ins) if op(i) == 17 and i[1] not in (1,)]
    if not ks:
        return None
    k = r.choice(ks)
    return h, ins[:k] + ins[k + 1:]


def m_drop_shader_capability(h, ins, r):
    ks = [k for k, i in enumerate(ins) if op(i) == 17 and i[1] == 1]
    if not ks:
        return None
    return h, ins[:ks[0]] + ins[ks[0] + 1:]


def m_drop_extension(h, ins, r):
    ks = [k for k, i in enumerate(ins) if op(i) == 10]
    if not ks:
        return None
    k = r.choice(ks)
    return h, ins[:k] + ins[k + 1:]


def m_bound_off_by_one(h, ins, r):
    h2 = list(h)
    h2[3] -= 1
    return h2, ins


def m_drop_interface_var(h, ins, r):
    ks = []
    for k, i in enumerate(ins):
        if op(i) == 15:
            # words: [op, model, fn, name..., iface...]
            j = 3
            while j < len(i) and all(((i[j] >> s) & 0xFF) != 0 for s in (0, 8, 16, 24)):
                j += 1
            j += 1
            if j < len(i):
                ks.append((k, j))
    if not ks:
        return None
    k, j = r.choice(ks)
    i = list(ins[k])
    del i[j + r.below(len(i) - j)]
    out = list(ins)
    out[k] = i
    return h, out


def m_use_before_def(h, ins, r):
    """swap two adjacent body instructions where the second uses the first's result"""
    cands = []
    infn = False
    for k in range(len(ins) - 1):
        a, b = ins[k], ins[k + 1]
        if op(a) == 54:
            infn = True
        if not infn:
            continue
        if op(a) in (61, 128, 129, 132, 133, 65, 80, 81, 124) and op(b) not in TERMINATORS and op(b) not in (246, 247, 248, 59, 56, 54):
            if len(a) > 2 and a[2] in b[1:]:
                cands.append(k)
    if not cands:
        return None
    k = r.choice(cands)
    out = list(ins)
    out[k], out[k + 1] = out[k + 1], out[k]
    return h, out


def m_redefine_id(h, ins, r):
    """give one body instruction the result id of the previous result-producing one"""
    cands = []
    last = None
    infn = False
    for k, i in enumerate(ins):
        if op(i) == 54:
            infn = True
        if infn and op(i) in (61, 128, 129, 132, 133, 65, 80, 81, 124, 79, 12) and len(i) > 2:
            if last is not None:
                cands.append((k, last))
            last = i[2]
    if not cands:
        return None
    k, rid = r.choice(cands)
    i = list(ins[k])
    i[2] = rid
    out = list(ins)
    out[k] = i
    return h, out


def m_drop_terminator(h, ins, r):
    ks = [k for k, i in enumerate(ins) if op(i) in (249, 253, 254) and k + 1 < len(ins) and op(ins[k + 1]) == 248]
    if not ks:
        return None
    k = r.choice(ks)
    return h, ins[:k] + ins[k + 1:]


def m_branch_into_other_function(h, ins, r):
    """retarget an OpBranch to a label of a different function"""
    fns = []
    cur = None
    for k, i in enumerate(ins):
        if op(i) == 54:
            cur = {"labels": [], "branches": []}
            fns.append(cur)
        elif cur is not None and op(i) == 248:
            cur["labels"].append(i[1])
        elif cur is not None and op(i) == 249:
            cur["branches"].append(k)
    cands = [(a, b) for a in range(len(fns)) for b in range(len(fns)) if a != b and fns[a]["branches"] and fns[b]["labels"]]
    if not cands:
        return None
    a, b = r.choice(cands)
    k = r.choice(fns[a]["branches"])
    out = list(ins)
    out[k] = [ins[k][0], r.choice(fns[b]["labels"])]
    return h, out


def m_type_as_operand(h, ins, r):
    """replace a value operand of an arithmetic instruction by its result type id"""
    ks = [k for k, i in enumerate(ins) if op(i) in (128, 129, 130, 131, 132, 133) and len(i) == 5]
    if not ks:
        return None
    k = r.choice(ks)
    i = list(ins[k])
    i[3] = i[1]
    out = list(ins)
    out[k] = i
    return h, out


def m_magic(h, ins, r):
    h2 = list(h)
    h2[0] ^= 0x100
    return h2, ins


def m_version_high_byte(h, ins, r):
    h2 = list(h)
    h2[1] |= 0x01000000
    return h2, ins


def m_memory_model_twice(h, ins, r):
    k = _first(ins, lambda i: op(i) == 14)
    if k is None:
        return None
    return h, ins[:k + 1] + [list(ins[k])] + ins[k + 1:]


def m_variable_in_second_block(h, ins, r):
    """move a Function-storage OpVariable behind the first branch into the next block"""
    for k, i in enumerate(ins):
        if op(i) == 59 and len(i) > 3 and i[3] == 7:
            j = k
            while j < len(ins) and op(ins[j]) != 248:
                if op(ins[j]) == 56:
                    break
                j += 1
            if j < len(ins) and op(ins[j]) == 248:
                out = list(ins)
                v = out.pop(k)
                out.insert(j, v)       # j shifted by one after pop: lands right after the label
                return h, out
    return None


def m_store_type_mismatch(h, ins, r):
    """OpStore with pointer and object swapped"""
    ks = [k for k, i in enumerate(ins) if op(i) == 62 and len(i) == 3]
    if not ks:
        return None
    k = r.choice(ks)
    i = list(ins[k])
    i[1], i[2] = i[2], i[1]
    out = list(ins)
    out[k] = i
    return h, out


# name -> (mutation, rules of which at least one must be reported)
MUTATIONS = {
    "drop_selection_merge": (m_drop_selection_merge, {"conditional_branch_without_merge", "switch_without_selection_merge",
                                                      "branch_out_of_construct", "header_does_not_dominate_merge_block"}),
    "drop_loop_merge": (m_drop_loop_merge, {"back_edge_to_non_loop_header", "conditional_branch_without_merge",
                                            "branch_out_of_construct"}),
    "duplicate_type": (m_duplicate_type, {"duplicate_type_declaration"}),
    "instr_after_terminator": (m_instr_after_terminator, {"instr_after_terminator", "block_unterminated", "blocks_malformed"}),
    "swap_entry_point_and_execution_mode": (m_swap_entry_and_mode, {"layout_order"}),
    "drop_array_stride": (_drop_decoration(6), {"array_without_array_stride"}),
    "drop_member_offset": (_drop_decoration(35, member=True), {"block_member_without_offset"}),
    "drop_matrix_stride": (_drop_decoration(7, member=True), {"matrix_member_without_matrix_stride"}),
    "drop_block": (_drop_decoration(2), {"buffer_struct_without_block_decoration"}),
    "drop_binding": (_drop_decoration(33), {"resource_variable_without_binding"}),
    "drop_descriptor_set": (_drop_decoration(34), {"resource_variable_without_descriptor_set"}),
    "drop_location": (_drop_decoration(30), {"interface_variable_without_location_or_builtin"}),
    "drop_builtin": (_drop_decoration(11), {"interface_variable_without_location_or_builtin"}),
    "drop_capability": (m_drop_capability, {"missing_capability"}),
    "drop_shader_capability": (m_drop_shader_capability, {"missing_capability"}),
    "drop_extension": (m_drop_extension, {"missing_extension"}),
    "bound_off_by_one": (m_bound_off_by_one, {"id_out_of_bound"}),
    "drop_interface_variable": (m_drop_interface_var, {"interface_missing_used_variable"}),
    "use_before_def": (m_use_before_def, {"use_before_definition_in_block"}),
    "redefine_id": (m_redefine_id, {"id_defined_twice"}),
    "drop_terminator": (m_drop_terminator, {"block_unterminated"}),
    "branch_into_other_function": (m_branch_into_other_function, {"branch_target_not_a_label_of_function"}),
    "type_as_operand": (m_type_as_operand, {"operand_not_a_value"}),
    "magic": (m_magic, {"header_magic"}),
    "version_high_byte": (m_version_high_byte, {"header_version"}),
    "memory_model_twice": (m_memory_model_twice, {"memory_model_count"}),
    "variable_in_second_block": (m_variable_in_second_block, {"variable_not_at_function_entry"}),
    "store_operands_swapped": (m_store_type_mismatch, {"type"}),
}


def apply(name, words, rng):
    """-> mutated word list or None when not applicable"""
    h, ins = split(words)
    res = MUTATIONS[name][0](h, ins, rng)
    if res is None:
        return None
    h2, ins2 = res
    out = join(h2, ins2)
    return out if out != list(words) else None
