"""C17: small readers of the binding annotations in emitted HLSL / MSL / GLSL text.
They return plain data (never message strings); comparison with the model is in
checks/c17.py.  A construct a reader does not recognise is returned under
"unparsed" so the check can say so instead of guessing."""
import re

# ------------------------------------------------------------------ HLSL

H_REG = re.compile(r"(\w+)(?:\[\d+\])?\s*:\s*register\((\w)(\d+)(?:,\s*space(\d+))?\)")
H_SAMPLER = re.compile(r"static const Sampler(?:Comparison)?State (\w+) = naga(?:Comparison)?SamplerHeap\[nagaGroup(\d+)SamplerIndexArray\[(\d+)\]\];")
H_STRUCT = re.compile(r"^struct (\w+) \{\n(.*?)^\};", re.M | re.S)
H_MEMBER = re.compile(r"^\s*(?:(?:precise|nointerpolation|noperspective|centroid|sample|linear)\s+)*[\w<>, ]+?\s+(\w+)(?:\[\d+\])?(?:\s*:\s*(\w+))?;", re.M)


def hlsl_registers(text):
    """name -> (class letter, register, space) for every `NAME : register(xN[, spaceM])`"""
    out = {}
    dup = []
    for m in H_REG.finditer(text):
        name = m.group(1)
        v = (m.group(2), int(m.group(3)), int(m.group(4) or 0))
        if name in out and out[name] != v:
            dup.append(name)
        out[name] = v
    return out, dup


def hlsl_samplers(text):
    """sampler name -> (group of the index buffer, index into it)"""
    return {m.group(1): (int(m.group(2)), int(m.group(3))) for m in H_SAMPLER.finditer(text)}


def hlsl_structs(text):
    """struct name -> list of (member name, semantic or None, modifiers)"""
    out = {}
    for m in H_STRUCT.finditer(text):
        members = []
        for line in m.group(2).splitlines():
            line = line.strip()
            if not line or not line.endswith(";"):
                continue
            mm = re.match(r"((?:(?:precise|nointerpolation|noperspective|centroid|sample|linear)\s+)*)(.+?)\s+(\w+)(?:\[\d+\])?(?:\s*:\s*(\w+))?;$", line)
            if mm:
                members.append((mm.group(3), mm.group(4), mm.group(1).split()))
        out[m.group(1)] = members
    return out


def split_params(s):
    out, depth, cur = [], 0, ""
    for ch in s:
        if ch in "<([":
            depth += 1
        elif ch in ">)]":
            depth -= 1
        if ch == "," and depth == 0:
            out.append(cur.strip())
            cur = ""
        else:
            cur += ch
    if cur.strip():
        out.append(cur.strip())
    return out


def hlsl_entry(text, name):
    """signature of function `name`: {"ret": type, "ret_sem": semantic|None, "params": [(type, name, semantic|None)]}"""
    m = re.search(r"^(?:precise )?([\w<>]+) %s\((.*?)\)(?:\s*:\s*(\w+))?\s*\n\{" % re.escape(name), text, re.M | re.S)
    if not m:
        return None
    params = []
    for p in split_params(m.group(2)):
        pm = re.match(r"(.+?)\s+(\w+)(?:\s*:\s*(\w+))?$", p)
        if pm:
            params.append((pm.group(1), pm.group(2), pm.group(3)))
    return {"ret": m.group(1), "ret_sem": m.group(3), "params": params}


def hlsl_io(text, name):
    """(input semantics, output semantics) of an entry point, with interpolation modifiers:
    lists of (semantic, sorted modifiers, parameter or member name)"""
    sig = hlsl_entry(text, name)
    if sig is None:
        return None
    structs = hlsl_structs(text)
    ins, outs = [], []
    for ty, pn, sem in sig["params"]:
        if sem is not None:
            ins.append((sem, [], pn))
        elif ty in structs:
            for mn, msem, mods in structs[ty]:
                if msem is not None:
                    ins.append((msem, sorted(mods), mn))
    if sig["ret_sem"] is not None:
        outs.append((sig["ret_sem"], [], ""))
    elif sig["ret"] in structs:
        for mn, msem, mods in structs[sig["ret"]]:
            if msem is not None:
                outs.append((msem, sorted(mods), mn))
    return ins, outs


# ------------------------------------------------------------------ MSL

M_ENTRY = re.compile(r"^(vertex|fragment|kernel) ([\w:<>, ]+?) (\w+)\(\n(.*?)^\) (?:\[\[[^\]]*\]\] )?\{", re.M | re.S)
M_ATTR = re.compile(r"\[\[([^\]]*)\]\]")


def msl_entries(text):
    """entry point name -> {"stage", "ret", "params": [(decl text, name, attribute text or None)]}"""
    out = {}
    for m in M_ENTRY.finditer(text):
        params = []
        for line in m.group(4).split("\n"):
            line = line.strip()
            if line.startswith(","):
                line = line[1:].strip()
            if not line:
                continue
            am = M_ATTR.search(line)
            attr = am.group(1) if am else None
            decl = line[:am.start()].strip() if am else line
            toks = decl.replace("&", " ").split()
            pname = toks[-1] if toks else ""
            params.append((decl, pname, attr))
        out[m.group(3)] = {"stage": m.group(1), "ret": m.group(2).strip(), "params": params, "start": m.start()}
    return out


def msl_struct(text, name):
    """members of `struct name { ... };` as (member name, attribute text or None); None if absent"""
    m = re.search(r"^struct %s \{\n(.*?)^\};" % re.escape(name), text, re.M | re.S)
    if not m:
        m2 = re.search(r"^struct %s \{\n\};" % re.escape(name), text, re.M)
        return [] if m2 else None
    out = []
    for line in m.group(1).splitlines():
        line = line.strip()
        if not line:
            continue
        am = M_ATTR.search(line)
        decl = line[:am.start()].strip() if am else line.rstrip(";")
        toks = decl.split()
        out.append((toks[-1] if toks else "", am.group(1) if am else None))
    return out


M_RES = re.compile(r"^(buffer|texture|sampler)\((\d+)\)$")


def msl_resource_slot(attr):
    """('buffer'|'texture'|'sampler', n) | 'fake' | None"""
    if attr is None:
        return None
    a = attr.strip()
    if a.startswith("user(fake"):
        return "fake"
    m = M_RES.match(a)
    if m:
        return (m.group(1), int(m.group(2)))
    return None


# ------------------------------------------------------------------ GLSL

G_KEY = re.compile(r"_group_(\d+)_binding_(\d+)_(vs|fs|cs)")
G_VARY = re.compile(r"^(?:layout\(([^)]*)\)\s*)?((?:(?:flat|smooth|noperspective|centroid|sample|invariant)\s+)*)(in|out)\s+(?:highp\s+|mediump\s+|lowp\s+)?(\w+)\s+(_(?:p2vs|vs2fs|fs2p)_location(\d+));", re.M)


def glsl_decls(text):
    """resource declarations: list of {"key": (g, b) | None, "name", "block": name|None, "storage": bool,
    "sampler": bool, "image": bool, "binding": n|None, "layout": text}"""
    out = []
    # one declaration = from an optional layout(...) up to the ';' that closes it (blocks may span lines)
    pat = re.compile(r"^(?:layout\(([^)]*)\)\s*)?((?:readonly |writeonly |coherent |restrict )*)(uniform|buffer)\s+([^;{]*?)(\{.*?\}\s*(\w*)\s*)?;", re.M | re.S)
    for m in pat.finditer(text):
        layout = m.group(1) or ""
        kind = m.group(3)
        head = m.group(4).strip()
        body = m.group(5)
        whole = m.group(0)
        km = G_KEY.search(whole)
        bm = re.search(r"\bbinding\s*=\s*(\d+)", layout)
        d = {"key": (int(km.group(1)), int(km.group(2))) if km else None, "suffix": km.group(3) if km else None,
             "storage": kind == "buffer", "binding": int(bm.group(1)) if bm else None, "layout": layout,
             "block": None, "sampler": False, "image": False, "name": None}
        if body is not None:
            d["block"] = head.split()[-1] if head else None
            d["name"] = km.group(0) if km else (m.group(6) or None)
        else:
            toks = head.split()
            d["name"] = toks[-1] if toks else None
            ty = toks[-2] if len(toks) >= 2 else ""
            d["sampler"] = "sampler" in ty
            d["image"] = "image" in ty
        out.append(d)
    return out


def glsl_varyings(text):
    """list of {"dir": in|out, "loc_name": n from the variable name, "location": n|None, "index": n|None, "quals": [...], "type"}"""
    out = []
    for m in G_VARY.finditer(text):
        layout = m.group(1) or ""
        lm = re.search(r"\blocation\s*=\s*(\d+)", layout)
        im = re.search(r"\bindex\s*=\s*(\d+)", layout)
        out.append({"dir": m.group(3), "name": m.group(5), "loc_name": int(m.group(6)),
                    "location": int(lm.group(1)) if lm else None, "index": int(im.group(1)) if im else None,
                    "quals": m.group(2).split(), "type": m.group(4)})
    return out
