"""C15, GLSL leg: hardened operators, zero initialisation and (unguarded) dynamic indexing through glslrun
(coq/Glsl/Sem.v via lib/glslcorr.py; undefined operations are "UB: ..." failures, `shared` variables start undefined)."""
import json
import time
from concurrent.futures import ThreadPoolExecutor

import c15progs
import glslcorr
import vcheck

HOSTILE_I = [0, 1, 0xFFFFFFFF, 0x80000000, 0x7FFFFFFF, 2, 0xFFFFFFFE, 31, 32, 33]
OPTS = {"version": 430}


def run_parallel(exe, inputs, workers):
    if not inputs:
        return []
    workers = max(1, min(workers, (len(inputs) + 31) // 32))
    parts = [inputs[i::workers] for i in range(workers)]
    out = [None] * len(inputs)

    def one(k):
        try:
            rs = vcheck.run_model(exe, parts[k], timeout=400)
        except Exception as e:
            rs = []
            for x in parts[k]:
                try:
                    rs.append(vcheck.run_model(exe, [x], timeout=60)[0])
                except Exception as e2:
                    rs.append({"ok": False, "kind": "crash", "msg": str(e2)[-200:]})
        for j, r in enumerate(rs):
            out[k + j * workers] = r
    with ThreadPoolExecutor(workers) as ex:
        list(ex.map(one, range(workers)))
    return out


def set_global(irin, glin, ir, info, name, value):
    for gi, g in enumerate(ir["GlobalVariables"]):
        if g["Name"] == name:
            irin["globals"][gi] = value
            blk = glslcorr.block_of_global(info.get("Uniforms") or [], g)
            if blk is not None and blk in glin["buffers"]:
                glin["buffers"][blk] = value


def arr(tag, vals):
    return {"arr": [{tag: v} for v in vals]}


def work(ctx_like, tools, exe_ir, exe_glsl, workers, quick, ops_src):
    T = {}
    t0 = time.time()
    en = glslcorr.enums(tools)
    progs = []          # (name, src, meta, tag, input setters)
    for n, s in [("divmod", ops_src)] + list(c15progs.OPS_EXT.items()):
        if n in ("f2i", "f2u"):
            F = c15progs.HOSTILE_F
            pairs = [(F[k], F[(k + 3) % len(F)]) for k in range(len(F))]
        else:
            pairs = [(x, y) for x in HOSTILE_I for y in HOSTILE_I]
        progs.append(("ops_" + n, s, {"operands": pairs}, "operators"))
    for n, s, m in c15progs.zero_init_programs(groups=c15progs.WG_GROUPS_TEXT) + c15progs.private_function_programs():
        progs.append((n, s, m, "zero-init"))
    # GLSL has no index bounds-check policy (glsl.Options.BoundsCheckPolicies covers image loads / stores only): a sample of the
    # index programs in their plain form shows what a hostile index does
    ix = [p for p in c15progs.index_programs() if p[0] in INDEX_SAMPLE]
    for n, macro, m in ix:
        progs.append((n, c15progs.expand(macro, "hostile"), m, "index"))
    res = glslcorr.compile_jobs(tools, [{"id": i, "src": p[1], "opts": OPTS} for i, p in enumerate(progs)], workers=4)
    T["compile"] = round(time.time() - t0, 1)
    t0 = time.time()
    cases = []
    ir_in, gl_in = [], []
    for i, (name, src, meta, tag) in enumerate(progs):
        r = res.get(i) or {}
        eps = [e for e in (r.get("eps") or []) if e.get("stage") == "compute"]
        if "ir" not in r or not eps or "text" not in eps[0]:
            cases.append({"name": name, "tag": tag, "src": src, "meta": meta,
                          "reject": str(r.get("err") or (eps and eps[0].get("err")) or r.get("panic") or "no compute entry point")[:300]})
            continue
        ep = eps[0]
        st, parsed = glslcorr.read_glsl(ep["text"])
        if st != "ok":
            cases.append({"name": name, "tag": tag, "src": src, "meta": meta, "text": ep["text"], "oof": "reader (%s): %s" % (st, parsed)})
            continue
        epi = (r.get("eps") or []).index(ep)
        variants = []
        if tag == "operators":
            for x, y in meta["operands"]:
                variants.append({"a": arr("i", [x, y]), "au": arr("u", [x, y]), "_desc": "operands %s" % [hex(x), hex(y)], "_ops": [x, y]})
        elif tag == "index":
            L = meta["len"][0] if isinstance(meta["len"], list) else 3
            # (no 2^31 / 2^32-1 here: coq/Glsl/Sem.v converts an index to a unary nat before comparing it with the length)
            for tup in [(0, 1, 0, 0), (L - 1, 0, 0, 0), (L, 0, 0, 0), (0, L, 0, 0), (L + 1, 0, 0, 0), (0, L + 2, 0, 0)]:
                variants.append({"ix": arr("i" if meta["signed"] else "u", list(tup)), "_desc": "indices %s" % list(tup), "_tup": tup, "_len": L})
        else:
            variants.append({"_desc": "site %s" % meta["site"]})
        for v in variants:
            try:
                irin, glin, compared = glslcorr.build_case(r["ir"], en, epi, parsed, ep["info"], vcheck.Rng(11).fork(name), "small", 3)
            except ValueError as e:
                cases.append({"name": name, "tag": tag, "src": src, "meta": meta, "oof": "inputs: %s" % e})
                break
            for k, val in v.items():
                if not k.startswith("_"):
                    set_global(irin, glin, r["ir"], ep["info"], k, val)
            irin["fuel"] = 30000
            glin["fuel"] = 60000
            ir_in.append(irin)
            gl_in.append(glin)
            cases.append({"name": name, "tag": tag, "src": src, "meta": meta, "text": ep["text"], "v": v, "compared": compared,
                          "slot": len(ir_in) - 1})
    T["queue"] = round(time.time() - t0, 1)
    t0 = time.time()
    with ThreadPoolExecutor(2) as ex:
        fa = ex.submit(run_parallel, exe_ir, ir_in, workers)
        fb = ex.submit(run_parallel, exe_glsl, gl_in, workers)
        ir_res, gl_res = fa.result(), fb.result()
    T["interpreters"] = round(time.time() - t0, 1)
    T["runs"] = len(gl_in)
    return {"cases": cases, "ir": ir_res, "gl": gl_res, "T": T}


# index programs run in plain form (no policy exists): one per kind of object
INDEX_SAMPLE = ("ix_rt_global_u32", "ix_rt_member_vec3f", "ix_storage_fixed_u32", "ix_uniform_member_vec4u", "ix_function_array_u32",
                "ix_private_array_u32", "ix_workgroup_array_u32", "ix_function_vec3_u32", "ix_function_mat2x2", "ix_value_array_const")


def judge(ctx, W):
    st = {}
    reported = set()
    for c in W["cases"]:
        s = st.setdefault(c["tag"], {"runs": 0, "agree": 0, "ub": 0, "wrong_value": 0, "out_of_fragment": 0, "reference_undefined": 0,
                                     "rejected": 0, "value_left_open_by_wgsl": 0, "oof_reasons": {}})
        if "reject" in c:
            s["rejected"] += 1
            s["oof_reasons"]["glsl.Compile: " + c["reject"][:60]] = s["oof_reasons"].get("glsl.Compile: " + c["reject"][:60], 0) + 1
            continue
        if "oof" in c:
            s["out_of_fragment"] += 1
            s["oof_reasons"][c["oof"][:70]] = s["oof_reasons"].get(c["oof"][:70], 0) + 1
            continue
        a, b = W["ir"][c["slot"]], W["gl"][c["slot"]]
        s["runs"] += 1
        meta = c["meta"]
        in_range = c["tag"] == "index" and all(t < c["v"]["_len"] for t in c["v"]["_tup"][:2])
        if not a.get("ok"):
            if c["tag"] != "index" or in_range:
                s["reference_undefined"] += 1
                continue
        files = {"input.wgsl": c["src"], "emitted.glsl": c["text"], "input.json": json.dumps({k: v for k, v in c["v"].items()})}
        nan_conv = c["tag"] == "operators" and c["name"] in ("ops_f2i", "ops_f2u") and \
            any((x & 0x7F800000) == 0x7F800000 and (x & 0x007FFFFF) for x in c["v"]["_ops"])
        if not b.get("ok"):
            msg = str(b.get("msg"))
            cls = glslcorr.classify_fail(msg) if b.get("kind") == "fail" else b.get("kind")
            if cls != "ub":
                s["out_of_fragment"] += 1
                s["oof_reasons"][("%s: %s" % (cls, msg))[:70]] = s["oof_reasons"].get(("%s: %s" % (cls, msg))[:70], 0) + 1
                continue
            if nan_conv:
                s["value_left_open_by_wgsl"] += 1      # (GLSL: undefined value; WGSL: indeterminate value)
                continue
            s["ub"] += 1
            if c["tag"] == "operators":
                key = "glsl:ops:%s:%s" % (c["name"][4:], slug(msg))
            elif c["tag"] == "index":
                key = "glsl:index:no-policy:%s" % ("oob" if "bounds" in msg or "index" in msg else slug(msg))
            else:
                key = "glsl:zero-init:%s:%s:ub" % (meta["space"], meta["site"])
            if key not in reported:
                reported.add(key)
                ctx.violation("GLSL (version 430), program %s: the emitted GLSL runs into \"%s\"; %s" % (c["name"], msg, c["v"]["_desc"]),
                              files=files, key=key)
            continue
        if c["tag"] == "index" and not in_range:
            s["agree"] += 1          # a hostile index that happened to be harmless in this program (e.g. a policy-free clamp)
            continue
        if nan_conv:
            s["value_left_open_by_wgsl"] += 1
            s["agree"] += 1
            continue
        d = None
        for gi, blk in c["compared"]:
            x, y = a["globals"][gi], b["buffers"].get(blk)
            if x != y:
                d = "buffer %s: WGSL value vs emitted GLSL: %s" % (blk, first_diff(x, y))
                break
        if d:
            s["wrong_value"] += 1
            if c["tag"] == "operators":
                key = "glsl:ops:%s:value:%s" % (c["name"][4:], d.split("GLSL: ")[-1].split(":")[0])
            elif c["tag"] == "index":
                key = "glsl:index:%s:value" % c["name"]
            else:
                key = "glsl:zero-init:%s:%s:value" % (meta["space"], meta["site"])
            if key not in reported:
                reported.add(key)
                ctx.violation("GLSL (version 430), program %s: result differs from the WGSL value; %s\n%s" % (c["name"], c["v"]["_desc"], d),
                              files=files, key=key)
        else:
            s["agree"] += 1
    st["seconds"] = W["T"]
    st["policies"] = ("glsl.Options.BoundsCheckPolicies has ImageLoad / ImageStore only (images are outside the interpreter's fragment); "
                      "there is no index policy: a sample of the index programs is run in plain form")
    return st, sum(v["runs"] for v in st.values() if isinstance(v, dict) and "runs" in v)


def slug(msg):
    import re
    m = msg[4:] if msg.startswith("UB: ") else msg
    return re.sub(r"[^a-z0-9]+", "-", m.lower()).strip("-")[:56]


def first_diff(a, b, path=""):
    if isinstance(a, dict) and isinstance(b, dict) and list(a.keys()) == list(b.keys()) and len(a) == 1:
        k = next(iter(a))
        x, y = a[k], b[k]
        if isinstance(x, list) and isinstance(y, list) and len(x) == len(y):
            for i, (p, q) in enumerate(zip(x, y)):
                if p != q:
                    return first_diff(p, q, "%s.%s[%d]" % (path, k, i))
    return "%s: %s vs %s" % (path, json.dumps(a), json.dumps(b))
