"""C14: the systematic FORM family.

The override paths rebuild every function's expression arena (ir.ProcessOverrides:
rebuildFunctionExpressions / overrideRemapExprHandles / remapBlockHandles; the MSL
PipelineConstants pass: processFunctionOverrides / adjustExprHandles / adjustBlockHandles)
with ONE case per IR expression kind and per operand field, and one per statement kind.
This module enumerates (expression or statement form, operand position) -> tiny WGSL
program.  In every program

  * an override is referenced BEFORE the form - once through a constant-foldable
    expression (`ova + 1.5`: the MSL pass inserts literal copies, so later handles shift) and
    once plainly (ProcessOverrides appends a shadow literal after every resolved override,
    so later handles shift) - and again AFTER it;
  * every operand of the form is a distinct named value created after those references
    (`p0 p1 ...` f32, `q*` i32, `r*` u32, `b*` bool, `v*` vec4<f32>, ...), the operator is
    not commutative or the operands differ in type, so that an operand that is dropped,
    duplicated, swapped or left un-remapped changes the emitted code;
  * variants put an override itself at each scalar operand position.

The reference is the SUBSTITUTED program: each `override` declaration replaced by a `const`
of the value it must take (supplied value converted to the type, else the default).  The
check (checks/c14.py form_compare) compiles both through every path and compares."""
import re

import ovrgen as G

BUF_MEMBERS = [("f", "array<f32, 16>"), ("i", "array<i32, 16>"), ("u", "array<u32, 16>"), ("v", "array<vec4<f32>, 4>"),
               ("w", "array<vec3<f32>, 4>"), ("c", "array<vec2<f32>, 4>"), ("ci", "array<vec2<i32>, 4>"), ("vi", "array<vec4<i32>, 4>"),
               ("vu", "array<vec4<u32>, 4>"), ("m", "array<mat2x2<f32>, 2>")]


def buf_decl(text):
    """the storage buffer `io` with the members the program text uses"""
    used = set(re.findall(r"\bio\.(\w+)", text)) | {"f"}
    return ("struct Buf {\n" + "".join("  %s: %s,\n" % (n, t) for n, t in BUF_MEMBERS if n in used) +
            "}\n@group(0) @binding(0) var<storage, read_write> io: Buf;\n")


# operand pools: name -> (class, WGSL initialiser)
POOL = {}
for _k in range(4):
    POOL["p%d" % _k] = ("F", "io.f[%d]" % (2 + _k))
    POOL["q%d" % _k] = ("I", "io.i[%d]" % (2 + _k))
    POOL["r%d" % _k] = ("U", "io.u[%d]" % (2 + _k))
for _k in range(3):
    POOL["v%d" % _k] = ("V4", "io.v[%d]" % _k)
    POOL["w%d" % _k] = ("V3", "io.w[%d]" % _k)
    POOL["c%d" % _k] = ("V2", "io.c[%d]" % _k)
    POOL["ci%d" % _k] = ("VI2", "io.ci[%d]" % _k)
    POOL["vi%d" % _k] = ("VI4", "io.vi[%d]" % _k)
    POOL["vu%d" % _k] = ("VU4", "io.vu[%d]" % _k)
POOL["b0"] = ("B", "io.i[6] > 1")
POOL["b1"] = ("B", "io.i[7] > 2")
POOL["m0"] = ("M2", "io.m[0]")
POOL["m1"] = ("M2", "io.m[1]")
TOKEN = re.compile(r"\b(?:p|q|r|b|v|w|c|ci|vi|vu|m)\d\b")


def pool_name(tok):
    """emitted identifier of a pool token: no trailing digit (the MSL / GLSL namers append `_` to those)"""
    return tok[:-1] + "abcd"[int(tok[-1])]


def tr(text):
    return TOKEN.sub(lambda m: pool_name(m.group(0)), text)

# overrides: name -> (type, @id, default text, default value, supplied value)
OVR = {"ova": (G.F32, 3, "1.5", 1.5, 8.0), "ovb": (G.I32, None, "2", 2.0, 5.0),
       "ovc": (G.U32, None, "3u", 3.0, 6.0), "ovd": (G.BOOL, None, "true", 1.0, 0.0)}
OVR_OF_CLASS = {"F": "ova", "I": "ovb", "U": "ovc", "B": "ovd"}
OVR_TOKEN = re.compile(r"\bov[abcd]\b")

SINK = {"F": "io.f[8] = %s;", "I": "io.i[8] = %s;", "U": "io.u[8] = %s;", "B": "io.i[8] = select(3, 4, %s);",
        "V4": "io.v[3] = %s;", "V3": "io.w[3] = %s;", "V2": "io.c[3] = %s;", "VI4": "io.vi[3] = %s;", "VI2": "io.ci[3] = %s;",
        "VU4": "io.vu[3] = %s;", "VU2": "io.vu[3] = vec4<u32>(%s, 1u, 2u);", "M2": "io.m[1] = %s;",
        "VB4": "io.vi[3] = select(io.vi[1], io.vi[2], %s);", "VI3": "io.vi[3] = vec4<i32>(%s, 7);",
        "VU3": "io.vu[3] = vec4<u32>(%s, 7u);"}

# ---------------------------------------------------------------- expression forms
# (name, result class, expression, extra globals, stage)
E = []


def ex(name, rty, expr, globs="", stage="compute", pre=""):
    E.append({"name": name, "rty": rty, "expr": expr, "globals": globs, "stage": stage, "pre": pre})


# math builtins by arity; every argument position carries a different value
for f in ("abs", "sqrt", "floor", "fract", "exp2", "sign", "saturate"):
    ex("math1-" + f, "F", "%s(p0)" % f)
ex("math1-length", "F", "length(v0)")
ex("math1-normalize", "V4", "normalize(v0)")
ex("math1-countOneBits", "U", "countOneBits(r0)")
ex("math1-reverseBits", "U", "reverseBits(r0)")
ex("math1-firstLeadingBit", "I", "firstLeadingBit(q0)")
ex("math1-abs-i32", "I", "abs(q0)")
ex("math1-pack4x8unorm", "U", "pack4x8unorm(v0)")
ex("math1-unpack4x8snorm", "V4", "unpack4x8snorm(r0)")
ex("math1-pack2x16float", "U", "pack2x16float(c0)")
ex("math1-modf", "F", "modf(p0).fract")
ex("math1-frexp", "I", "frexp(p0).exp")
ex("math1-transpose", "M2", "transpose(m0)")
ex("math1-determinant", "F", "determinant(m0)")
for f in ("pow", "atan2", "step", "min", "max"):
    ex("math2-" + f, "F", "%s(p0, p1)" % f)
ex("math2-ldexp", "F", "ldexp(p0, q0)")
ex("math2-cross", "V3", "cross(w0, w1)")
ex("math2-distance", "F", "distance(v0, v1)")
ex("math2-dot", "F", "dot(v0, v1)")
ex("math2-dot-i32", "I", "dot(vi0, vi1)")
ex("math2-reflect", "V4", "reflect(v0, v1)")
ex("math2-min-i32", "I", "min(q0, q1)")
ex("math2-max-u32", "U", "max(r0, r1)")
for f in ("clamp", "mix", "smoothstep", "fma"):
    ex("math3-" + f, "F", "%s(p0, p1, p2)" % f)
ex("math3-clamp-i32", "I", "clamp(q0, q1, q2)")
ex("math3-clamp-u32", "U", "clamp(r0, r1, r2)")
ex("math3-mix-vec-scalar", "V4", "mix(v0, v1, p0)")
ex("math3-mix-vec", "V4", "mix(v0, v1, v2)")
ex("math3-faceForward", "V4", "faceForward(v0, v1, v2)")
ex("math3-refract", "V4", "refract(v0, v1, p0)")
ex("math3-extractBits-i32", "I", "extractBits(q0, r0, r1)")
ex("math3-extractBits-u32", "U", "extractBits(r0, r1, r2)")
ex("math4-insertBits-i32", "I", "insertBits(q0, q1, r0, r1)")
ex("math4-insertBits-u32", "U", "insertBits(r0, r1, r2, r3)")
# select
ex("select-scalar", "F", "select(p0, p1, b0)")
ex("select-i32", "I", "select(q0, q1, b0)")
ex("select-vec-scalar-cond", "V4", "select(v0, v1, b0)")
ex("select-vec-vec-cond", "V4", "select(v0, v1, v0 < v2)")
# binary, non-commutative first
for nm, op in (("sub", "-"), ("div", "/"), ("rem", "%"), ("add", "+"), ("mul", "*")):
    ex("binary-%s-f32" % nm, "F", "p0 %s p1" % op)
    ex("binary-%s-i32" % nm, "I", "q0 %s q1" % op)
for nm, op in (("lt", "<"), ("le", "<="), ("gt", ">"), ("ge", ">="), ("eq", "=="), ("ne", "!=")):
    ex("binary-%s-f32" % nm, "B", "p0 %s p1" % op)
ex("binary-lt-u32", "B", "r0 < r1")
ex("binary-shl-i32", "I", "q0 << r0")
ex("binary-shr-u32", "U", "r0 >> r1")
for nm, op in (("and", "&"), ("or", "|"), ("xor", "^")):
    ex("binary-%s-u32" % nm, "U", "r0 %s r1" % op)
ex("binary-logical-and", "B", "b0 && b1")
ex("binary-logical-or", "B", "b0 || b1")
ex("binary-bool-and", "B", "b0 & b1")
ex("binary-sub-vec", "V4", "v0 - v1")
ex("binary-vec-scalar", "V4", "v0 * p0")
ex("binary-scalar-vec", "V4", "p0 / v0")
ex("binary-mat-vec", "V2", "m0 * c0")
ex("binary-vec-mat", "V2", "c0 * m0")
ex("binary-mat-mat", "M2", "m0 * m1")
ex("binary-nested", "F", "(p0 - p1) / (p2 - p3)")
# unary
ex("unary-neg-f32", "F", "-p0")
ex("unary-neg-i32", "I", "-q0")
ex("unary-not", "B", "!b0")
ex("unary-bitnot", "U", "~r0")
ex("unary-neg-vec", "V4", "-v0")
# access / access index / swizzle / load
ex("access-storage-array", "F", "io.f[q0]")
ex("access-storage-array-u32-index", "F", "io.f[r0]")
ex("access-vector-dynamic", "F", "v0[q0]")
ex("access-matrix-column", "V2", "m0[q0]")
ex("access-local-array", "F", "la[q0]", pre="var la = array<f32, 4>(p0, p1, p2, p3);")
ex("access-nested", "F", "io.v[q0][q1]")
ex("access-index-vector", "F", "v0.y")
ex("access-index-storage", "F", "io.v[1].z")
ex("access-index-struct", "I", "ls.b", globs="struct LS { a: f32, b: i32, }\n", pre="var ls = LS(p0, q0);")
ex("access-index-array-const", "F", "la[2]", pre="var la = array<f32, 4>(p0, p1, p2, p3);")
ex("swizzle-3", "V3", "v0.zyx")
ex("swizzle-4", "V4", "v0.wwxy")
ex("swizzle-2", "V2", "v0.yx")
ex("load-local", "F", "lv", pre="var lv = p0;\n  lv = lv - p1;")
ex("load-pointer-let", "F", "*ptr", pre="let ptr = &io.f[q0];")
# compose / splat
ex("compose-vec2", "V2", "vec2<f32>(p0, p1)")
ex("compose-vec3", "V3", "vec3<f32>(p0, p1, p2)")
ex("compose-vec4", "V4", "vec4<f32>(p0, p1, p2, p3)")
ex("compose-vec4-mixed", "V4", "vec4<f32>(c0, p0, p1)")
ex("compose-vec4-from-vec3", "V4", "vec4<f32>(p0, w0)")
ex("compose-vec4-i32", "VI4", "vec4<i32>(q0, q1, q2, q3)")
ex("compose-mat2", "M2", "mat2x2<f32>(c0, c1)")
ex("compose-mat2-scalars", "M2", "mat2x2<f32>(p0, p1, p2, p3)")
ex("compose-array", "F", "array<f32, 3>(p0, p1, p2)[q0]")
ex("compose-struct", "F", "LS(p0, q0).a", globs="struct LS { a: f32, b: i32, }\n")
ex("splat-f32", "V3", "vec3<f32>(p0)")
ex("splat-i32", "VI4", "vec4<i32>(q0)")
ex("splat-binary", "V4", "v0 * vec4<f32>(p0)")
# as / bitcast
ex("as-i32-to-f32", "F", "f32(q0)")
ex("as-f32-to-i32", "I", "i32(p0)")
ex("as-f32-to-u32", "U", "u32(p0)")
ex("as-u32-to-f32", "F", "f32(r0)")
ex("as-i32-to-u32", "U", "u32(q0)")
ex("as-u32-to-i32", "I", "i32(r0)")
ex("as-bool-to-f32", "F", "f32(b0)")
ex("as-i32-to-bool", "B", "bool(q0)")
ex("as-vec", "VI4", "vec4<i32>(v0)")
ex("bitcast-f32-to-u32", "U", "bitcast<u32>(p0)")
ex("bitcast-i32-to-f32", "F", "bitcast<f32>(q0)")
ex("bitcast-vec", "VI4", "bitcast<vec4<i32>>(v0)")
# relational
ex("relational-all", "B", "all(v0 < v1)")
ex("relational-any", "B", "any(v0 < v1)")
# array length
ex("array-length", "U", "arrayLength(&dyn)", globs="@group(0) @binding(1) var<storage, read_write> dyn: array<f32>;\n")
ex("array-length-member", "U", "arrayLength(&dyns.tail)",
   globs="struct Dyn { head: u32, tail: array<vec2<f32>>, }\n@group(0) @binding(1) var<storage, read_write> dyns: Dyn;\n")
# derivatives (fragment)
for f in ("dpdx", "dpdy", "fwidth", "dpdxCoarse", "dpdyFine", "fwidthCoarse"):
    ex("derivative-" + f, "F", "%s(p0)" % f, stage="fragment")
ex("derivative-vec", "V4", "dpdx(v0)", stage="fragment")
# call results
H3 = "fn h3(a: f32, b: f32, c: f32) -> f32 { return (a - b) / c; }\n"
H4 = "fn h4(a: f32, b: i32, c: u32, d: vec4<f32>) -> f32 { return a + f32(b) * 2.0 + f32(c) * 3.0 + d.w; }\n"
ex("call-result-3", "F", "h3(p0, p1, p2)", globs=H3)
ex("call-result-4-mixed", "F", "h4(p0, q0, r0, v0)", globs=H4)
ex("call-result-nested", "F", "h3(h3(p0, p1, p2), p1, p3)", globs=H3)
ex("call-result-in-math", "F", "clamp(h3(p0, p1, p2), p1, p3)", globs=H3)
# atomics (results)
ATOM = "struct At { ai: atomic<i32>, au: atomic<u32>, arr: array<atomic<i32>, 4>, }\n@group(0) @binding(1) var<storage, read_write> at: At;\n"
for f in ("Add", "Sub", "Max", "Min", "And", "Or", "Xor", "Exchange"):
    ex("atomic-result-" + f, "I", "atomic%s(&at.ai, q0)" % f, globs=ATOM)
ex("atomic-result-Add-u32", "U", "atomicAdd(&at.au, r0)", globs=ATOM)
ex("atomic-result-Add-indexed", "I", "atomicAdd(&at.arr[q0], q1)", globs=ATOM)
ex("atomic-result-Load", "I", "atomicLoad(&at.ai)", globs=ATOM)
ex("atomic-result-Load-indexed", "I", "atomicLoad(&at.arr[q0])", globs=ATOM)
ex("atomic-compare-exchange-old", "I", "atomicCompareExchangeWeak(&at.ai, q0, q1).old_value", globs=ATOM)
ex("atomic-compare-exchange-flag", "B", "atomicCompareExchangeWeak(&at.ai, q0, q1).exchanged", globs=ATOM)
ex("atomic-compare-exchange-indexed", "I", "atomicCompareExchangeWeak(&at.arr[q2], q0, q1).old_value", globs=ATOM)
ex("atomic-compare-exchange-u32", "U", "atomicCompareExchangeWeak(&at.au, r0, r1).old_value", globs=ATOM)
ex("atomic-workgroup", "I", "atomicAdd(&wat, q0)", globs="var<workgroup> wat: atomic<i32>;\n")
ex("workgroup-uniform-load", "I", "workgroupUniformLoad(&wv)", globs="var<workgroup> wv: i32;\n")
ex("workgroup-uniform-load-indexed", "I", "workgroupUniformLoad(&wva[2])", globs="var<workgroup> wva: array<i32, 4>;\n")
# images
TEX = ("@group(1) @binding(0) var t2: texture_2d<f32>;\n@group(1) @binding(1) var smp: sampler;\n"
       "@group(1) @binding(2) var t2a: texture_2d_array<f32>;\n@group(1) @binding(3) var td: texture_depth_2d;\n"
       "@group(1) @binding(4) var smpc: sampler_comparison;\n@group(1) @binding(5) var tda: texture_depth_2d_array;\n"
       "@group(1) @binding(6) var tms: texture_multisampled_2d<f32>;\n@group(1) @binding(7) var t3: texture_3d<f32>;\n"
       "@group(1) @binding(8) var tcu: texture_cube<f32>;\n@group(1) @binding(9) var t1: texture_1d<f32>;\n"
       "@group(1) @binding(10) var t2i: texture_2d<i32>;\n@group(1) @binding(11) var tca: texture_cube_array<f32>;\n")
OFF = "vec2<i32>(1, 2)"
for nm, e, st in (
        ("sample", "textureSample(t2, smp, c0)", "fragment"),
        ("sample-offset", "textureSample(t2, smp, c0, %s)" % OFF, "fragment"),
        ("sample-array", "textureSample(t2a, smp, c0, q0)", "fragment"),
        ("sample-array-u32", "textureSample(t2a, smp, c0, r0)", "fragment"),
        ("sample-array-offset", "textureSample(t2a, smp, c0, q0, %s)" % OFF, "fragment"),
        ("sample-3d", "textureSample(t3, smp, w0)", "fragment"),
        ("sample-cube", "textureSample(tcu, smp, w0)", "fragment"),
        ("sample-cube-array", "textureSample(tca, smp, w0, q0)", "fragment"),
        ("sample-level", "textureSampleLevel(t2, smp, c0, p0)", "compute"),
        ("sample-level-offset", "textureSampleLevel(t2, smp, c0, p0, %s)" % OFF, "compute"),
        ("sample-level-array", "textureSampleLevel(t2a, smp, c0, q0, p0)", "compute"),
        ("sample-level-array-offset", "textureSampleLevel(t2a, smp, c0, q0, p0, %s)" % OFF, "compute"),
        ("sample-bias", "textureSampleBias(t2, smp, c0, p0)", "fragment"),
        ("sample-bias-offset", "textureSampleBias(t2, smp, c0, p0, %s)" % OFF, "fragment"),
        ("sample-bias-array", "textureSampleBias(t2a, smp, c0, q0, p0)", "fragment"),
        ("sample-grad", "textureSampleGrad(t2, smp, c0, c1, c2)", "compute"),
        ("sample-grad-offset", "textureSampleGrad(t2, smp, c0, c1, c2, %s)" % OFF, "compute"),
        ("sample-grad-array", "textureSampleGrad(t2a, smp, c0, q0, c1, c2)", "compute"),
        ("sample-grad-array-offset", "textureSampleGrad(t2a, smp, c0, q0, c1, c2, %s)" % OFF, "compute"),
        ("sample-base-clamp-to-edge", "textureSampleBaseClampToEdge(t2, smp, c0)", "compute"),
        ("gather", "textureGather(1, t2, smp, c0)", "compute"),
        ("gather-offset", "textureGather(2, t2, smp, c0, %s)" % OFF, "compute"),
        ("gather-array", "textureGather(3, t2a, smp, c0, q0)", "compute"),
        ("gather-depth", "textureGather(td, smp, c0)", "compute"),
        ("gather-compare", "textureGatherCompare(td, smpc, c0, p0)", "compute"),
        ("gather-compare-array", "textureGatherCompare(tda, smpc, c0, q0, p0)", "compute"),
        ("gather-compare-offset", "textureGatherCompare(td, smpc, c0, p0, %s)" % OFF, "compute"),
        ("load-2d", "textureLoad(t2, ci0, q0)", "compute"),
        ("load-2d-u32-level", "textureLoad(t2, ci0, r0)", "compute"),
        ("load-2d-array", "textureLoad(t2a, ci0, q0, q1)", "compute"),
        ("load-multisampled", "textureLoad(tms, ci0, q0)", "compute"),
        ("load-1d", "textureLoad(t1, q0, q1)", "compute"),
        ("load-3d", "textureLoad(t3, vi0.xyz, q0)", "compute"),
        ("load-2d-i32", "textureLoad(t2i, ci0, q0)", "compute")):
    rty = "VI4" if nm == "load-2d-i32" else "V4"
    ex("image-" + nm, rty, e, globs=TEX, stage=st)
for nm, e, st in (
        ("sample-compare", "textureSampleCompare(td, smpc, c0, p0)", "fragment"),
        ("sample-compare-offset", "textureSampleCompare(td, smpc, c0, p0, %s)" % OFF, "fragment"),
        ("sample-compare-array", "textureSampleCompare(tda, smpc, c0, q0, p0)", "fragment"),
        ("sample-compare-array-offset", "textureSampleCompare(tda, smpc, c0, q0, p0, %s)" % OFF, "fragment"),
        ("sample-compare-level", "textureSampleCompareLevel(td, smpc, c0, p0)", "compute"),
        ("sample-compare-level-array", "textureSampleCompareLevel(tda, smpc, c0, q0, p0)", "compute"),
        ("sample-depth", "textureSample(td, smp, c0)", "fragment"),
        ("sample-depth-level", "textureSampleLevel(td, smp, c0, q0)", "compute"),
        ("load-depth", "textureLoad(td, ci0, q0)", "compute"),
        ("load-depth-array", "textureLoad(tda, ci0, q0, q1)", "compute")):
    ex("image-" + nm, "F", e, globs=TEX, stage=st)
ex("image-load-storage", "V4", "textureLoad(tsr, ci0)", globs="@group(1) @binding(0) var tsr: texture_storage_2d<rgba8unorm, read>;\n")
ex("image-load-storage-array", "V4", "textureLoad(tsra, ci0, q0)",
   globs="@group(1) @binding(0) var tsra: texture_storage_2d_array<rgba8unorm, read>;\n")
ex("image-query-size", "VU2", "textureDimensions(t2)", globs=TEX)
ex("image-query-size-level", "VU2", "textureDimensions(t2, q0)", globs=TEX)
ex("image-query-size-level-u32", "VU2", "textureDimensions(t2, r0)", globs=TEX)
ex("image-query-size-array-level", "VU2", "textureDimensions(t2a, q0)", globs=TEX)
ex("image-query-size-3d-level", "VU3", "textureDimensions(t3, q0)", globs=TEX)
ex("image-query-size-1d", "U", "textureDimensions(t1)", globs=TEX)
ex("image-query-size-depth-level", "VU2", "textureDimensions(td, q0)", globs=TEX)
ex("image-query-num-levels", "U", "textureNumLevels(t2)", globs=TEX)
ex("image-query-num-layers", "U", "textureNumLayers(t2a)", globs=TEX)
ex("image-query-num-samples", "U", "textureNumSamples(tms)", globs=TEX)
# subgroup operations
SG = "enable subgroups;\n"
for f in ("Add", "Mul", "Min", "Max", "And", "Or", "Xor", "ExclusiveAdd", "InclusiveMul", "BroadcastFirst"):
    ex("subgroup-" + f, "U", "subgroup%s(r0)" % f)
for f in ("Broadcast", "Shuffle", "ShuffleDown", "ShuffleUp", "ShuffleXor"):
    ex("subgroup-" + f, "U", "subgroup%s(r0, r1)" % f)
ex("subgroup-quadBroadcast", "U", "quadBroadcast(r0, r1)")
ex("subgroup-quadSwapX", "U", "quadSwapX(r0)")
ex("subgroup-All", "B", "subgroupAll(b0)")
ex("subgroup-Any", "B", "subgroupAny(b0)")
ex("subgroup-Ballot", "VU4", "subgroupBallot(b0)")
ex("subgroup-Ballot-noarg", "VU4", "subgroupBallot()")
# ray query
RQ = "@group(1) @binding(0) var acc: acceleration_structure;\n"
ex("ray-query-proceed", "B", "rayQueryProceed(&rq)", globs=RQ,
   pre="var rq: ray_query;\n  rayQueryInitialize(&rq, acc, RayDesc(r0, r1, p0, p1, w0, w1));")
ex("ray-query-committed", "F", "rayQueryGetCommittedIntersection(&rq).t", globs=RQ,
   pre="var rq: ray_query;\n  rayQueryInitialize(&rq, acc, RayDesc(r0, r1, p0, p1, w0, w1));\n  let go = rayQueryProceed(&rq);")
ex("ray-query-candidate", "U", "rayQueryGetCandidateIntersection(&rq).kind", globs=RQ,
   pre="var rq: ray_query;\n  rayQueryInitialize(&rq, acc, RayDesc(r0, r1, p0, p1, w0, w1));\n  let go = rayQueryProceed(&rq);")

# ---------------------------------------------------------------- statement forms
# (name, body, extra globals, stage): body lines use pool names freely
S = []


def st(name, body, globs="", stage="compute", epilogue=True):
    S.append({"name": name, "body": body, "globals": globs, "stage": stage, "epilogue": epilogue})


st("store-dynamic-pointer", "io.f[q0] = p0;")
st("store-pointer-let", "let ptr = &io.f[q0];\n  *ptr = p0 - p1;")
st("store-local", "var lv: f32;\n  lv = p0 - p1;\n  io.f[8] = lv;")
st("store-vector-component", "var lv = v0;\n  lv.y = p0;\n  lv[q0] = p1;\n  io.v[3] = lv;")
st("store-struct-member", "var ls = LS(p0, q0);\n  ls.a = p1;\n  ls.b = q1;\n  io.f[8] = ls.a;\n  io.i[8] = ls.b;",
   globs="struct LS { a: f32, b: i32, }\n")
st("store-compound", "io.f[q0] -= p0;\n  io.i[q1] <<= r0;")
st("store-increment", "var k = q0;\n  k++;\n  io.i[8] = k;\n  io.i[q1]--;")
st("local-init-runtime", "var lv: f32 = p0 - p1;\n  io.f[8] = lv;")
st("local-init-const", "var lv = 2.5;\n  var lw: i32 = 7;\n  lv = lv - p0;\n  io.f[8] = lv;\n  io.i[8] = lw - q0;")
st("local-init-override", "var lv = ova;\n  var lw: i32 = ovb;\n  lv = lv - p0;\n  io.f[8] = lv;\n  io.i[8] = lw - q0;")
st("local-init-override-folded", "var lv = ova + 2.5;\n  lv = lv - p0;\n  io.f[8] = lv;")
st("phony", "_ = p0 - p1;\n  _ = ova;\n  io.f[8] = p1;")
st("if-else", "if (p0 < p1) {\n    io.f[8] = p2 - p3;\n  } else {\n    io.f[9] = p3 - p2;\n  }")
st("if-nested-override", "if (p0 < p1) {\n    io.f[8] = p2 * ova;\n    let s2 = ova + 2.5;\n    io.f[10] = s2 - p3;\n    if (q0 < ovb) {\n      io.f[11] = p3 - p2;\n    }\n  } else {\n    io.f[9] = p3 - ova;\n  }")
st("if-override-condition", "if (ovd) {\n    io.f[8] = p2 - p3;\n  } else {\n    io.f[9] = p3 - p2;\n  }")
st("if-else-if", "if (p0 < p1) {\n    io.f[8] = p2;\n  } else if (p1 < p2) {\n    io.f[9] = p3;\n  } else {\n    io.f[10] = p0;\n  }")
st("switch", "switch (q0) {\n    case 1: {\n      io.f[8] = p0 - p1;\n    }\n    case 2, 3: {\n      io.f[9] = p1 - p2;\n    }\n    default: {\n      io.f[10] = p2 - p3;\n    }\n  }")
st("switch-u32", "switch (r0) {\n    case 1u: {\n      io.f[8] = p0 - p1;\n    }\n    default: {\n      io.f[10] = p2 - p3;\n    }\n  }")
st("switch-override-selector", "switch (ovb) {\n    case 5: {\n      io.f[8] = p0 - p1;\n    }\n    case 2: {\n      io.f[9] = p1 - p2;\n    }\n    default: {\n      io.f[10] = p2 - p3;\n    }\n  }")
st("switch-override-in-case", "switch (q0) {\n    case 1: {\n      io.f[8] = p0 - ova;\n      let s2 = ova + 2.5;\n      io.f[9] = s2 / p1;\n    }\n    default: {\n      io.i[10] = q1 - ovb;\n    }\n  }")
st("loop-break-if", "var k = q0;\n  loop {\n    if (k > q1) {\n      break;\n    }\n    io.f[8] = io.f[8] - p0;\n    continuing {\n      k = k + q2;\n      break if k > q3;\n    }\n  }")
st("loop-override", "var k = q0;\n  loop {\n    if (k > ovb) {\n      break;\n    }\n    io.f[8] = io.f[8] - ova;\n    let s2 = ova + 2.5;\n    io.f[9] = io.f[9] / s2;\n    continuing {\n      k = k + ovb;\n      break if k > q3 - ovb;\n    }\n  }")
st("for-loop", "for (var k = q0; k < q1; k = k + q2) {\n    io.f[k] = p0 - f32(k);\n    if (k == q3) {\n      continue;\n    }\n    io.i[8] = k;\n  }")
st("while-loop", "var k = q0;\n  while (k < q1) {\n    k = k + q2;\n    io.i[8] = k - q3;\n  }")
st("block", "{\n    let t = p0 - p1;\n    {\n      io.f[8] = t / p2;\n    }\n    io.f[9] = t / ova;\n  }")
HV = "fn hv(a: f32, b: i32, c: u32) { io.f[9] = (a - f32(b)) / f32(c); }\n"
st("call-void", "hv(p0, q0, r0);", globs=HV)
st("call-void-override-args", "hv(ova, q0, r0);\n  hv(p0, ovb, r0);\n  hv(p0, q0, ovc);", globs=HV)
st("call-result-statement", "let t = h3(p0, p1, p2);\n  io.f[8] = t - p3;", globs=H3)
st("call-result-override-args", "io.f[8] = h3(ova, p1, p2);\n  io.f[9] = h3(p0, ova, p2);\n  io.f[10] = h3(p0, p1, ova);", globs=H3)
st("call-pointer-argument", "var lv = p0;\n  hp(&lv, p1);\n  io.f[8] = lv;", globs="fn hp(x: ptr<function, f32>, d: f32) { *x = *x - d; }\n")
st("return-value-helper", "io.f[8] = hr(p0, p1);\n  io.f[9] = hr(p1, p0);",
   globs="fn hr(a: f32, b: f32) -> f32 {\n  let s2 = ova + 2.5;\n  let t = a - b;\n  if (t < ova) {\n    return t / s2;\n  }\n  return clamp(t, b, ova);\n}\n")
st("return-override-helper", "io.f[8] = hr() - p0;\n  io.i[8] = hi() - q0;",
   globs="fn hr() -> f32 {\n  let s2 = ova + 2.5;\n  return s2;\n}\nfn hi() -> i32 {\n  return ovb;\n}\n")
for f in ("Add", "Sub", "Max", "Min", "And", "Or", "Xor", "Exchange"):
    st("atomic-stmt-" + f, "atomic%s(&at.ai, q0);\n  atomic%s(&at.arr[q1], q2);" % (f, f), globs=ATOM)
st("atomic-stmt-Store", "atomicStore(&at.ai, q0);\n  atomicStore(&at.arr[q1], q2);\n  atomicStore(&at.au, r0);", globs=ATOM)
st("atomic-stmt-override-value", "atomicAdd(&at.ai, ovb);\n  atomicStore(&at.au, ovc);\n  io.i[8] = atomicSub(&at.arr[q0], ovb);", globs=ATOM)
st("atomic-compare-exchange-override", "io.i[8] = atomicCompareExchangeWeak(&at.ai, ovb, q1).old_value;\n"
   "  io.i[9] = atomicCompareExchangeWeak(&at.ai, q0, ovb).old_value;", globs=ATOM)
st("barriers", "io.f[8] = p0 - p1;\n  workgroupBarrier();\n  io.f[9] = p1 - p2;\n  storageBarrier();\n  io.f[10] = p2 - p3;\n  textureBarrier();\n  io.f[11] = p3 - p0;")
st("barrier-subgroup", "io.f[8] = p0 - p1;\n  subgroupBarrier();\n  io.f[9] = p1 - p2;")
TST = ("@group(1) @binding(0) var tst: texture_storage_2d<rgba8unorm, write>;\n"
       "@group(1) @binding(1) var tsta: texture_storage_2d_array<rgba8unorm, write>;\n"
       "@group(1) @binding(2) var tst1: texture_storage_1d<r32float, write>;\n"
       "@group(1) @binding(3) var tst3: texture_storage_3d<rgba16float, write>;\n")
st("image-store", "textureStore(tst, ci0, v0);", globs=TST)
st("image-store-array", "textureStore(tsta, ci0, q0, v0);", globs=TST)
st("image-store-array-u32", "textureStore(tsta, ci0, r0, v0);", globs=TST)
st("image-store-1d", "textureStore(tst1, q0, v0);", globs=TST)
st("image-store-3d", "textureStore(tst3, vi0.xyz, v0);", globs=TST)
st("image-store-override", "textureStore(tsta, ci0, ovb, v0);\n  textureStore(tst, vec2<i32>(q0, ovb), v1);", globs=TST)
TAT = ("@group(1) @binding(0) var tau: texture_storage_2d<r32uint, atomic>;\n"
       "@group(1) @binding(1) var tas: texture_storage_2d<r32sint, atomic>;\n"
       "@group(1) @binding(2) var taa: texture_storage_2d_array<r32uint, atomic>;\n")
for f in ("Add", "Max", "Min", "And", "Or", "Xor"):
    st("image-atomic-" + f, "textureAtomic%s(tau, ci0, r0);\n  textureAtomic%s(tas, ci1, q0);" % (f, f), globs=TAT)
st("image-atomic-array", "textureAtomicAdd(taa, ci0, q0, r0);", globs=TAT)
st("image-atomic-override", "textureAtomicAdd(tau, ci0, ovc);\n  textureAtomicAdd(taa, ci0, ovb, r0);", globs=TAT)
st("kill", "if (p0 < p1) {\n    discard;\n  }\n  io.f[8] = p1 - p0;", stage="fragment")
st("kill-override", "if (p0 < ova) {\n    discard;\n  }\n  io.f[8] = p1 - p0;", stage="fragment")
st("ray-query-statements", "var rq: ray_query;\n  rayQueryInitialize(&rq, acc, RayDesc(r0, r1, p0, p1, w0, w1));\n"
   "  while (rayQueryProceed(&rq)) {\n    io.f[8] = io.f[8] - p2;\n  }\n  rayQueryTerminate(&rq);", globs=RQ)
st("ray-query-override", "var rq: ray_query;\n  rayQueryInitialize(&rq, acc, RayDesc(ovc, r1, ova, p1, w0, vec3<f32>(ova, p2, p3)));\n"
   "  while (rayQueryProceed(&rq)) {\n    io.f[8] = io.f[8] - ova;\n  }", globs=RQ)
st("workgroup-uniform-load-statement", "wv = q0;\n  workgroupBarrier();\n  let t = workgroupUniformLoad(&wv);\n  io.i[8] = t - q1;",
   globs="var<workgroup> wv: i32;\n")
# the function's LAST expressions: a load that must happen before a later store
st("last-emit-load-before-store", "let ptra = &io.f[8];\n  let ptrb = &io.f[9];\n  let t = *ptra;\n  *ptra = p1;\n  *ptrb = t;", epilogue=False)
st("last-emit-named-twice", "let ptrb = &io.f[9];\n  let ptrc = &io.f[10];\n  let t = p1 - p2;\n  *ptrb = t;\n  *ptrc = t;", epilogue=False)


# ---------------------------------------------------------------- program assembly

def wgsl_value(t, v):
    if t == G.BOOL:
        return "true" if v else "false"
    if t == G.F32:
        return repr(float(v))
    return "%d%s" % (int(v), "u" if t == G.U32 else "")


def decl_lines(names, mode, values):
    out = []
    for n in sorted(names):
        t, oid, dtxt, _dv, _sv = OVR[n]
        if mode == "override":
            out.append("%soverride %s: %s = %s;" % ("@id(%d) " % oid if oid is not None else "", n, G.TYNAME[t], dtxt))
        else:
            out.append("const %s: %s = %s;" % (n, G.TYNAME[t], wgsl_value(t, values[n])))
    return "\n".join(out) + "\n"


def assemble(form, body_text, pre_text, globs, stage, placement, used_ovr, epilogue=True):
    toks = []
    for tk in TOKEN.findall(pre_text + "\n" + body_text) + ["p0"]:
        if tk not in toks:
            toks.append(tk)
    toks.sort(key=lambda x: (x != "p0", x))
    setup = "".join("  let %s = %s;\n" % (pool_name(tk), POOL[tk][1]) for tk in toks)
    inner = ("  let s_f = ova + 1.5;\n  io.f[0] = s_f;\n  io.f[1] = ova;\n" + setup +
             ("  " + tr(pre_text) + "\n" if pre_text else "") + "  " + tr(body_text) + "\n" + ("  io.f[15] = pa * ova;\n" if epilogue else ""))
    globs = tr(globs)
    if stage == "fragment":
        head = "@fragment\nfn main(@location(0) fa: vec4<f32>) -> @location(0) vec4<f32> {\n"
        tail = "  return vec4<f32>(fa.x, fa.y, ova, 1.0);\n}\n"
    else:
        head = "@compute @workgroup_size(1)\nfn main() {\n"
        tail = "}\n"
    if placement == "helper":
        fns = "fn hf() {\n" + inner + "}\n" + head + "  hf();\n" + tail
    else:
        fns = head + inner + tail
    used = set(used_ovr) | {"ova"}

    def src(mode, values=None):
        return decl_lines(used, mode, values) + buf_decl(globs + fns) + globs + fns
    return src, sorted(used)


# variants in which the substituted program is folded by the front end (the constant decides a
# short circuit / turns a dynamic index into a static one): equivalent code of a different shape
EXCLUDED_VARIANTS = {"binary-logical-and:ovr@0", "binary-logical-or:ovr@0", "compose-array:ovr@3"}
# quick tier: override-operand variants of one representative form per (kind, arity, operand type)
QUICK_VARIANTS = {"math2-pow", "math2-ldexp", "math2-min-i32", "math3-clamp", "math3-mix", "math3-clamp-i32", "math3-extractBits-u32",
                  "math4-insertBits-i32", "math4-insertBits-u32", "select-scalar", "select-i32", "binary-sub-f32", "binary-div-i32",
                  "binary-shl-i32", "binary-lt-f32", "binary-logical-and", "binary-nested", "access-nested", "access-vector-dynamic",
                  "compose-vec4", "compose-vec4-i32", "compose-struct", "compose-mat2-scalars", "call-result-3", "call-result-4-mixed",
                  "call-result-nested", "atomic-result-Add-indexed", "atomic-compare-exchange-indexed", "atomic-compare-exchange-u32",
                  "image-sample-level-array", "image-sample-bias-array", "image-sample-compare-array", "image-gather-compare-array",
                  "image-load-2d-array", "image-load-multisampled", "image-sample-grad-array", "image-query-size-level",
                  "subgroup-Shuffle", "math3-refract"}
ANY_TOKEN = re.compile(r"\b(?:(?:p|q|r|b|v|w|c|ci|vi|vu|m)\d|ov[abcd])\b")


def forms(full=False):
    """-> list of dicts: name (stable), form (name without placement), src_of(mode, values),
    overrides, operands (ordered pool/override tokens of the form), stage, placement,
    tags (the value maps to run it with).  Quick tier: every form in the entry point with supplied
    values; statement forms and one representative expression form per kind / arity / operand
    type (QUICK_VARIANTS) also with defaults and inside a helper function (the two passes treat
    Module.Functions and Module.EntryPoints with the same routine); the override-operand
    variants of the representatives in the entry point with supplied values.  full: every variant x both placements x both maps."""
    out = []
    for e in E:
        base = [("", e["expr"])]
        if len(TOKEN.findall(e["expr"])) > 1 and (full or e["name"] in QUICK_VARIANTS):
            # an override at each scalar operand position
            pos = 0
            for m in TOKEN.finditer(e["expr"]):
                cls = POOL[m.group(0)][0]
                if cls in OVR_OF_CLASS and "%s:ovr@%d" % (e["name"], pos) not in EXCLUDED_VARIANTS:
                    txt = e["expr"][:m.start()] + OVR_OF_CLASS[cls] + e["expr"][m.end():]
                    base.append((":ovr@%d" % pos, txt))
                pos += 1
        for suffix, expr in base:
            for pl in ("entry", "helper"):
                if pl == "helper" and not full and (suffix or e["name"] not in QUICK_VARIANTS):
                    continue
                body = "let res = %s;\n  %s" % (expr, SINK[e["rty"]] % "res")
                used = set(OVR_TOKEN.findall(expr))
                src, used = assemble(e, body, e["pre"], e["globals"], e["stage"], pl, used)
                tags = ["supplied", "defaults"] if full or (pl == "entry" and not suffix and e["name"] in QUICK_VARIANTS) else ["supplied"]
                out.append({"name": "%s%s@%s" % (e["name"], suffix, pl), "form": e["name"] + suffix, "kind": "expr", "src_of": src,
                            "overrides": used, "operands": [tr(x) for x in ANY_TOKEN.findall(expr)], "stage": e["stage"], "placement": pl, "tags": tags})
    for s in S:
        for pl in ("entry", "helper"):
            used = set(OVR_TOKEN.findall(s["body"] + s["globals"]))
            src, used = assemble(s, s["body"], "", s["globals"], s["stage"], pl, used, s["epilogue"])
            tags = ["supplied", "defaults"] if full or pl == "entry" else ["supplied"]
            out.append({"name": "%s@%s" % (s["name"], pl), "form": s["name"], "kind": "stmt", "src_of": src, "overrides": used,
                        "operands": [tr(x) for x in ANY_TOKEN.findall(s["body"])], "stage": s["stage"], "placement": pl, "tags": tags})
    return out


def value_maps(overrides):
    """[(tag, vmap, resolved values)]: every override supplied (by id where it has one, by
    name otherwise); none supplied (an unrelated key keeps the PipelineConstants paths active)"""
    supplied, vals_s, vals_d = [], {}, {}
    for n in overrides:
        t, oid, _dtxt, dv, sv = OVR[n]
        supplied.append([str(oid) if oid is not None else n, G.f64bits(sv)])
        vals_s[n] = sv
        vals_d[n] = dv
    return [("supplied", supplied, vals_s), ("defaults", [["unrelated_key", G.f64bits(1.0)]], vals_d)]


def decls_of(overrides):
    """the check's declaration records (ovrgen encoding) for the overrides of a form program"""
    out = []
    for n in sorted(overrides):
        t, oid, dtxt, dv, _sv = OVR[n]
        if t == G.F32:
            init = G.lit_float(dtxt, 0)[0]
        elif t == G.BOOL:
            init = G.lit_bool(dv == 1.0)[0]
        else:
            init = G.lit_int(int(dv), 2 if t == G.U32 else 0)[0]
        out.append({"name": n, "id": oid, "ty": t, "real_ty": t, "init": init})
    return out


# ---------------------------------------------------------------- comparison helpers

def first_diff(a, b, path=""):
    """path (struct type . field, no indices) and description of the first difference of two canonical forms"""
    if type(a) != type(b):
        return path, "%s vs %s" % (brief(a), brief(b))
    if isinstance(a, dict):
        t = a.get("_t", "")
        if t != b.get("_t", ""):
            return path, "%s vs %s" % (brief(a), brief(b))
        for k in sorted(set(a) | set(b)):
            if k not in a or k not in b:
                return path + "/" + t + "." + k, "field missing"
            d = first_diff(a[k], b[k], path + "/" + t + "." + k)
            if d:
                return d
        return None
    if isinstance(a, list):
        for x, y in zip(a, b):
            d = first_diff(x, y, path)
            if d:
                return d
        if len(a) != len(b):
            return path + "[len]", "%d vs %d elements" % (len(a), len(b))
        return None
    return None if a == b else (path, "%r vs %r" % (a, b))


def brief(x, depth=0):
    if isinstance(x, dict):
        t = x.get("_t")
        if t == "Type" or depth > 3:
            return t or "{..}"
        return "%s(%s)" % (t, ", ".join("%s=%s" % (k, brief(v, depth + 1)) for k, v in sorted(x.items()) if k not in ("_t", "ty")))
    if isinstance(x, list):
        return "[" + ", ".join(brief(v, depth + 1) for v in x[:6]) + "]"
    return repr(x)


def strip_emits(c):
    """canonical form without Emit statements and without the list of un-emitted expressions"""
    if isinstance(c, dict):
        return {k: strip_emits(v) for k, v in c.items() if k != "Unemitted"}
    if isinstance(c, list):
        return [strip_emits(x) for x in c if not (isinstance(x, dict) and x.get("_t") == "StmtEmit")]
    return c


def unemitted(c):
    return sum(len(f.get("Unemitted", [])) for f in c.get("functions", []))


BAKED = re.compile(r"\b_e(\d+)\b")
CONST_LINE = re.compile(r"^\s*(?:static\s+)?(?:const|constant)\s+\w+\s+(\w+)\s*=\s*[^;]*;\s*$")


def norm_text(text, inline=()):
    """back-end text up to (a) the numbers of baked temporaries `_eN` (arena indices), renamed
    in order of first occurrence, (b) declarations of scalar constants nothing refers to,
    (c) the constants named in `inline` (the resolved overrides), replaced by the literal their
    declaration gives them: the front end inlines some uses of a `const`, the override paths
    keep the reference"""
    if text is None:
        return None
    ck = (text, tuple(inline))
    if ck in _NORM_CACHE:
        return _NORM_CACHE[ck]
    if len(_NORM_CACHE) > 64:
        _NORM_CACHE.clear()
    r = _NORM_CACHE[ck] = _norm_text(text, inline)
    return r


_NORM_CACHE = {}


def _norm_text(text, inline):
    seen = {}

    def ren(m):
        return seen.setdefault(m.group(1), "_E%d" % len(seen))
    text = BAKED.sub(ren, text)
    lines = text.split("\n")
    for name in inline:
        for k, ln in enumerate(lines):
            m = CONST_LINE.match(ln)
            if m and m.group(1) == name:
                rhs = ln.split("=", 1)[1].strip().rstrip(";").strip()
                decl = ln.split("=", 1)[0].split()[-2]
                if decl in ("int", "uint") and re.fullmatch(r"-?\d+(\.0*)?u?", rhs):
                    # `constant int x = 2.0;` has the value 2 (implicit conversion of the initialiser)
                    rhs = rhs.rstrip("u").split(".")[0] + ("u" if decl == "uint" else "")
                if re.fullmatch(r"[-\w.+()]+", rhs):
                    pat = re.compile(r"\b%s\b" % re.escape(name))
                    lines = [pat.sub(rhs, l2) for j, l2 in enumerate(lines) if j != k]
                break
    text = "\n".join(lines)
    out = []
    for ln in lines:
        m = CONST_LINE.match(ln)
        if m and len(re.findall(r"\b%s\b" % re.escape(m.group(1)), text)) == 1:
            continue
        out.append(ln)
    return "\n".join(out)


def lost_tokens(expected, actual, operands):
    """operand tokens that occur less often in the actual text than in the expected one"""
    out = []
    for tk in dict.fromkeys(operands):
        pat = re.compile(r"\b%s\b" % re.escape(tk))
        if len(pat.findall(actual or "")) < len(pat.findall(expected or "")):
            out.append(tk)
    return out


def text_diff(expected, actual, n=2):
    import difflib
    return "\n".join(list(difflib.unified_diff((expected or "").split("\n"), (actual or "").split("\n"), "substituted", "override path",
                                               lineterm="", n=n))[:60])


def spv_summary(hexbytes):
    """order- and id-independent summary of a SPIR-V module: multiset of constants (with the
    structure of their type), multiset of (opcode, extended instruction) per function,
    execution modes"""
    import spvdis
    if not hexbytes:
        return None
    _hd, ins = spvdis.decode(spvdis.words_of_bytes(bytes.fromhex(hexbytes)))
    types = {}
    for op, ops in ins:
        if op in (19, 20, 26):
            types[ops[0]] = spvdis.NAMES.get(op, str(op))
        elif op == 21:
            types[ops[0]] = "int%d%s" % (ops[1], "s" if ops[2] else "u")
        elif op == 22:
            types[ops[0]] = "float%d" % ops[1]
        elif op in (23, 24):
            types[ops[0]] = "%s<%s,%d>" % ("vec" if op == 23 else "mat", types.get(ops[1], "?"), ops[2])
    consts = []
    fns = []
    cur = None
    modes = []
    for op, ops in ins:
        if op in (41, 42, 43, 44, 46):
            consts.append("%s %s %s" % (spvdis.NAMES[op], types.get(ops[0], "composite"), ops[2:] if op == 43 else len(ops) - 2))
        elif op == 16:
            modes.append(str(ops[1:]))
        elif op == 54:
            cur = []
        elif op == 56:
            fns.append(sorted(cur))
            cur = None
        elif cur is not None:
            cur.append("%s%s" % (spvdis.NAMES.get(op, op), ":%d" % ops[3] if op == 12 else ""))
    return {"constants": sorted(consts), "functions": sorted(fns), "modes": sorted(modes)}
