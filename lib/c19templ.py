"""C19 - systematic family of meaning-neutral edits AT TEMPLATE-LIST CLOSERS.

The parser has to split the lexer's `>>`, `>=` and `>>=` tokens when they close template lists
(splitGreaterGreater / splitGreaterEqual, templateArgExpr in wgsl/internal/parser/parser.go); whether it
does so may depend on what was parsed just before (a parenthesised element count, a nested template).  The
random edit generators of lib/wgsltext.py rarely hit these sites, and the space is small, so it is enumerated:

  {context with adjacent closers} x {spelling of the element count: plain, redundantly parenthesised in every
  position} x {spelling of the closer: adjacent, blank / comment / newline between the two characters}

Every variant of one context is the canonical program after neutral edits only (redundant parentheses,
whitespace / comments between tokens, a trailing comma in a template list): all variants must be accepted
iff the canonical one is, with identical output."""

# element-count expressions (all equal to 4) and their redundantly parenthesised spellings
COUNTS = [
    ("4", ["(4)", "((4))"]),
    ("2 + 2", ["(2 + 2)", "(2) + 2", "2 + (2)", "((2) + (2))"]),
    ("N", ["(N)", "((N))"]),
    ("N + 0", ["(N + 0)", "(N) + 0", "N + (0)"]),
    ("2 * 2", ["(2 * 2)", "(2) * (2)"]),
    ("K.x", ["(K.x)", "(K).x"]),
]

# closers: how the characters that close two template lists (and, in some contexts, a following `=`) are spelled
def closers(tok):
    """tok is '>>', '>=', '>>=' or '>>(': every neutral re-spelling of the gap(s) between its characters"""
    gaps = ["", " ", "/**/", "\n", " /* > */ "]
    if len(tok) == 2:
        return [tok[0] + g + tok[1] for g in gaps]
    out = []
    for g1 in gaps[:3]:
        for g2 in gaps[:3]:
            out.append(tok[0] + g1 + tok[1] + g2 + tok[2])
    return out


PRE = "const N = 4;\nconst K = vec2<i32>(4, 1);\n"

# (name, program text with {C} = count and {X} = closer, closer token, needs module const K)
CONTEXTS = [
    ("storage_array_of_arrays", PRE + "@group(0) @binding(0) var<storage, read_write> b: array<array<u32, {C}{X};\n"
     "@compute @workgroup_size(1) fn main() {{ b[0][1] = 7u; }}\n", ">>"),
    ("ptr_param", PRE + "fn f(p: ptr<function, array<f32, {C}{X}) -> f32 {{ return (*p)[1]; }}\n"
     "@group(0) @binding(0) var<storage, read_write> o: array<f32, 4>;\n"
     "@compute @workgroup_size(1) fn main() {{ var a = array<f32, 4>(1.0, 2.0, 3.0, 4.0); o[0] = f(&a); }}\n", ">>"),
    ("var_init_ge", PRE + "@group(0) @binding(0) var<storage, read_write> o: array<u32, 4>;\n"
     "@compute @workgroup_size(1) fn main() {{ var a: array<u32, {C}{X}array<u32, 4>(1u, 2u, 3u, 4u); o[0] = a[2]; }}\n", ">="),
    ("ptr_let_shr_assign", PRE + "@group(0) @binding(0) var<storage, read_write> o: array<u32, 4>;\n"
     "@compute @workgroup_size(1) fn main() {{ var a = array<u32, 4>(1u, 2u, 3u, 4u); let p: ptr<function, array<u32, {C}{X}&a; o[0] = (*p)[3]; }}\n", ">>="),
    ("nested_vec_elem", PRE + "@group(0) @binding(0) var<storage, read_write> b: array<array<vec2<f32>, {C}{X};\n"
     "@compute @workgroup_size(1) fn main() {{ b[0][1] = vec2<f32>(1.0, 2.0); }}\n", ">>"),
    ("workgroup_atomic_array", PRE + "var<workgroup> w: array<atomic<u32>, {C}>;\n@group(0) @binding(0) var<storage, read_write> b: array<array<atomic<u32>, {C}{X};\n"
     "@compute @workgroup_size(1) fn main() {{ atomicStore(&w[1], 1u); atomicStore(&b[0][1], atomicLoad(&w[1])); }}\n", ">>"),
    ("named_generic_ge", PRE + "@group(0) @binding(0) var<storage, read_write> o: array<f32, 4>;\n"
     "@compute @workgroup_size(1) fn main() {{ var a: array<vec2<f32>, {C}>; var v: vec2<f32{X}vec2<f32>(1.0, 2.0); let m: mat2x2<f32{X}mat2x2<f32>(1.0, 2.0, 3.0, 4.0); a[1] = v; o[0] = a[1].y + m[1].x; }}\n", ">="),
    ("ptr_scalar_ge", PRE + "@group(0) @binding(0) var<storage, read_write> o: array<f32, 4>;\n"
     "@compute @workgroup_size(1) fn main() {{ var a: array<f32, {C}>; var x = 1.5; let p: ptr<function, f32{X}&x; a[2] = *p; o[0] = a[2]; }}\n", ">="),
    ("ptr_vec_shr_assign", PRE + "@group(0) @binding(0) var<storage, read_write> o: array<f32, 4>;\n"
     "@compute @workgroup_size(1) fn main() {{ var a: array<f32, {C}>; var v = vec2<f32>(1.0, 2.0); let p: ptr<function, vec2<f32{X}&v; a[2] = (*p).y; o[0] = a[2]; }}\n", ">>="),
    ("bitcast_nested", PRE + "@group(0) @binding(0) var<storage, read_write> o: array<u32, 4>;\n"
     "@compute @workgroup_size(1) fn main() {{ var a: array<f32, {C}>; a[1] = 2.5; let v = vec2<f32>(a[1], 1.0); let u = bitcast<vec2<u32{X}(v); o[0] = u.x; }}\n", ">>"),
    ("alias_and_struct_member", PRE + "alias A = array<array<i32, {C}>, 2>;\nstruct S {{ m: array<array<i32, 2>, {C}>, n: array<vec4<f32>, {C}>, }}\n"
     "@group(0) @binding(0) var<storage, read_write> b: array<array<S, {C}{X};\n"
     "@compute @workgroup_size(1) fn main() {{ var a: A; a[1][3] = 5; b[0][1].m[3][1] = a[1][3]; }}\n", ">>"),
]


# a trailing comma directly after a TYPE argument (name<T,>), then the closers.  coq/Parse/ParserTypes.v (R_param_tc): the
# parser takes this comma only when the next token is a `>` of its own, so `vec2<f32,> >` is a rendering of the type and
# `vec2<f32,>>` (one `>>` token) is not - the two differ by a blank only.  (text with {T} = "" or ",", {X} = closer; token)
TYPE_COMMA = [
    ("ptr_vec", "@group(0) @binding(0) var<storage, read_write> o: array<f32, 4>;\n"
     "@compute @workgroup_size(1) fn main() {{ var v = vec2<f32>(1.0, 2.0); let p: ptr<function, vec2<f32{T}{X} = &v; o[0] = (*p).y; }}\n", ">>"),
    ("vec_init", "@group(0) @binding(0) var<storage, read_write> o: array<f32, 4>;\n"
     "@compute @workgroup_size(1) fn main() {{ var v: vec2<f32{T}{X}vec2<f32>(1.0, 2.0); o[0] = v.y; }}\n", ">="),
    ("array_of_mat", "@group(0) @binding(0) var<storage, read_write> o: array<f32, 4>;\n"
     "@compute @workgroup_size(1) fn main() {{ var a: array<mat2x2<f32{T}{X}, 2>; a[1][0].y = 2.0; let q: ptr<function, array<mat2x2<f32{T}{X}, 2>> = &a; o[0] = (*q)[1][0].y; }}\n", ">"),
    ("ptr_atomic", "var<workgroup> w: atomic<u32>;\n@group(0) @binding(0) var<storage, read_write> o: array<u32, 4>;\n"
     "@compute @workgroup_size(1) fn main() {{ let p: ptr<workgroup, atomic<u32{T}{X} = &w; atomicStore(p, 3u); o[0] = atomicLoad(p); }}\n", ">>"),
]


def type_comma_pairs():
    out = []
    for cname, text, tok in TYPE_COMMA:
        canon = text.format(T="", X=tok)
        for xi, x in enumerate(closers(tok)[:2] if len(tok) == 2 else [tok]):
            kind = "trailing-comma-type:" + ("adjacent" if xi == 0 and len(tok) == 2 else "spaced")
            out.append(("templ_tc_%s_x%d" % (cname, xi), canon, text.format(T=",", X=x), kind))
    return out


def pairs():
    """-> [(name, canonical source, edited source, edit kind)]; the canonical source of a variant spells the SAME count
    expression without redundant parentheses and the closer without gaps"""
    out = []
    for cname, text, tok in CONTEXTS:
        for ci, (plain, parens) in enumerate(COUNTS):
            canon = text.format(C=plain, X=tok)
            counts = [plain] + parens
            for k, c in enumerate(counts):
                for xi, x in enumerate(closers(tok)):
                    src = text.format(C=c, X=x)
                    if src == canon:
                        continue
                    kind = ("count-" + ("plain" if k == 0 else "parens")) + ":" + ("adjacent" if xi == 0 else "spaced")
                    out.append(("templ_%s_c%d_%d_x%d" % (cname, ci, k, xi), canon, src, kind))
            # trailing comma in the template list right before the closers
            for xi, x in enumerate(closers(tok)[:2]):
                out.append(("templ_%s_c%d_tcomma_x%d" % (cname, ci, xi), canon, text.format(C=plain + ",", X=x), "trailing-comma"))
                out.append(("templ_%s_c%d_tcomma_p_x%d" % (cname, ci, xi), canon, text.format(C="(" + plain + "),", X=x), "trailing-comma"))
    return out + type_comma_pairs()
