"""Reader for the subset of GLSL that naga's GLSL backend emits (property C05).

Trusted, simple and strict: a hand-written tokenizer and recursive-descent parser
producing the JSON AST decoded by coq/Glsl/Decode.v.  Anything outside the subset
raises OutOfFragment(reason) -- counted by the check, never flagged.

  parse(text) -> {"ast": {...}, "meta": {...}}

AST (every node a list, first element the tag):
  types  ["s",kind] ["v",kind,n] ["m",cols,rows] ["st",name] ["arr",elem,n|null] ["void"]
         (arrays: outermost dimension first, `float a[3][2]` = arr(arr(float,2),3))
  exprs  ["int",bits] ["uint",bits] ["float",bits32] ["bool",b] ["var",x] ["un",op,e] ["bin",op,a,b]
         ["cond",c,a,b] ["call",f,[args]] ["ctor",ty,[args]] ["field",e,name] ["index",e,i] ["length",e]
  stmts  ["decl",ty,x,init|null] ["assign",l,r] ["incr",l] ["expr",e] ["if",c,[..],[..]] ["while",c,[..]]
         ["dowhile",[..],c] ["for",[init],c,[step],[body]] ["switch",sel,[[[label|null,..],[..]],..]]
         ["break"] ["continue"] ["return",e|null] ["discard"] ["block",[..]]
meta: version, es, extensions, local_size, blocks (name, storage, layout, binding, readonly, instance, members),
      builtins (gl_* variables referenced), shared, functions.
"""
import re
from fractions import Fraction


class OutOfFragment(Exception):
    pass


class ReadError(Exception):
    """Text that is not GLSL at all by this grammar (distinct from a known-unsupported construct)."""
    pass


SCALARS = {"int": "int", "uint": "uint", "float": "float", "bool": "bool"}
VEC_PREFIX = {"vec": "float", "ivec": "int", "uvec": "uint", "bvec": "bool"}
UNSUPPORTED_TYPES = re.compile(
    r"^(double|dvec[234]|dmat.*|float16_t|f16vec[234]|f16mat.*|int64_t|uint64_t|i64vec[234]|u64vec[234]|atomic_uint|"
    r"[iu]?(sampler|image|texture)\w*|sampler|samplerShadow|accelerationStructureEXT|rayQueryEXT)$")

BUILTIN_VARS = {
    "gl_GlobalInvocationID": ["v", "uint", 3],
    "gl_LocalInvocationID": ["v", "uint", 3],
    "gl_WorkGroupID": ["v", "uint", 3],
    "gl_NumWorkGroups": ["v", "uint", 3],
    "gl_LocalInvocationIndex": ["s", "uint"],
}

TOKEN_RE = re.compile(r"""
    (?P<ws>[ \t\r\n]+)
  | (?P<lcomment>//[^\n]*)
  | (?P<bcomment>/\*.*?\*/)
  | (?P<float>(?:\d+\.\d*(?:[eE][+-]?\d+)?|\.\d+(?:[eE][+-]?\d+)?|\d+[eE][+-]?\d+)(?:lf|LF|f|F)?)
  | (?P<hex>0[xX][0-9a-fA-F]+[uU]?(?![\w.]))
  | (?P<int>\d+[uU]?(?![\w.]))
  | (?P<badnum>\d\w+)
  | (?P<id>[A-Za-z_]\w*)
  | (?P<op><<=|>>=|\+\+|--|<<|>>|<=|>=|==|!=|&&|\|\||\^\^|\+=|-=|\*=|/=|%=|&=|\|=|\^=|[-+*/%<>=!~&|^?:;,.(){}\[\]])
""", re.X | re.S)


def f32_bits(text):
    """Decimal literal -> binary32 bit pattern, correctly rounded (round-to-nearest-even),
    computed exactly with rationals (no double rounding)."""
    m = re.match(r"^(\d*)(?:\.(\d*))?(?:[eE]([+-]?\d+))?$", text)
    if not m or (not m.group(1) and not m.group(2)):
        raise ReadError("bad float literal " + text)
    ip, fp, ex = m.group(1) or "0", m.group(2) or "", int(m.group(3) or "0")
    q = Fraction(int(ip + fp), 1) * (Fraction(10) ** (ex - len(fp)))
    if q == 0:
        return 0
    # find e with 2^e <= q < 2^(e+1)
    e = q.numerator.bit_length() - q.denominator.bit_length()
    if Fraction(2) ** e > q:
        e -= 1
    if Fraction(2) ** (e + 1) <= q:
        e += 1
    e = max(e, -126)                      # subnormals share the exponent -126
    scaled = q / (Fraction(2) ** (e - 23))   # significand in units of the last place
    n = scaled.numerator // scaled.denominator
    rem = scaled - n
    if rem > Fraction(1, 2) or (rem == Fraction(1, 2) and n % 2 == 1):
        n += 1
    if n >= (1 << 24):
        n >>= 1
        e += 1
    if e > 127:
        return 0x7F800000                 # overflow to +inf
    if n < (1 << 23):
        return n                          # subnormal (or zero after rounding)
    return ((e + 127) << 23) | (n - (1 << 23))


class Tok:
    __slots__ = ("kind", "text", "pos")

    def __init__(self, kind, text, pos):
        self.kind, self.text, self.pos = kind, text, pos

    def __repr__(self):
        return "%s:%r" % (self.kind, self.text)


def tokenize(src):
    toks = []
    i = 0
    n = len(src)
    while i < n:
        m = TOKEN_RE.match(src, i)
        if not m:
            raise ReadError("cannot tokenize at %r" % src[i:i + 30])
        k = m.lastgroup
        if k == "badnum":
            if re.match(r"^\d+[uU]?[lL]$", m.group()):
                raise OutOfFragment("64-bit integer literal")
            raise ReadError("bad numeric literal %r" % m.group())
        if k not in ("ws", "lcomment", "bcomment"):
            toks.append(Tok(k, m.group(), i))
        i = m.end()
    toks.append(Tok("eof", "", n))
    return toks


class Parser:
    def __init__(self, text):
        self.meta = {"version": None, "es": False, "extensions": [], "local_size": None, "blocks": [],
                     "builtins": [], "shared": [], "functions": [], "precision": []}
        body = []
        for line in text.split("\n"):
            s = line.strip()
            if s.startswith("#"):
                self.directive(s)
                body.append("")
            else:
                body.append(line)
        self.toks = tokenize("\n".join(body))
        self.i = 0
        self.structs = {}        # name -> members
        self.struct_order = []
        self.globals = []
        self.funcs = []

    # ---- directives
    def directive(self, s):
        m = re.match(r"^#version\s+(\d+)(?:\s+(core|es|compatibility))?\s*$", s)
        if m:
            self.meta["version"] = int(m.group(1))
            self.meta["es"] = m.group(2) == "es"
            return
        m = re.match(r"^#extension\s+(\w+)\s*:\s*(\w+)\s*$", s)
        if m:
            self.meta["extensions"].append([m.group(1), m.group(2)])
            return
        raise OutOfFragment("preprocessor directive: " + s[:40])

    # ---- token helpers
    @property
    def t(self):
        return self.toks[self.i]

    def peek(self, k=1):
        return self.toks[min(self.i + k, len(self.toks) - 1)]

    def at(self, text):
        return self.t.kind in ("op", "id") and self.t.text == text

    def accept(self, text):
        if self.at(text):
            self.i += 1
            return True
        return False

    def expect(self, text):
        if not self.accept(text):
            raise ReadError("expected %r, got %r at %d" % (text, self.t.text, self.t.pos))

    def ident(self):
        if self.t.kind != "id":
            raise ReadError("expected identifier, got %r at %d" % (self.t.text, self.t.pos))
        s = self.t.text
        self.i += 1
        return s

    # ---- types
    def base_type(self, name):
        if name in SCALARS:
            return ["s", name]
        m = re.match(r"^([iub]?vec)([234])$", name)
        if m:
            return ["v", VEC_PREFIX[m.group(1)], int(m.group(2))]
        m = re.match(r"^mat([234])x([234])$", name)
        if m:
            return ["m", int(m.group(1)), int(m.group(2))]
        m = re.match(r"^mat([234])$", name)
        if m:
            return ["m", int(m.group(1)), int(m.group(1))]
        if name == "void":
            return ["void"]
        if name in self.structs:
            return ["st", name]
        if UNSUPPORTED_TYPES.match(name):
            raise OutOfFragment("type " + name)
        return None

    def is_type_name(self, name):
        try:
            return self.base_type(name) is not None
        except OutOfFragment:
            return True

    def dims(self):
        """[n][m]... -> list (None for [])"""
        out = []
        while self.at("["):
            self.i += 1
            if self.accept("]"):
                out.append(None)
            else:
                if self.t.kind != "int":
                    raise OutOfFragment("array size that is not an integer literal")
                out.append(int(self.t.text.rstrip("uU")))
                self.i += 1
                self.expect("]")
        return out

    @staticmethod
    def with_dims(base, dims):
        t = base
        for d in reversed(dims):
            t = ["arr", t, d]
        return t

    def type_spec(self):
        """type name possibly followed by array dimensions (constructor / return type position)"""
        name = self.ident()
        while name in ("highp", "mediump", "lowp"):
            name = self.ident()
        b = self.base_type(name)
        if b is None:
            raise ReadError("unknown type %s at %d" % (name, self.t.pos))
        return self.with_dims(b, self.dims())

    # ---- expressions
    BIN_LEVELS = [["||"], ["^^"], ["&&"], ["|"], ["^"], ["&"], ["==", "!="], ["<", ">", "<=", ">="],
                  ["<<", ">>"], ["+", "-"], ["*", "/", "%"]]

    def expr(self):
        c = self.binary(0)
        if self.accept("?"):
            a = self.expr()
            self.expect(":")
            b = self.expr()
            return ["cond", c, a, b]
        return c

    def binary(self, lvl):
        if lvl == len(self.BIN_LEVELS):
            return self.unary()
        left = self.binary(lvl + 1)
        while self.t.kind == "op" and self.t.text in self.BIN_LEVELS[lvl]:
            op = self.t.text
            self.i += 1
            right = self.binary(lvl + 1)
            if op == "^^":
                raise OutOfFragment("operator ^^")
            left = ["bin", op, left, right]
        return left

    def unary(self):
        if self.t.kind == "op" and self.t.text in ("-", "+", "!", "~"):
            op = self.t.text
            self.i += 1
            return ["un", op, self.unary()]
        if self.t.kind == "op" and self.t.text in ("++", "--"):
            raise OutOfFragment("prefix increment/decrement")
        return self.postfix()

    def args(self):
        self.expect("(")
        out = []
        if not self.accept(")"):
            while True:
                out.append(self.expr())
                if self.accept(")"):
                    break
                self.expect(",")
        return out

    def primary(self):
        t = self.t
        if t.kind == "int" or t.kind == "hex":
            self.i += 1
            s = t.text
            uns = s[-1] in "uU"
            if uns:
                s = s[:-1]
            v = int(s, 16) if t.kind == "hex" else int(s)
            if v >= (1 << 32):
                raise ReadError("integer literal does not fit in 32 bits: " + t.text)
            return ["uint" if uns else "int", v]
        if t.kind == "float":
            self.i += 1
            s = t.text
            if s[-2:] in ("lf", "LF"):
                raise OutOfFragment("double literal")
            if s[-1] in "fF":
                s = s[:-1]
            return ["float", f32_bits(s)]
        if t.kind == "id":
            name = t.text
            if name in ("true", "false"):
                self.i += 1
                return ["bool", name == "true"]
            if self.is_type_name(name) and self.peek().text in ("(", "["):
                ty = self.type_spec()
                if ty == ["void"]:
                    raise ReadError("void constructor")
                return ["ctor", ty, self.args()]
            self.i += 1
            if self.at("("):
                return ["call", name, self.args()]
            if name.startswith("gl_"):
                if name not in BUILTIN_VARS:
                    raise OutOfFragment("built-in variable " + name)
                if name not in self.meta["builtins"]:
                    self.meta["builtins"].append(name)
            return ["var", name]
        if t.kind == "op" and t.text == "(":
            self.i += 1
            e = self.expr()
            self.expect(")")
            return e
        raise ReadError("unexpected token %r at %d" % (t.text, t.pos))

    def postfix(self):
        e = self.primary()
        while True:
            if self.accept("["):
                i = self.expr()
                self.expect("]")
                e = ["index", e, i]
            elif self.at(".") :
                self.i += 1
                f = self.ident()
                if f == "length" and self.at("("):
                    self.i += 1
                    self.expect(")")
                    e = ["length", e]
                else:
                    e = ["field", e, f]
            else:
                return e

    # ---- statements
    def block(self):
        self.expect("{")
        out = []
        while not self.at("}"):
            if self.t.kind == "eof":
                raise ReadError("unterminated block")
            out.extend(self.statement())
        self.i += 1
        return out

    def branch(self):
        if self.at("{"):
            return self.block()
        return self.statement()

    def starts_decl(self):
        t = self.t
        if t.kind != "id":
            return False
        if t.text in ("const", "highp", "mediump", "lowp"):
            return True
        return self.is_type_name(t.text) and self.peek().kind == "id"

    def local_decl(self):
        if self.accept("const"):
            pass
        ty = self.ident()
        while ty in ("highp", "mediump", "lowp"):
            ty = self.ident()
        base = self.base_type(ty)
        if base is None or base == ["void"]:
            raise ReadError("bad declaration type " + ty)
        name = self.ident()
        t = self.with_dims(base, self.dims())
        init = None
        if self.accept("="):
            init = self.expr()
        if self.at(","):
            raise OutOfFragment("several declarators in one declaration")
        self.expect(";")
        return ["decl", t, name, init]

    def simple(self):
        """assignment / increment / expression statement, without the terminating ';'"""
        e = self.expr()
        if self.accept("="):
            r = self.expr()
            return ["assign", e, r]
        if self.accept("++"):
            return ["incr", e]
        if self.t.kind == "op" and self.t.text in ("+=", "-=", "*=", "/=", "%=", "&=", "|=", "^=", "<<=", ">>=", "--"):
            raise OutOfFragment("compound assignment " + self.t.text)
        return ["expr", e]

    def statement(self):
        """returns a list of statements (empty for ';')"""
        t = self.t
        if self.at("{"):
            return [["block", self.block()]]
        if self.accept(";"):
            return []
        if t.kind == "id":
            k = t.text
            if k == "if":
                self.i += 1
                self.expect("(")
                c = self.expr()
                self.expect(")")
                a = self.branch()
                b = []
                if self.accept("else"):
                    b = self.branch()
                return [["if", c, a, b]]
            if k == "while":
                self.i += 1
                self.expect("(")
                c = self.expr()
                self.expect(")")
                return [["while", c, self.branch()]]
            if k == "do":
                self.i += 1
                body = self.branch()
                self.expect("while")
                self.expect("(")
                c = self.expr()
                self.expect(")")
                self.expect(";")
                return [["dowhile", body, c]]
            if k == "for":
                self.i += 1
                self.expect("(")
                if self.accept(";"):
                    init = []
                elif self.starts_decl():
                    init = [self.local_decl()]
                else:
                    init = [self.simple()]
                    self.expect(";")
                c = ["bool", True] if self.at(";") else self.expr()
                self.expect(";")
                step = [] if self.at(")") else [self.simple()]
                self.expect(")")
                return [["for", init, c, step, self.branch()]]
            if k == "switch":
                self.i += 1
                self.expect("(")
                sel = self.expr()
                self.expect(")")
                self.expect("{")
                cases = []
                while not self.at("}"):
                    labels = []
                    while self.at("case") or self.at("default"):
                        if self.accept("default"):
                            labels.append(None)
                        else:
                            self.i += 1
                            labels.append(self.expr())
                        self.expect(":")
                    if not labels:
                        raise ReadError("statement before the first case label at %d" % self.t.pos)
                    body = []
                    while not (self.at("case") or self.at("default") or self.at("}")):
                        if self.t.kind == "eof":
                            raise ReadError("unterminated switch")
                        body.extend(self.statement())
                    cases.append([labels, body])
                self.i += 1
                return [["switch", sel, cases]]
            if k == "break":
                self.i += 1
                self.expect(";")
                return [["break"]]
            if k == "continue":
                self.i += 1
                self.expect(";")
                return [["continue"]]
            if k == "discard":
                self.i += 1
                self.expect(";")
                return [["discard"]]
            if k == "return":
                self.i += 1
                if self.accept(";"):
                    return [["return", None]]
                e = self.expr()
                self.expect(";")
                return [["return", e]]
            if self.starts_decl():
                return [self.local_decl()]
        s = self.simple()
        self.expect(";")
        return [s]

    # ---- top level
    def layout_quals(self):
        """layout(a, b = 1, ...) -> dict"""
        self.expect("(")
        q = {}
        while True:
            k = self.ident()
            v = True
            if self.accept("="):
                if self.t.kind != "int":
                    raise OutOfFragment("layout qualifier value that is not an integer literal")
                v = int(self.t.text.rstrip("uU"))
                self.i += 1
            q[k] = v
            if self.accept(")"):
                break
            self.expect(",")
        return q

    def members(self):
        self.expect("{")
        ms = []
        while not self.accept("}"):
            if self.at("layout"):
                raise OutOfFragment("layout qualifier on a member")
            tyname = self.ident()
            while tyname in ("highp", "mediump", "lowp"):
                tyname = self.ident()
            base = self.base_type(tyname)
            if base is None or base == ["void"]:
                raise ReadError("bad member type " + tyname)
            name = self.ident()
            ms.append([name, self.with_dims(base, self.dims())])
            self.expect(";")
        return ms

    def toplevel(self):
        while self.t.kind != "eof":
            self.declaration()
        ast = {"es": bool(self.meta["es"]), "version": self.meta["version"] or 0,
               "structs": [{"name": n, "members": self.structs[n]} for n in self.struct_order],
               "globals": self.globals, "funcs": self.funcs}
        for b in self.meta["builtins"]:
            ast["globals"].insert(0, {"name": b, "ty": BUILTIN_VARS[b], "kind": "builtin", "init": None, "block": ""})
        if self.meta["version"] is None:
            raise ReadError("no #version directive")
        return ast

    def add_struct(self, name, ms):
        if name in self.structs:
            raise ReadError("redefinition of struct " + name)
        self.structs[name] = ms
        self.struct_order.append(name)

    def declaration(self):
        if self.accept(";"):
            return
        if self.at("precision"):
            self.i += 1
            p = self.ident()
            ty = self.ident()
            self.expect(";")
            self.meta["precision"].append([p, ty])
            return
        if self.at("struct"):
            self.i += 1
            name = self.ident()
            ms = self.members()
            self.expect(";")
            self.add_struct(name, ms)
            return
        layout = None
        if self.at("layout"):
            self.i += 1
            layout = self.layout_quals()
            if self.at("in") and self.peek().text == ";":
                self.i += 2
                if "local_size_x" in layout:
                    self.meta["local_size"] = [layout.get("local_size_x", 1), layout.get("local_size_y", 1),
                                               layout.get("local_size_z", 1)]
                    return
                raise OutOfFragment("layout(...) in; that is not a compute layout")
        readonly = False
        storage = None
        while self.t.kind == "id" and self.t.text in ("readonly", "writeonly", "coherent", "volatile", "restrict",
                                                      "buffer", "uniform", "shared", "const", "in", "out", "flat",
                                                      "smooth", "noperspective", "centroid", "sample", "invariant",
                                                      "highp", "mediump", "lowp"):
            k = self.t.text
            self.i += 1
            if k == "readonly":
                readonly = True
            elif k in ("buffer", "uniform", "shared", "const"):
                if storage is not None:
                    raise ReadError("two storage qualifiers")
                storage = k
            elif k in ("highp", "mediump", "lowp"):
                pass
            elif k in ("in", "out", "flat", "smooth", "noperspective", "centroid", "sample", "invariant"):
                raise OutOfFragment("stage input/output declaration")
            else:
                raise OutOfFragment("memory qualifier " + k)
        if storage in ("buffer", "uniform") and self.t.kind == "id" and self.peek().text == "{":
            self.interface_block(storage, layout or {}, readonly)
            return
        if layout is not None:
            raise OutOfFragment("layout qualifier on a non-block declaration")
        if storage == "uniform":
            raise OutOfFragment("uniform outside of a block")
        if storage == "buffer":
            raise ReadError("buffer without a block")
        # variable or function
        tyname = self.ident()
        base = self.base_type(tyname)
        if base is None:
            raise ReadError("unknown type %s at top level" % tyname)
        rdims = self.dims()
        name = self.ident()
        if self.at("("):
            if storage is not None:
                raise ReadError("storage qualifier on a function")
            self.function(self.with_dims(base, rdims), name)
            return
        if rdims:
            raise OutOfFragment("array dimensions before the variable name")
        ty = self.with_dims(base, self.dims())
        init = None
        if self.accept("="):
            init = self.expr()
        self.expect(";")
        kind = {"shared": "shared", "const": "const", None: "plain"}[storage]
        if kind == "shared":
            self.meta["shared"].append(name)
        self.globals.append({"name": name, "ty": ty, "kind": kind, "init": init, "block": ""})

    def interface_block(self, storage, layout, readonly):
        bname = self.ident()
        ms = self.members()
        inst = None
        if self.t.kind == "id":
            inst = self.ident()
            if self.at("["):
                raise OutOfFragment("array of blocks")
        self.expect(";")
        packing = [k for k in ("std430", "std140", "shared", "packed") if k in layout]
        info = {"name": bname, "storage": storage, "layout": packing[0] if packing else None,
                "binding": layout.get("binding") if isinstance(layout.get("binding"), int) else None,
                "readonly": readonly, "instance": inst, "members": ms}
        for k in layout:
            if k not in ("std430", "std140", "binding"):
                raise OutOfFragment("block layout qualifier " + k)
        self.meta["blocks"].append(info)
        kind = "uniform" if (storage == "uniform" or readonly) else "buffer"
        if inst is not None:
            # block with an instance name: the instance is a variable whose type is the member list
            sname = bname
            self.add_struct(sname, ms)
            self.globals.append({"name": inst, "ty": ["st", sname], "kind": kind, "init": None, "block": bname})
        else:
            if len(ms) != 1:
                raise OutOfFragment("block without instance name and with several members")
            self.globals.append({"name": ms[0][0], "ty": ms[0][1], "kind": kind, "init": None, "block": bname})

    def function(self, ret, name):
        self.expect("(")
        params = []
        if self.at("void") and self.peek().text == ")":
            self.i += 1
        if not self.accept(")"):
            while True:
                qual = "in"
                while self.t.kind == "id" and self.t.text in ("in", "out", "inout", "const", "highp", "mediump", "lowp"):
                    if self.t.text in ("in", "out", "inout"):
                        qual = self.t.text
                    self.i += 1
                tyname = self.ident()
                base = self.base_type(tyname)
                if base is None or base == ["void"]:
                    raise ReadError("bad parameter type " + tyname)
                pname = self.ident()
                params.append([qual, self.with_dims(base, self.dims()), pname])
                if self.accept(")"):
                    break
                self.expect(",")
        if self.accept(";"):
            raise OutOfFragment("function prototype")
        body = self.block()
        self.meta["functions"].append(name)
        self.funcs.append({"name": name, "ret": ret, "params": params, "body": body})


# GLSL 4.60 / ES 3.20 built-in function names (chapter 8), to tell a call of an undeclared function from a built-in
GLSL_BUILTIN_FUNCTIONS = set("""
radians degrees sin cos tan asin acos atan sinh cosh tanh asinh acosh atanh pow exp log exp2 log2 sqrt inversesqrt
abs sign floor trunc round roundEven ceil fract mod modf min max clamp mix step smoothstep isnan isinf floatBitsToInt
floatBitsToUint intBitsToFloat uintBitsToFloat fma frexp ldexp packUnorm2x16 packSnorm2x16 packUnorm4x8 packSnorm4x8
unpackUnorm2x16 unpackSnorm2x16 unpackUnorm4x8 unpackSnorm4x8 packHalf2x16 unpackHalf2x16 packDouble2x32
unpackDouble2x32 length distance dot cross normalize faceforward reflect refract matrixCompMult outerProduct transpose
determinant inverse lessThan lessThanEqual greaterThan greaterThanEqual equal notEqual any all not uaddCarry usubBorrow
umulExtended imulExtended bitfieldExtract bitfieldInsert bitfieldReverse bitCount findLSB findMSB textureSize
textureQueryLod textureQueryLevels textureSamples texture textureProj textureLod textureOffset texelFetch
texelFetchOffset textureProjOffset textureLodOffset textureProjLod textureProjLodOffset textureGrad textureGradOffset
textureProjGrad textureProjGradOffset textureGather textureGatherOffset textureGatherOffsets atomicCounterIncrement
atomicCounterDecrement atomicCounter atomicAdd atomicMin atomicMax atomicAnd atomicOr atomicXor atomicExchange
atomicCompSwap imageSize imageSamples imageLoad imageStore imageAtomicAdd imageAtomicMin imageAtomicMax imageAtomicAnd
imageAtomicOr imageAtomicXor imageAtomicExchange imageAtomicCompSwap dFdx dFdy dFdxFine dFdyFine dFdxCoarse dFdyCoarse
fwidth fwidthFine fwidthCoarse interpolateAtCentroid interpolateAtSample interpolateAtOffset barrier memoryBarrier
memoryBarrierAtomicCounter memoryBarrierBuffer memoryBarrierShared memoryBarrierImage groupMemoryBarrier
subgroupBarrier subgroupMemoryBarrier subgroupMemoryBarrierBuffer subgroupMemoryBarrierShared subgroupMemoryBarrierImage
subgroupElect subgroupAll subgroupAny subgroupAllEqual subgroupBroadcast subgroupBroadcastFirst subgroupBallot
subgroupAdd subgroupMul subgroupMin subgroupMax subgroupAnd subgroupOr subgroupXor subgroupInclusiveAdd
subgroupInclusiveMul subgroupExclusiveAdd subgroupExclusiveMul subgroupShuffle subgroupShuffleXor subgroupShuffleUp
subgroupShuffleDown subgroupQuadBroadcast subgroupQuadSwapHorizontal subgroupQuadSwapVertical subgroupQuadSwapDiagonal
EmitVertex EndPrimitive
""".split())


class IllFormed(Exception):
    """well-formed token stream, but not a GLSL program: a call of a function that is neither declared nor built in"""
    pass


def check_calls(ast):
    declared = set()
    for f in ast["funcs"]:
        for c in called_functions(f["body"]):
            if c not in declared and c != f["name"] and c not in GLSL_BUILTIN_FUNCTIONS:
                raise IllFormed("call of the undeclared function %s in %s (functions must be declared before use)" % (c, f["name"]))
        declared.add(f["name"])


def parse(text):
    p = Parser(text)
    ast = p.toplevel()
    check_calls(ast)
    return {"ast": ast, "meta": p.meta}


# ---------------------------------------------------------------- helpers used by the probe and the check

def walk_exprs(node, f):
    """call f on every expression node (lists starting with an expression tag) below a statement/expression"""
    if isinstance(node, list):
        if node and isinstance(node[0], str) and node[0] in EXPR_TAGS:
            f(node)
        for x in node:
            walk_exprs(x, f)


EXPR_TAGS = {"int", "uint", "float", "bool", "var", "un", "bin", "cond", "call", "ctor", "field", "index", "length"}


def called_functions(node):
    out = []

    def f(e):
        if e[0] == "call":
            out.append(e[1])
    walk_exprs(node, f)
    return out


if __name__ == "__main__":
    import json
    import sys
    r = parse(open(sys.argv[1]).read())
    json.dump(r, sys.stdout, indent=1)
