"""C11: generator of (valid program, rule, site) triples.

A *template* is a valid WGSL program with holes  {{K|site_kind|type|default}}:
    K = E  expression hole of WGSL type `type`   (default = a valid expression)
        S  statement hole                         (default empty)
        T  type hole                              (default = a valid type)
        A  attribute-list hole                    (default = the valid attribute list)
        D  module-scope declaration hole          (default empty)
The valid program is the template with every hole filled by its default.  A
rule-breaking program fills exactly ONE hole with a snippet that breaks exactly
one diagnosed rule (the rest of the program stays valid), so the site kind of the
violation is the hole's site kind.  Syntax rules (missing semicolon, unbalanced
delimiter) are token-level edits of the valid token list; they are applied to
template programs and to the repository's own shaders.

Programs are handled as token lists and rendered with a seeded layout, so the
line:column of every token is known by construction (and cross-checked against the
real lexer through a fingerprint returned by harness/cmd/c11drive)."""
import re

# ------------------------------------------------------------------ tokenizer (templates only; ASCII)

OPS = ["<<=", ">>=", "->", "++", "--", "==", "!=", "<=", ">=", "&&", "||", "<<", ">>", "+=", "-=", "*=", "/=", "%=",
       "&=", "|=", "^=", "+", "-", "*", "/", "%", "&", "|", "^", "~", "!", "=", "<", ">", ".", ",", ":", ";", "@",
       "(", ")", "{", "}", "[", "]"]
TOK_RE = re.compile(r"\s+|//[^\n]*|([A-Za-z_][A-Za-z0-9_]*)|(0[xX][0-9a-fA-F]+[iu]?|[0-9]+\.[0-9]*(?:[eE][+-]?[0-9]+)?[fh]?|[0-9]+[eE][+-]?[0-9]+[fh]?|\.[0-9]+[fh]?|[0-9]+[iufh]?)|(" +
                    "|".join(re.escape(o) for o in OPS) + ")")


def tokenize(text):
    out = []
    i = 0
    n = len(text)
    while i < n:
        m = TOK_RE.match(text, i)
        if not m:
            raise ValueError("cannot tokenize at %r" % text[i:i + 20])
        if m.group(1) or m.group(2) or m.group(3):
            out.append(m.group(0))
        i = m.end()
    return out


# ------------------------------------------------------------------ templates

T1 = """
struct S { a: i32, b: f32, v: vec3<f32>, }
struct Light { pos: vec3<f32>, color: vec4<f32>, arr: {{T|struct_member_type||array<f32, 4>}}, }
alias AI = {{T|alias_target||i32}};
const ZERO = 0;
const GIDX = 2;
fn leaf0() -> i32 { return 7; }
fn leaf2(a: i32, b: i32) -> i32 { return a - b; }
fn leafv(v: vec2<f32>) -> f32 { return v.y; }
@must_use fn mu(a: i32) -> i32 { return a * 2; }
const ONE: i32 = {{E|module_const_init|i32|1}};
const CF: f32 = {{E|module_const_init|f32|2.0}};
const CV = vec3<f32>({{E|module_const_ctor_arg|f32|1.0}}, 2.0, 3.0);
const CB: bool = {{E|module_const_init|bool|true}};
const CT: {{T|module_const_type||i32}} = 7;
override OT: {{T|override_type||f32}} = 1.5;
override OV: i32 = {{E|override_init|i32|3}};
var<private> gi: i32 = {{E|global_var_init|i32|4}};
var<private> gf: f32;
var<private> gv3: vec3<f32>;
var<private> gs: S;
var<private> garr: {{T|global_var_type||array<i32, 8>}};
var<workgroup> wg: array<u32, 4>;
{{A|res_uniform||@group(0) @binding(0)}} var<uniform> ub: Light;
{{A|res_storage||@group(0) @binding(1)}} var<storage, read_write> sb: array<vec4<f32>>;
{{A|res_texture||@group(0) @binding(2)}} var tex: texture_2d<f32>;
{{A|res_sampler||@binding(3) @group(0)}} var smp: sampler;
{{D|module_scope||}}
fn helper_i(a: i32, b: i32) -> i32 { {{S|helper_body||}} return a + {{E|helper_return|i32|b}}; }
fn helper_void(p: f32) { }
fn tp_param(p: {{T|param_type||f32}}) { }
fn helper_ret() -> {{T|return_type||f32}} { return 1.0; }
fn helper_ptr(p: ptr<function, {{T|ptr_pointee_type||i32}}>) { }
fn big(n: i32) -> i32 {
  var acc: i32 = {{E|var_init|i32|0}};
  let k = {{E|let_init|i32|n}};
  let kt: {{T|let_type||i32}} = 1;
  const lc = {{E|local_const_init|i32|5}};
  const lct: {{T|local_const_type||i32}} = 2;
  var vti: {{T|local_var_type_with_init||i32}} = 3;
  var lv: {{T|local_var_type||vec3<f32>}};
  {{S|fn_body_top||}}
  { {{S|nested_block||}} { {{S|nested_block2||}} acc += {{E|nested_block_expr|i32|1}}; } }
  if {{E|if_cond|bool|n > 1}} { {{S|if_body||}} } else if {{E|elseif_cond|bool|n > 2}} { {{S|elseif_body||}} } else { {{S|else_body||}} }
  for (var i = {{E|for_init|i32|0}}; i < {{E|for_cond|i32|4}}; i += {{E|for_update|i32|1}}) { {{S|for_body||}} acc += i; }
  while {{E|while_cond|bool|acc < 100}} { {{S|while_body||}} acc += 7; }
  loop { {{S|loop_body||}} acc += 1; if acc > 200 { break; } continuing { {{S|continuing||}} acc += {{E|continuing_expr|i32|1}}; break if {{E|break_if|bool|acc > 300}}; } }
  switch {{E|switch_selector|i32|n}} { case 1: { {{S|case_body||}} acc += 1; } case 2, 3: { acc += 2; } default: { {{S|default_body||}} } }
  acc = {{E|assign_rhs|i32|acc + 1}};
  garr[{{E|index_expr|i32|1}}] = 2;
  acc += {{E|compound_rhs|i32|2}};
  acc = helper_i({{E|user_call_arg|i32|acc}}, 1);
  acc = max({{E|builtin_arg|i32|acc}}, 3);
  acc = i32(dot(gv3, vec3<f32>({{E|ctor_arg_in_builtin|f32|1.0}}, 0.0, 0.0)));
  lv = select(gv3, lv, {{E|select_cond|bool|true}});
  acc = -({{E|unary_operand|i32|acc}});
  acc = acc * ({{E|paren_expr|i32|2}} + 1);
  let mr = mu({{E|must_use_fn_arg|i32|1}});
  _ = {{E|phony_rhs|i32|acc}};
  lv.x = {{E|member_assign_rhs|f32|1.0}};
  helper_void({{E|void_call_arg|f32|2.0}});
  return {{E|return_expr|i32|acc + k + lc + mr + kt}};
}
@vertex fn vs(@builtin(vertex_index) vi: u32) -> @builtin(position) vec4<f32> { {{S|vertex_body||}} let p = {{E|vertex_expr|f32|1.0}}; return vec4<f32>(p, 0.0, 0.0, 1.0); }
@fragment fn fs(@location(0) uv: vec2<f32>) -> @location(0) vec4<f32> { {{S|fragment_body||}} let c = textureSample(tex, smp, {{E|texture_arg|vec2<f32>|uv}}); return c * {{E|fragment_expr|f32|ub.color.x}}; }
{{A|compute_attrs||@compute @workgroup_size(64)}} fn cs(@builtin(global_invocation_id) gid: vec3<u32>) { {{S|compute_body||}} sb[gid.x] = vec4<f32>(f32(big({{E|compute_expr|i32|1}}))); wg[0] = 1u; }
{{A|compute_attrs_rev||@workgroup_size(8, 8) @compute}} fn cs2() { wg[1] = 2u; }
"""

# a second, differently shaped program: parenthesised conditions, nested calls, struct values,
# matrices, arrays of structs, early returns, helper chains, pointer arguments
T2 = """
enable f16;
struct P { pos: vec4<f32>, n: vec3<f32>, id: u32, }
struct Q { items: array<P, 2>, m: mat2x2<f32>, w: {{T|struct_member_type||vec2<f32>}}, }
const N: u32 = 4u;
const ZERO = 0;
const GIDX = 2;
fn leaf0() -> f32 { return 7.0; }
fn leaf2(a: f32, b: f32) -> f32 { return a - b; }
fn leafv(v: vec2<f32>) -> f32 { return v.y; }
const TABLE = array<i32, 3>({{E|const_array_elem|i32|1}}, 2, 3);
const M = mat2x2<f32>(1.0, {{E|const_mat_elem|f32|0.0}}, 0.0, 1.0);
var<private> q: Q;
var<private> cnt: u32 = N;
{{A|res_storage_ro||@group(1) @binding(0)}} var<storage, read> inp: array<P>;
{{A|res_storage_tex||@group(1) @binding(1)}} var outp: texture_storage_2d<rgba8unorm, write>;
{{D|module_scope_between||}}
fn sq(x: f32) -> f32 { return x * {{E|helper_return|f32|x}}; }
fn twice(x: f32) -> f32 { return sq(sq({{E|nested_user_call_arg|f32|x}})); }
fn pick(p: P, i: u32) -> f32 { if (i == 0u) { return p.pos.x; } {{S|after_early_return||}} return p.n[{{E|vec_index_expr|u32|i}}]; }
fn bump(r: ptr<function, u32>) { *r = *r + {{E|deref_assign_rhs|u32|1u}}; }
@must_use fn total(a: f32, b: f32) -> f32 { return a + b; }
fn work(i: u32) -> f32 {
  var t: f32 = 0.0;
  var u: u32 = i;
  bump(&u);
  var arr = array<f32, 4>(1.0, 2.0, {{E|local_array_elem|f32|3.0}}, 4.0);
  for (var j: u32 = 0u; (j < N); j++) {
    if ((j & 1u) == {{E|nested_if_cond_operand|u32|0u}}) { {{S|if_in_for||}} continue; }
    switch (j) { case 1u: { {{S|switch_in_for||}} t += arr[j]; } default: { t -= 1.0; } }
    loop { {{S|loop_in_for||}} if (t > {{E|loop_in_for_cond|f32|10.0}}) { break; } t += 5.0; continuing { {{S|continuing_in_for||}} } }
  }
  t = total(twice({{E|arg_of_nested_call|f32|t}}), pick(inp[i], {{E|second_call_arg|u32|u}}));
  t += (M * vec2<f32>(t, {{E|ctor_arg_matmul|f32|1.0}})).x;
  t = clamp(t, {{E|builtin_arg_mid|f32|0.0}}, f32(TABLE[{{E|const_index|i32|2}}]));
  q.items[{{E|lhs_index|i32|1}}].pos = vec4<f32>(t);
  let b: bool = {{E|let_typed_init|bool|t > 1.0}} && (u != {{E|shortcircuit_rhs_operand|u32|3u}});
  if (b) { return {{E|early_return_expr|f32|t}}; }
  return sqrt(abs({{E|nested_builtin_arg|f32|t}}));
}
@compute @workgroup_size(4, 2) fn main(@builtin(local_invocation_id) lid: vec3<u32>, @builtin(local_invocation_index) li: u32) {
  {{S|entry_body||}}
  let r = work({{E|entry_call_arg|u32|li}});
  textureStore(outp, vec2<i32>(i32(lid.x), {{E|texturestore_coord|i32|0}}), vec4<f32>(r, 0.0, 0.0, 1.0));
}
"""

TEMPLATES = {"T1": T1, "T2": T2}

HOLE_RE = re.compile(r"\{\{([ESTAD])\|([a-z0-9_]+)\|([^|]*)\|([^}]*)\}\}")

# sites that are WGSL const-expression contexts: snippets that need run-time values or user calls do not apply
CONST_SITES = {"module_const_init", "module_const_ctor_arg", "override_init", "global_var_init", "local_const_init",
               "const_array_elem", "const_mat_elem"}
# statement holes that sit inside a `continuing` block or after which control flow is restricted
# (every snippet used in statement holes is a plain statement; allowed there)


class Hole:
    def __init__(self, kind, site, typ, default, start, end):
        self.kind, self.site, self.typ, self.default, self.start, self.end = kind, site, typ, default, start, end


def holes_of(tmpl):
    return [Hole(m.group(1), m.group(2), m.group(3), m.group(4), m.start(), m.end()) for m in HOLE_RE.finditer(tmpl)]


MARK_L = "__C11_EDIT_BEGIN__"
MARK_R = "__C11_EDIT_END__"


_PIECES = {}
_SNIPPET_TOKS = {}


def _pieces(tmpl):
    """(token lists of the text between holes, token lists of the hole defaults), tokenised once"""
    if tmpl not in _PIECES:
        texts = []
        defaults = []
        pos = 0
        for h in holes_of(tmpl):
            texts.append(tokenize(tmpl[pos:h.start]))
            defaults.append(tokenize(h.default))
            pos = h.end
        texts.append(tokenize(tmpl[pos:]))
        _PIECES[tmpl] = (texts, defaults)
    return _PIECES[tmpl]


def fill(tmpl, hole_index=None, snippet=None):
    """Token list of the template with defaults everywhere except hole `hole_index`
    (filled with `snippet`).  Returns (lexemes, (first, last+1) token range of the snippet or None).
    Holes are always separated from their surroundings by blanks, so tokenising piecewise
    equals tokenising the filled text."""
    texts, defaults = _pieces(tmpl)
    out = []
    rng = None
    for k, d in enumerate(defaults):
        out += texts[k]
        if k == hole_index:
            st = _SNIPPET_TOKS.get(snippet)
            if st is None:
                st = _SNIPPET_TOKS[snippet] = tokenize(snippet)
            rng = (len(out), len(out) + len(st))
            out += st
        else:
            out += d
    out += texts[-1]
    return out, rng


# ------------------------------------------------------------------ rule-breaking snippets

# expression breakers: (rule, variant, natural type, const_ok, text).  natural type 'any' = goes in as is.
# Names referenced exist in both templates' preludes where marked; per-template name maps below.
def expr_breakers(tname):
    if tname == "T1":
        vec3_var, struct_var, struct_ctor = "gv3", "gs", "S(1, 2.0, vec3<f32>(1.0))"
        fn2, fn2_ok_args = "leaf2", ("1", "2")
        fnv, fnv_bad, fnv_bad2 = "leafv", "vec2<i32>(1, 2)", "vec3<f32>(1.0)"
    else:
        vec3_var, struct_var, struct_ctor = "q.items[0].n", "q", "P(vec4<f32>(1.0), vec3<f32>(1.0), 1u)"
        fn2, fn2_ok_args = "leaf2", ("1.0", "2.0")
        fnv, fnv_bad, fnv_bad2 = "leafv", "vec2<u32>(1u, 2u)", "vec4<f32>(1.0)"
    B = []
    add = lambda rule, variant, typ, const_ok, text: B.append((rule, variant, typ, const_ok, text))
    # undeclared identifier
    add("undeclared_identifier", "bare", "any", True, "nosuch_ident_q7")
    add("undeclared_identifier", "operand", "i32", True, "(1 + nosuch_ident_q7)")
    add("undeclared_identifier", "in_ctor", "f32", True, "vec2<f32>(nosuch_ident_q7, 1.0).x")
    add("undeclared_identifier", "in_builtin", "f32", True, "abs(nosuch_ident_q7)")
    add("undeclared_identifier", "member_base", "f32", True, "nosuch_ident_q7.x")
    add("undeclared_identifier", "index_base", "f32", True, "nosuch_ident_q7[0]")
    add("undeclared_identifier", "addr_of", "i32", False, "(*(&nosuch_ident_q7))")
    # undeclared function
    add("undeclared_function", "call", "any", True, "nosuch_fn_q7(1)")
    add("undeclared_function", "call_noargs", "any", True, "nosuch_fn_q7()")
    add("undeclared_function", "nested_in_builtin", "f32", True, "abs(nosuch_fn_q7(1.0))")
    # undeclared type (used as constructor / template argument in an expression)
    add("undeclared_type", "vec_elem", "f32", True, "vec2<nosuch_t_q7>(1.0).x")
    add("undeclared_type", "array_elem_ctor", "f32", True, "array<nosuch_t_q7, 2>(1.0, 2.0)[0]")
    add("undeclared_type", "bitcast_target", "f32", True, "bitcast<nosuch_t_q7>(1.0)")
    # unknown struct member
    add("unknown_member", "of_variable", "f32", False, "%s.nosuch_member" % struct_var)
    add("unknown_member", "of_value", "f32", True, "%s.nosuch_member" % struct_ctor)
    # user-function call: wrong number of arguments
    add("arg_count", "one_more", "fnret", False, "%s(%s, %s, %s)" % (fn2, fn2_ok_args[0], fn2_ok_args[1], fn2_ok_args[0]))
    add("arg_count", "one_less", "fnret", False, "%s(%s)" % (fn2, fn2_ok_args[0]))
    add("arg_count", "none", "fnret", False, "%s()" % fn2)
    add("arg_count", "extra_for_zero_arg_fn", "fnret", False, "leaf0(%s)" % fn2_ok_args[0])
    # user-function call: wrong argument types
    add("arg_type", "bool_for_number", "fnret", False, "%s(true, %s)" % (fn2, fn2_ok_args[1]))
    add("arg_type", "wrong_scalar_kind", "fnret", False, "%s(%s, %s)" % (fn2, "1u" if tname == "T1" else "1i", fn2_ok_args[1]))
    add("arg_type", "vector_for_scalar", "fnret", False, "%s(vec2<f32>(1.0), %s)" % (fn2, fn2_ok_args[1]))
    add("arg_type", "abstract_float_for_int" if tname == "T1" else "bool_second", "fnret", False,
        "%s(%s, %s)" % (fn2, "1.5" if tname == "T1" else "1.0", fn2_ok_args[1] if tname == "T1" else "false"))
    add("arg_type", "vector_wrong_elem_or_shape", "f32", False, "%s(%s)" % (fnv, fnv_bad))
    add("arg_type", "vector_wrong_size", "f32", False, "%s(%s)" % (fnv, fnv_bad2))
    # swizzles
    add("swizzle_mixed", "xg_var", "vec2<f32>", False, "%s.xg" % vec3_var)
    add("swizzle_mixed", "rgbw_value", "vec4<f32>", True, "vec4<f32>(1.0).rgbw")
    add("swizzle_mixed", "ry_value", "vec2<f32>", True, "vec3<f32>(1.0, 2.0, 3.0).ry")
    add("swizzle_too_wide", "w_of_vec3_var", "f32", False, "%s.w" % vec3_var)
    add("swizzle_too_wide", "a_of_vec3_value", "f32", True, "vec3<f32>(1.0, 2.0, 3.0).a")
    add("swizzle_too_wide", "xz_of_vec2_value", "vec2<f32>", True, "vec2<f32>(1.0, 2.0).xz")
    add("swizzle_too_wide", "xyzw_of_vec3_var", "vec4<f32>", False, "%s.xyzw" % vec3_var)
    add("swizzle_too_wide", "five_letters", "f32", True, "vec4<f32>(1.0).xyzwx.x")
    add("swizzle_too_wide", "b_of_vec2_int_value", "i32", True, "vec2<i32>(1, 2).b")
    # constant division by zero
    add("const_div_zero", "abstract_div", "i32", True, "(1 / 0)")
    add("const_div_zero", "abstract_mod", "i32", True, "(7 % 0)")
    add("const_div_zero", "i32_div", "i32", True, "(1i / 0i)")
    add("const_div_zero", "u32_mod", "u32", True, "(7u % 0u)")
    add("const_div_zero", "u32_div", "u32", True, "(7u / 0u)")
    add("const_div_zero", "named_zero", "i32", True, "(1 / ZERO)")
    add("const_div_zero", "nested", "i32", True, "(2 * (3 / (1 - 1)))")
    # non-positive array size inside an expression
    add("nonpositive_array_size", "ctor_zero", "i32", True, "array<i32, 0>()[0]")
    add("nonpositive_array_size", "ctor_negative", "i32", True, "array<i32, -1>()[0]")
    return B


FNRET = {"T1": "i32", "T2": "f32"}

# conversions between the natural type of a snippet and the hole type (all total, value-preserving enough)
def convert(text, frm, to):
    if frm == "any" or frm == to:
        return text
    scalar = {"i32", "u32", "f32", "bool"}
    if frm.startswith("vec"):
        elem = frm[frm.index("<") + 1:-1]
        return convert("(%s).x" % text, elem, to)
    if frm in scalar and to in scalar:
        if to == "bool":
            one = {"i32": "1", "u32": "1u", "f32": "1.0"}[frm]
            return "(%s == %s)" % (text, one)
        if frm == "bool":
            return "select(%s, %s, %s)" % ({"i32": ("0", "1"), "u32": ("0u", "1u"), "f32": ("0.0", "1.0")}[to] + (text,))
        return "%s(%s)" % (to, text)
    if to.startswith("vec"):
        elem = to[to.index("<") + 1:-1]
        return "%s(%s)" % (to, convert(text, frm, elem))
    raise ValueError((frm, to))


def stmt_breakers(tname):
    mu = "mu(1)" if tname == "T1" else "total(1.0, 2.0)"
    one = "ONE" if tname == "T1" else "N"
    B = [
        ("must_use_discarded", "call_stmt", "%s;" % mu),
        ("must_use_discarded", "call_stmt_in_block", "{ %s; }" % mu),
        ("must_use_discarded", "call_stmt_in_if", "if true { %s; }" % mu),
        ("const_assert_false", "literal_false", "const_assert false;"),
        ("const_assert_false", "paren_false", "const_assert(false);"),
        ("const_assert_false", "not_true", "const_assert !true;"),
        ("const_assert_false", "int_compare", "const_assert 1 > 2;"),
        ("const_assert_false", "int_eq_arith", "const_assert 1 + 1 == 3;"),
        ("const_assert_false", "named_const_compare", "const_assert %s == %s;" % (one, "2" if tname == "T1" else "5u")),
        ("const_assert_false", "and_chain", "const_assert true && (2 < 1);"),
        ("const_assert_false", "float_compare", "const_assert 1.5 > 2.5;"),
        ("const_assert_false", "builtin_call", "const_assert max(1, 2) == 1;"),
        ("const_assert_false", "vector_all", "const_assert all(vec2(true, false));"),
        ("const_assert_false", "bool_eq", "const_assert true == false;"),
        ("const_assert_false", "u32_compare", "const_assert 3u <= 2u;"),
        # statements whose expression breaks an expression rule (statement position, not an existing expression)
        ("undeclared_identifier", "assign_target", "nosuch_ident_q7 = 1;"),
        ("undeclared_identifier", "let_stmt", "let zz_q7 = nosuch_ident_q7;"),
        ("undeclared_identifier", "in_const_assert", "const_assert nosuch_ident_q7 == 1;"),
        ("undeclared_function", "call_stmt", "nosuch_fn_q7();"),
        ("undeclared_type", "var_stmt", "var zz_q7: nosuch_t_q7;"),
        ("undeclared_identifier", "array_size_var_stmt", "var zz_q7: array<f32, nosuch_ident_q7>;"),
        ("nonpositive_array_size", "var_stmt_zero", "var zz_q7: array<f32, 0>;"),
        ("nonpositive_array_size", "var_stmt_negative", "var zz_q7: array<f32, -1>;"),
        ("arg_count", "call_stmt_extra", "helper_void(1.0, 2.0);" if tname == "T1" else "bump();"),
        ("const_div_zero", "let_stmt", "let zz_q7 = 1 / 0;"),
        ("const_div_zero", "const_stmt", "const zz_q7 = 1 / 0;"),
        ("const_div_zero", "const_stmt_u32_mod", "const zz_q7: u32 = 7u % 0u;"),
    ]
    return B


def decl_breakers(tname):
    """module-scope declarations inserted into a D hole"""
    one = "ONE" if tname == "T1" else "N"
    B = [(r, v, t) for (r, v, t) in stmt_breakers(tname) if r == "const_assert_false" or v == "in_const_assert"]
    B += [
        ("undeclared_identifier", "const_decl", "const zz_q7 = nosuch_ident_q7;"),
        ("undeclared_identifier", "global_var_init", "var<private> zz_q7: i32 = nosuch_ident_q7;"),
        ("undeclared_identifier", "override_init", "override zz_q7: i32 = nosuch_ident_q7;"),
        ("undeclared_identifier", "array_size_global", "var<private> zz_q7: array<f32, nosuch_ident_q7>;"),
        ("undeclared_type", "global_var", "var<private> zz_q7: nosuch_t_q7;"),
        ("undeclared_type", "alias", "alias zz_q7 = nosuch_t_q7;"),
        ("undeclared_type", "struct_member", "struct zz_q7 { m: nosuch_t_q7, }"),
        ("undeclared_type", "fn_param", "fn zz_q7(p: nosuch_t_q7) { }"),
        ("undeclared_type", "fn_result", "fn zz_q7() -> nosuch_t_q7 { }"),
        ("undeclared_function", "const_decl", "const zz_q7 = nosuch_fn_q7(1);"),
        ("nonpositive_array_size", "global_zero", "var<private> zz_q7: array<f32, 0>;"),
        ("nonpositive_array_size", "global_negative", "var<private> zz_q7: array<f32, -1>;"),
        ("nonpositive_array_size", "global_zero_u", "var<private> zz_q7: array<f32, 0u>;"),
        ("nonpositive_array_size", "global_named_zero", "var<private> zz_q7: array<f32, ZERO>;"),
        ("nonpositive_array_size", "global_computed_zero", "var<private> zz_q7: array<f32, 2 - 2>;"),
        ("nonpositive_array_size", "global_computed_negative", "var<private> zz_q7: array<f32, 2 - 3>;"),
        ("nonpositive_array_size", "workgroup_zero", "var<workgroup> zz_q7: array<u32, 0>;"),
        ("nonpositive_array_size", "alias_zero", "alias zz_q7 = array<i32, 0>;"),
        ("nonpositive_array_size", "struct_member_zero", "struct zz_q7 { m: array<i32, 0>, }"),
        ("nonpositive_array_size", "nested_inner_zero", "var<private> zz_q7: array<array<f32, 0>, 2>;"),
        ("const_div_zero", "const_decl", "const zz_q7 = 1 / 0;"),
        ("const_div_zero", "const_decl_typed_i32", "const zz_q7: i32 = 1 / 0;"),
        ("const_div_zero", "const_decl_u32_mod", "const zz_q7: u32 = 7u % 0u;"),
        ("const_div_zero", "const_decl_named", "const zz_q7 = 4 / ZERO;"),
        ("const_div_zero", "global_var_init", "var<private> zz_q7: i32 = 1 / 0;"),
        ("const_div_zero", "override_init", "override zz_q7: i32 = 1 / 0;"),
        ("const_div_zero", "array_size", "var<private> zz_q7: array<f32, 4 / 0>;"),
        ("group_binding_pairing", "group_only_new_uniform", "@group(2) var<uniform> zz_q7: vec4<f32>;"),
        ("group_binding_pairing", "binding_only_new_uniform", "@binding(7) var<uniform> zz_q7: vec4<f32>;"),
        ("group_binding_pairing", "group_only_named_const", "@group(GIDX) var<uniform> zz_q7: vec4<f32>;"),
        ("group_binding_pairing", "binding_only_named_const", "@binding(GIDX) var<uniform> zz_q7: vec4<f32>;"),
        ("group_binding_pairing", "group_only_sampler", "@group(2) var zz_q7: sampler;"),
        ("group_binding_pairing", "binding_only_texture", "@binding(7) var zz_q7: texture_2d<f32>;"),
        ("missing_workgroup_size", "new_compute_entry", "@compute fn zz_q7() { }"),
        ("must_use_discarded", "in_new_function", "fn zz_q7() { %s; }" % ("mu(1)" if tname == "T1" else "total(1.0, 2.0)")),
        ("arg_count", "in_new_function", "fn zz_q7() { _ = leaf2(%s); }" % ("1" if tname == "T1" else "1.0")),
    ]
    return B


TYPE_BREAKERS = [
    ("undeclared_type", "bare", "nosuch_t_q7"),
    ("undeclared_type", "array_elem", "array<nosuch_t_q7, 4>"),
    ("undeclared_type", "vec_elem", "vec3<nosuch_t_q7>"),
    ("undeclared_identifier", "array_size", "array<f32, nosuch_ident_q7>"),
    ("nonpositive_array_size", "zero", "array<f32, 0>"),
    ("nonpositive_array_size", "negative", "array<f32, -1>"),
    ("nonpositive_array_size", "zero_u", "array<f32, 0u>"),
    ("nonpositive_array_size", "computed_zero", "array<f32, 3 - 3>"),
    ("nonpositive_array_size", "nested_zero", "array<array<f32, 0>, 2>"),
]


def attr_breakers(site, default):
    """attribute-list holes: drop one of @group/@binding, or @workgroup_size"""
    toks = default.split()
    out = []
    if site.startswith("res_"):
        g = [t for t in toks if t.startswith("@group")]
        b = [t for t in toks if t.startswith("@binding")]
        out.append(("group_binding_pairing", "group_without_binding", " ".join(g)))
        out.append(("group_binding_pairing", "binding_without_group", " ".join(b)))
    else:
        out.append(("missing_workgroup_size", "attr_removed", "@compute"))
    return out


def semantic_cases(tname):
    """Yield (rule, variant, site_kind, hole_index, snippet) for every applicable (breaker, hole)."""
    tmpl = TEMPLATES[tname]
    hs = holes_of(tmpl)
    EB = expr_breakers(tname)
    SB = stmt_breakers(tname)
    DB = decl_breakers(tname)
    for k, h in enumerate(hs):
        if h.kind == "E":
            for rule, variant, typ, const_ok, text in EB:
                if h.site in CONST_SITES and not const_ok:
                    continue
                if typ == "fnret":
                    typ = FNRET[tname]
                try:
                    sn = convert(text, typ, h.typ)
                except ValueError:
                    continue
                yield (rule, variant, h.site + ":" + h.typ if False else h.site, k, sn)
        elif h.kind == "S":
            for rule, variant, text in SB:
                yield (rule, variant, h.site, k, text)
        elif h.kind == "D":
            for rule, variant, text in DB:
                yield (rule, variant, h.site, k, text)
        elif h.kind == "T":
            for rule, variant, text in TYPE_BREAKERS:
                yield (rule, variant, h.site, k, text)
        elif h.kind == "A":
            for rule, variant, text in attr_breakers(h.site, h.default):
                yield (rule, variant, h.site, k, text)


# ------------------------------------------------------------------ rendering with known positions

def render(lexemes, rng=None):
    """Text of a token list.  Deterministic layout when rng is None; otherwise a seeded
    (random.Random) choice of blanks / line breaks / indentation.  Returns (src, [(line, col)] per token)."""
    parts = []
    pos = []
    line, col = 1, 1
    depth = 0
    paren = 0
    last = len(lexemes) - 1
    rnd = rng.random if rng is not None else None
    for k, lx in enumerate(lexemes):
        pos.append((line, col))
        parts.append(lx)
        col += len(lx)
        if lx == "(" or lx == "[":
            paren += 1
        elif lx == ")" or lx == "]":
            paren = max(0, paren - 1)
        elif lx == "{":
            depth += 1
        elif lx == "}":
            depth = max(0, depth - 1)
        if k == last:
            break
        nl = (lx == ";" or lx == "{" or lx == "}") and paren == 0
        if rnd is None:
            if nl:
                parts.append("\n" + " " * (depth * 2))
                line += 1
                col = 1 + depth * 2
            else:
                parts.append(" ")
                col += 1
            continue
        r = rnd()
        if r < 0.08:
            nl = True
        elif r < 0.16 and lx != ";":
            nl = False
        if nl:
            n = 2 if r > 0.9 else 1
            ind = int(rnd() * 7)
            parts.append("\n" * n + " " * ind)
            line += n
            col = 1 + ind
        else:
            n = 1 if r < 0.85 else 1 + int(rnd() * 3)
            parts.append(" " * n)
            col += n
    src = "".join(parts) + "\n"
    return src, pos


def eof_pos(src):
    """line:col the lexer gives the EOF token for text ending in a newline"""
    lines = src.split("\n")
    return (len(lines), len(lines[-1]) + 1)


# ------------------------------------------------------------------ declaration spans

OPEN = {"(": ")", "[": "]", "{": "}"}
CLOSE = {")": "(", "]": "[", "}": "{"}


def balanced(lexemes):
    st = []
    for lx in lexemes:
        if lx in OPEN:
            st.append(lx)
        elif lx in CLOSE:
            if not st or st[-1] != CLOSE[lx]:
                return False
            st.pop()
    return not st


def first_bad(lexemes):
    """index of the first token at which bracket matching fails; len(lexemes) (= EOF) when
    openers remain; None when balanced.  Mirrors Diag/Balance.v first_bad."""
    st = []
    for k, lx in enumerate(lexemes):
        if lx in OPEN:
            st.append(lx)
        elif lx in CLOSE:
            if not st or st[-1] != CLOSE[lx]:
                return k
            st.pop()
    return len(lexemes) if st else None


def decl_spans(lexemes):
    """[(first_token, last_token)] of module-scope declarations of a balanced token list:
    a declaration starts at the first token after the previous one (attribute or keyword at
    nesting depth 0) and ends at its `;` at depth 0 or at the `}` that returns to depth 0."""
    spans = []
    depth = 0
    start = None
    for k, lx in enumerate(lexemes):
        if start is None:
            if lx == ";" and depth == 0:
                continue  # stray `;` after a struct
            start = k
        if lx in OPEN:
            depth += 1
        elif lx in CLOSE:
            depth -= 1
            if depth == 0 and lx == "}":
                spans.append((start, k))
                start = None
        elif lx == ";" and depth == 0:
            spans.append((start, k))
            start = None
    if start is not None:
        spans.append((start, len(lexemes) - 1))
    return spans


def enclosing_decl(spans, a, b):
    for s, e in spans:
        if s <= a and b <= e:
            return (s, e)
    return None


# ------------------------------------------------------------------ token-level (syntax) edits

STMT_KW = ("let", "var", "const", "return", "break", "continue", "discard", "const_assert", "alias", "override", "enable", "diagnostic", "requires")
CONTINUERS = set(["(", "[", ".", "+", "-", "*", "/", "%", "&", "|", "^", "<", ">", "<=", ">=", "==", "!=", "&&", "||", "<<", ">>",
                  "=", "+=", "-=", "*=", "/=", "%=", "&=", "|=", "^=", "<<=", ">>=", "++", "--", ",", ":", "->", ";", ")", "]", "!", "~", "@"])


def semicolon_sites(lexemes):
    """[(index of `;`, site kind)] — kind = what the semicolon terminates / separates."""
    out = []
    depth = 0
    paren_stack = []     # for each open paren: is it a `for (` header
    stmt_start = 0
    for k, lx in enumerate(lexemes):
        if lx == "(":
            paren_stack.append(k > 0 and lexemes[k - 1] == "for")
        elif lx == ")":
            if paren_stack:
                paren_stack.pop()
        if lx in ("{", "}"):
            depth += (1 if lx == "{" else -1)
            stmt_start = k + 1
            continue
        if lx == ";":
            if paren_stack and paren_stack[-1]:
                # which of the two header semicolons
                n_before = sum(1 for (i, kd) in out if kd.startswith("for_header") and i > _last_for(lexemes, k))
                out.append((k, "for_header_%d" % (1 + n_before)))
                continue
            first = lexemes[stmt_start] if stmt_start < k else ";"
            scope = "module" if depth == 0 else "fn"
            if first == "break" and stmt_start + 1 < k and lexemes[stmt_start + 1] == "if":
                kind = "break_if"
            elif first in STMT_KW:
                kind = first
            elif first == "@":
                kind = "attributed_decl"
            elif first == "_":
                kind = "phony_assign"
            elif first == ";":
                stmt_start = k + 1
                continue   # an empty statement / the optional `;` after a struct: deleting it breaks no rule
            else:
                # call / assignment / increment
                seg = lexemes[stmt_start:k]
                if seg[-1] in ("++", "--"):
                    kind = "incdec"
                elif any(t in ("=", "+=", "-=", "*=", "/=", "%=", "&=", "|=", "^=", "<<=", ">>=") for t in _top_level(seg)):
                    kind = "assign" if "=" in _top_level(seg) else "compound_assign"
                elif seg[-1] == ")":
                    kind = "call_stmt"
                else:
                    kind = "other"
            out.append((k, scope + "_" + kind))
            stmt_start = k + 1
    return out


def _last_for(lexemes, k):
    j = k
    while j >= 0 and lexemes[j] != "for":
        j -= 1
    return j


def _top_level(seg):
    d = 0
    out = []
    for t in seg:
        if t in "([":
            d += 1
        elif t in ")]":
            d -= 1
        elif d == 0:
            out.append(t)
    return out


def delimiter_sites(lexemes):
    """[(index, role)] for every ( ) [ ] { } token; role names the construct that owns it."""
    roles = {}
    stack = []
    for k, lx in enumerate(lexemes):
        if lx in OPEN:
            prev = lexemes[k - 1] if k > 0 else ""
            prev2 = lexemes[k - 2] if k > 1 else ""
            if lx == "(":
                if prev2 == "@":
                    role = "attr_args"
                elif prev2 == "fn":
                    role = "fn_params"
                elif prev in ("if", "while", "switch", "for", "const_assert", "return", "case"):
                    role = prev + "_paren"
                elif prev == ">" or prev == ">>":
                    role = "ctor_args"
                elif prev and (prev[0].isalpha() or prev[0] == "_") and prev not in ("let", "var", "const", "else", "loop", "continuing", "default"):
                    role = "call_args"
                else:
                    role = "paren_expr"
            elif lx == "[":
                role = "index"
            else:
                # brace: look back for the owner keyword
                j = k - 1
                role = "block"
                pd = 0
                while j >= 0:
                    t = lexemes[j]
                    if t in (")", "]"):
                        pd += 1
                    elif t in ("(", "["):
                        pd -= 1
                    elif pd == 0:
                        if t in (";", "{", "}"):
                            break
                        if t in ("struct", "fn", "if", "else", "for", "while", "loop", "continuing", "switch", "case", "default"):
                            role = {"fn": "fn_body", "struct": "struct_body"}.get(t, t + "_body")
                            break
                    j -= 1
                if role == "block" and prev == "else":
                    role = "else_body"
            stack.append((k, role))
            roles[k] = "open_" + role
        elif lx in CLOSE:
            if stack:
                o, role = stack.pop()
                roles[k] = "close_" + role
            else:
                roles[k] = "close_unmatched"
    return sorted(roles.items())


def syntax_cases(lexemes):
    """Yield (rule, variant, site_kind, edited lexemes, expectation) for token-level edits.
    expectation = ("exact", token index in edited list)  |  ("window", lo index, hi index)
    where index len(edited) denotes the EOF token."""
    for k, kind in semicolon_sites(lexemes):
        ed = lexemes[:k] + lexemes[k + 1:]
        nxt = ed[k] if k < len(ed) else None
        if kind.startswith("for_header") or (nxt is not None and nxt in CONTINUERS):
            # the following token may continue the statement: only a window is predicted
            # (error at or after the gap, at the latest at the end of the enclosing construct)
            yield ("missing_semicolon", "deleted", kind, ed, ("atleast", k))
        else:
            yield ("missing_semicolon", "deleted", kind, ed, ("exact", k))
    for k, role in delimiter_sites(lexemes):
        ed = lexemes[:k] + lexemes[k + 1:]
        fb = first_bad(ed)
        yield ("unbalanced_delimiter", "deleted", role, ed, ("window", k, fb))
        ed = lexemes[:k] + [lexemes[k]] + lexemes[k:]
        fb = first_bad(ed)
        yield ("unbalanced_delimiter", "duplicated", role, ed, ("window", k + 1, fb))


# ------------------------------------------------------------------ corpus-level semantic edits (token based)

DECL_PREV = ("let", "var", "const", "fn", "struct", "alias", "override", "enable", "requires", "diagnostic")
TEMPLATE_HEADS = ("array", "vec2", "vec3", "vec4", "ptr", "atomic", "bitcast", "binding_array")


def in_angle_of(lexemes, k, heads):
    """token k lies inside `<...>` opened right after one of `heads` on the same statement"""
    j = k - 1
    d = 0
    while j >= 0 and lexemes[j] not in (";", "{", "}"):
        if lexemes[j] in (">",):
            d += 1
        elif lexemes[j] == ">>":
            d += 2
        elif lexemes[j] == "<":
            if d == 0:
                return j >= 1 and (lexemes[j - 1] in heads or lexemes[j - 1].startswith("texture_") or lexemes[j - 1].startswith("mat"))
            d -= 1
        j -= 1
    return False


def ident_use_sites(lexemes, kinds):
    """indices of identifier tokens that are *uses* (value, function, type or member names)
    inside function or struct bodies, with a site kind."""
    import wgsltext as W
    out = []
    depth = 0
    for k, lx in enumerate(lexemes):
        if lx == "{":
            depth += 1
        elif lx == "}":
            depth -= 1
        if kinds[k] != "Ident" or depth == 0:
            continue
        prev = lexemes[k - 1] if k > 0 else ""
        nxt = lexemes[k + 1] if k + 1 < len(lexemes) else ""
        if prev in DECL_PREV or prev == "@" or nxt == ":" or lx == "_":
            continue
        if prev in (">",) and k >= 2 and _closes_var_template(lexemes, k - 1):
            continue
        if W._in_attr(lexemes, k):
            continue
        if in_angle_of(lexemes, k, ("var", "ptr")) or (in_angle_of(lexemes, k, ()) and True and _storage_tex_arg(lexemes, k)):
            continue
        if prev == ".":
            out.append((k, "member_name"))
        elif nxt == "(":
            out.append((k, "callee_name"))
        elif prev == "," and in_angle_of(lexemes, k, ("array", "binding_array")) and nxt in (">", ">>"):
            out.append((k, "array_size_name"))
        elif prev == ":" or prev == "->" or (prev in ("<", ",") and in_angle_of(lexemes, k, TEMPLATE_HEADS)):
            out.append((k, "type_name"))
        else:
            out.append((k, "value_name"))
    return out


def _closes_var_template(lexemes, k):
    j = k
    while j >= 0 and lexemes[j] != "<":
        if lexemes[j] in (";", "{", "}"):
            return False
        j -= 1
    return j >= 1 and lexemes[j - 1] == "var"


def _storage_tex_arg(lexemes, k):
    j = k - 1
    while j >= 0 and lexemes[j] not in (";", "{", "}", "<"):
        j -= 1
    return j >= 1 and lexemes[j] == "<" and lexemes[j - 1].startswith("texture_storage")


def user_call_sites(lexemes):
    """(index of callee token, index of matching `)`, number of arguments) for calls of functions
    declared in the same token list"""
    fns = set(lexemes[k + 1] for k, lx in enumerate(lexemes[:-1]) if lx == "fn")
    out = []
    for k, lx in enumerate(lexemes[:-1]):
        if lx in fns and lexemes[k + 1] == "(" and (k == 0 or lexemes[k - 1] != "fn"):
            d = 0
            j = k + 1
            while j < len(lexemes):
                if lexemes[j] in "([":
                    d += 1
                elif lexemes[j] in ")]":
                    d -= 1
                    if d == 0:
                        break
                j += 1
            if j < len(lexemes):
                out.append((k, j, 0 if j == k + 2 else 1))
    return out
