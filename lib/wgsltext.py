"""Text-level WGSL input generators and meaning-neutral edit operators
(DESIGN Appendix C): token soup for the lexer correspondence, re-layout of a
token sequence with arbitrary trivia, redundant parentheses, trailing commas,
consistent renaming, byte/token mutations for robustness."""

BLANKS = [" ", "\t", "\n", "\r\n", "  ", "\n\n", " \t "]

COMMENT_TEXTS = ["", "x", " a b ", "\"quote'", "* /", "/ *", "**", "//", "/", "*", "é∂", "*/*", " /* */ ", "\r", "TODO: *",
                 "*", " doc *", "***", " x **"]


def gen_block_comment(rng, depth=0):
    parts = []
    for _ in range(rng.below(4)):
        if depth < 3 and rng.chance(1, 4):
            parts.append(gen_block_comment(rng, depth + 1))
        else:
            t = rng.choice(COMMENT_TEXTS)
            # keep the body well nested: neutralise stray markers
            parts.append(t.replace("/*", "/ *").replace("*/", "* /"))
    return "/*" + _fix_nesting(parts) + "*/"


def _fix_nesting(parts):
    """Join parts; where a join creates a marker that was in no part, separate with a blank."""
    out = ""
    for p in parts:
        if out and ((out[-1] == "/" and p[:1] == "*") or (out[-1] == "*" and p[:1] == "/")):
            out += " "
        out += p
    if out[-1:] == "/":
        out += " "          # "/" + "*/" would read as a nested opener; a trailing "*" is fine ("**/" closes)
    return out


def gen_line_comment(rng):
    t = rng.choice(COMMENT_TEXTS).replace("\n", " ").replace("\r", " ")
    return "//" + t + "\n"


def gen_trivia(rng, must_blank_first):
    """Trivia for a token gap.  With must_blank_first the first piece is a blank
    (a hard boundary whatever the neighbouring tokens are)."""
    parts = []
    if must_blank_first:
        parts.append(rng.choice(BLANKS))
    for _ in range(rng.below(3)):
        k = rng.below(4)
        if k == 0:
            parts.append(rng.choice(BLANKS))
        elif k == 1:
            parts.append(gen_line_comment(rng))
        else:
            parts.append(gen_block_comment(rng))
    return "".join(parts)


# ---------------------------------------------------------------- token location

def skip_trivia(src, i):
    n = len(src)
    while i < n:
        c = src[i]
        if c in " \t\r\n":
            i += 1
        elif src.startswith("//", i):
            j = src.find("\n", i)
            i = n if j < 0 else j
        elif src.startswith("/*", i):
            depth = 1
            i += 2
            while i < n and depth > 0:
                if src.startswith("/*", i):
                    depth += 1
                    i += 2
                elif src.startswith("*/", i):
                    depth -= 1
                    i += 2
                else:
                    i += 1
        else:
            break
    return i


def locate(src, lexemes):
    """Offsets of the given lexemes (strings, in order) in src, skipping trivia.
    None when the text does not line up."""
    i = 0
    offs = []
    for lx in lexemes:
        i = skip_trivia(src, i)
        if not src.startswith(lx, i):
            return None
        offs.append(i)
        i += len(lx)
    if skip_trivia(src, i) != len(src):
        return None
    return offs


def relayout(lexemes, rng, mode):
    """Render a token sequence with fresh trivia in every gap.
    mode 'hard': every gap starts with a blank; 'mixed': gaps may be empty or
    start with a comment (caller must check token preservation with the model)."""
    out = []
    for k, lx in enumerate(lexemes):
        if k > 0:
            if mode == "hard":
                out.append(gen_trivia(rng, True))
            else:
                r = rng.below(5)
                if r == 0:
                    out.append("")
                elif r == 1:
                    out.append(gen_trivia(rng, False))
                else:
                    out.append(gen_trivia(rng, True))
        out.append(lx)
    if rng.chance(1, 2):
        out.append(gen_trivia(rng, True))
    return "".join(out)


# ---------------------------------------------------------------- token soup

IDENTS = ["a", "x1", "_x", "__", "foo_bar", "é", "Δt", "名前", "i", "u", "f", "h", "e", "l", "lf", "li", "x", "X", "e1", "E", "vec", "vec2f", "constx", "fnn", "_"]
KEYWORDS = ["fn", "let", "var", "const", "struct", "if", "else", "loop", "for", "while", "return", "true", "false", "f32", "i32", "u32", "vec2", "vec3", "mat4x4", "array", "const_assert", "continuing", "texture_2d", "ptr", "atomic", "bool", "f16"]
NUMBERS = ["0", "1", "123", "0x1F", "0X", "0x", "0xG", "0x1p3", "0x1u", "0xli", "0xlu", "1u", "1i", "1li", "1lu", "1l", "1f", "1h", "1lf", "1.", "1.0", "1.5e3", "1.e3", "1e3", "1e+3", "1e-", "1e", "1.5f", "1.5h", "1.5lf", "1.x", "1._", "1.é", "1..", "1.e", "1ex", "00", "01u", "9999999999999999999999", "1.0e", "1.0e+", "0.5", "1.f", "1.l", "1.lf", "1.li", "12u8"]
OPERATORS = ["+", "-", "*", "/", "%", "&", "|", "^", "~", "!", "=", "<", ">", ".", ",", ":", ";", "@", "->", "++", "--", "==", "!=", "<=", ">=", "&&", "||", "<<", ">>", "+=", "-=", "*=", "/=", "%=", "&=", "|=", "^=", "<<=", ">>=", "(", ")", "{", "}", "[", "]"]
ODD = ["#", "$", "`", "\\", "?", "'", "\"", "\x00", "\x7f", "€", "​", "�", "\U0001F600", "٣", "²"]
COMMENT_STARTS = ["//", "/*", "*/", "/**/", "/*/", "// x\n", "/* /* */", "/* /* */ */", "//\r", "/*\n*/"]


def token_soup(rng, n):
    pools = [IDENTS, KEYWORDS, NUMBERS, OPERATORS, ODD, COMMENT_STARTS]
    weights = [4, 3, 5, 5, 1, 2]
    tot = sum(weights)
    out = []
    for _ in range(n):
        r = rng.below(tot)
        for p, w in zip(pools, weights):
            if r < w:
                out.append(rng.choice(p))
                break
            r -= w
        s = rng.below(6)
        if s == 0:
            out.append(" ")
        elif s == 1:
            out.append("\n")
        elif s == 2:
            out.append(rng.choice(BLANKS))
    return "".join(out)


def random_bytes(rng, n):
    kind = rng.below(3)
    if kind == 0:
        return bytes(rng.below(256) for _ in range(n))
    if kind == 1:  # mostly ASCII printable with some high bytes
        return bytes((rng.range(32, 126) if rng.chance(9, 10) else rng.below(256)) for _ in range(n))
    alphabet = b"(){}[]<>;:,.@=+-*/%&|^!~ \n\tfnletvar01xeEuifhl_\"'"
    return bytes(alphabet[rng.below(len(alphabet))] for _ in range(n))


# ---------------------------------------------------------------- syntactic neutral edits

PRIMARY_KINDS = ("IntLiteral", "FloatLiteral")


def add_parens(lexemes, kinds, rng, rate=3):
    """Wrap some literal tokens in redundant parentheses: `1` -> `(1)`.  Only
    literals inside braces (function bodies), never in attribute or template
    argument position; never the operand of a following member access."""
    out = []
    depth = 0
    changed = 0
    in_attr = 0
    for k, lx in enumerate(lexemes):
        if lx == "{":
            depth += 1
        elif lx == "}":
            depth -= 1
        prev = lexemes[k - 1] if k > 0 else ""
        nxt = lexemes[k + 1] if k + 1 < len(lexemes) else ""
        if kinds[k] in PRIMARY_KINDS and depth > 0 and prev not in ("@", "<") and nxt not in (".",) \
                and not _in_attr(lexemes, k) and not _in_template(lexemes, k) and rng.chance(1, rate):
            out += ["(", lx, ")"]
            changed += 1
        else:
            out.append(lx)
    return out, changed


def _in_attr(lexemes, k):
    """token k lies inside `@name( ... )`"""
    depth = 0
    j = k - 1
    while j >= 0:
        if lexemes[j] == ")":
            depth += 1
        elif lexemes[j] == "(":
            if depth == 0:
                return j >= 2 and lexemes[j - 2] == "@"
            depth -= 1
        elif lexemes[j] in ("{", "}", ";"):
            return False
        j -= 1
    return False


def _in_template(lexemes, k):
    """crude: a '<' opened after a type-ish word and not closed before k on this statement"""
    j = k - 1
    depth = 0
    while j >= 0 and lexemes[j] not in (";", "{", "}"):
        if lexemes[j] == ">":
            depth += 1
        elif lexemes[j] == "<":
            if depth == 0:
                return j >= 1 and (lexemes[j - 1] in ("array", "vec2", "vec3", "vec4", "ptr", "atomic", "var", "bitcast")
                                   or lexemes[j - 1].startswith("mat") or lexemes[j - 1].startswith("texture"))
            depth -= 1
        j -= 1
    return False


TEMPLATE_HEADS = ("vec2", "vec3", "vec4", "array", "bitcast", "ptr", "atomic") + tuple("mat%dx%d" % (c, r) for c in (2, 3, 4) for r in (2, 3, 4))


def _closes_template(lexemes, k):
    """is the `>` at position k the end of a template argument list `vec4<f32>` / `array<T, N>` / `bitcast<T>` (and not a
    greater-than operator)?  Walk back over the only things a type argument list can contain."""
    depth = 0
    j = k
    while j >= 0:
        lx = lexemes[j]
        if lx == ">":
            depth += 1
        elif lx == ">>":
            depth += 2
        elif lx == "<":
            depth -= 1
            if depth == 0:
                return j >= 1 and lexemes[j - 1] in TEMPLATE_HEADS
        elif not (lx == "," or lx[0].isalnum() or lx[0] == "_"):
            return False
        j -= 1
    return False


def add_trailing_commas(lexemes, rng):
    """`f(a, b)` -> `f(a, b,)` for call/constructor argument lists and parameter
    lists, `struct S { a: T }` unaffected (member commas are separate)."""
    out = []
    changed = 0
    stack = []
    for k, lx in enumerate(lexemes):
        if lx == "(":
            prev = lexemes[k - 1] if k > 0 else ""
            is_call = bool(prev) and (prev[0].isalpha() or prev[0] == "_" or (prev == ">" and _closes_template(lexemes, k - 1))) and prev not in (
                "if", "while", "for", "switch", "return", "let", "var", "const", "else", "loop", "case", "const_assert")
            attr = k >= 2 and lexemes[k - 2] == "@"
            stack.append((is_call and not attr, len(out)))
            out.append(lx)
        elif lx == ")":
            is_call, _ = stack.pop() if stack else (False, 0)
            prev = out[-1] if out else ""
            if is_call and prev not in ("(", ",") and rng.chance(1, 3):
                out.append(",")
                changed += 1
            out.append(lx)
        else:
            out.append(lx)
    return out, changed


DECL_KW = ("fn", "var", "let", "const", "struct", "alias")


def rename_plan(lexemes, kinds, rng, avoid_entry_points=True):
    """Choose user identifiers to rename consistently.  Conservative: names
    declared by fn/var/let/const/struct/alias/override or as parameters, that never
    occur after '.', inside an attribute, or as a struct member name."""
    declared = set()
    for k, lx in enumerate(lexemes):
        if kinds[k] != "Ident":
            continue
        prev = lexemes[k - 1] if k > 0 else ""
        if prev in DECL_KW:
            declared.add(lx)
        if prev == ">" and k >= 2:  # var<storage> name
            j = k - 1
            while j >= 0 and lexemes[j] != "<":
                j -= 1
            if j >= 1 and lexemes[j - 1] == "var":
                declared.add(lx)
    banned = set()
    depth_struct = 0
    for k, lx in enumerate(lexemes):
        prev = lexemes[k - 1] if k > 0 else ""
        nxt = lexemes[k + 1] if k + 1 < len(lexemes) else ""
        if prev == "." or prev == "@" or _in_attr(lexemes, k):
            banned.add(lx)
        if nxt == ":" and prev in ("{", ",") :  # struct member (or first param): ban
            banned.add(lx)
        if prev == "override":  # API-visible name (pipeline constant key), like an entry point name
            banned.add(lx)
    if avoid_entry_points:
        for k, lx in enumerate(lexemes):
            if lx == "fn" and k + 1 < len(lexemes):
                # entry point if an attribute @vertex/@fragment/@compute precedes
                j = k - 1
                while j >= 0 and lexemes[j] not in (";", "}"):
                    if lexemes[j] in ("vertex", "fragment", "compute") and j >= 1 and lexemes[j - 1] == "@":
                        banned.add(lexemes[k + 1])
                    j -= 1
    cands = sorted(declared - banned)
    plan = {}
    if rng is None:
        # deterministic scheme that REVERSES the alphabetical order of the renamed identifiers
        for k, n in enumerate(cands):
            plan[n] = "n%03d_%s" % (len(cands) - k, n)
        return plan
    for n in cands:
        if rng.chance(1, 2):
            plan[n] = "r%d_%s" % (rng.below(1000), n)
    return plan


def apply_rename(lexemes, kinds, plan):
    return [plan.get(lx, lx) if kinds[k] == "Ident" else lx for k, lx in enumerate(lexemes)]


# ---------------------------------------------------------------- robustness mutations (C10)

BINOPS = ["+", "-", "*", "/", "%", "&", "|", "^", "<<", ">>", "==", "!=", "<", ">", "<=", ">=", "&&", "||"]
TYPEWORDS = ["f32", "i32", "u32", "bool", "vec2<f32>", "vec3<f32>", "vec4<f32>", "vec2<i32>", "vec3<u32>", "vec4<i32>",
             "mat2x2<f32>", "mat3x3<f32>", "mat4x4<f32>", "array<f32,4>", "array<u32,2>", "f16", "vec2<bool>"]
LITS = ["0", "1", "2", "31", "32", "4294967295", "2147483647", "-1", "0u", "1u", "0.0", "1.0", "0.5", "1e38", "true", "false",
        "2147483648", "1i", "1f", "0x7fffffff", "4294967296", "1e39", "0xffffffffu"]


def mutate_gentle(lexemes, kinds, rng):
    """Substitutions that keep the token stream grammatical most of the time:
    identifier <-> identifier of the same file, literal <-> literal, binary
    operator <-> binary operator, scalar/vector type <-> another type."""
    ls = list(lexemes)
    idents = sorted({l for l, k in zip(lexemes, kinds) if k == "Ident"})
    for _ in range(1 + rng.below(3)):
        if not ls:
            break
        i = rng.below(len(ls))
        k = kinds[i] if i < len(kinds) else ""
        if k == "Ident" and idents:
            ls[i] = rng.choice(idents)
        elif k in ("IntLiteral", "FloatLiteral") or ls[i] in ("true", "false"):
            ls[i] = rng.choice(LITS)
        elif ls[i] in BINOPS:
            ls[i] = rng.choice(BINOPS)
        elif ls[i] in ("f32", "i32", "u32", "bool", "f16"):
            ls[i] = rng.choice(["f32", "i32", "u32", "bool", "f16"])
        elif ls[i] in ("vec2", "vec3", "vec4"):
            ls[i] = rng.choice(["vec2", "vec3", "vec4"])
        elif ls[i].startswith("mat") and len(ls[i]) == 6:
            ls[i] = rng.choice(["mat2x2", "mat2x3", "mat3x2", "mat3x3", "mat4x4", "mat4x3"])
        else:
            # statement-level: duplicate or delete a whole `...;` statement
            ends = [j for j, l in enumerate(ls) if l == ";"]
            if len(ends) >= 2:
                a = rng.below(len(ends) - 1)
                s0, s1 = ends[a] + 1, ends[a + 1] + 1
                if rng.chance(1, 2):
                    ls[s0:s0] = ls[s0:s1]
                else:
                    del ls[s0:s1]
    return ls


def mutate_tokens(lexemes, rng):
    ls = list(lexemes)
    if not ls:
        return ls
    for _ in range(1 + rng.below(3)):
        k = rng.below(6)
        i = rng.below(len(ls))
        if k == 0:
            del ls[i]
        elif k == 1:
            ls.insert(i, ls[rng.below(len(ls))])
        elif k == 2:
            j = rng.below(len(ls))
            ls[i], ls[j] = ls[j], ls[i]
        elif k == 3:
            ls[i] = rng.choice(OPERATORS + NUMBERS + KEYWORDS + IDENTS)
        elif k == 4:
            ls.insert(i, rng.choice(["(", ")", "{", "}", "<", ">", "[", "]", ";", ","]))
        else:
            j = min(len(ls), i + 1 + rng.below(8))
            ls[i:j] = ls[i:j] * (2 + rng.below(3))
        if not ls:
            break
    return ls


def deep_inputs(sizes=(100, 1000)):
    """Deeply nested / very long constructs (each <= 64 KiB)."""
    out = []
    for n in sizes:
        out.append(("parens%d" % n, "fn f() { let x = " + "(" * n + "1" + ")" * n + "; }"))
        out.append(("unary%d" % n, "fn f() { let x = " + "-" * n + "1; }"))
        out.append(("bang%d" % n, "fn f() { let x = " + "!" * n + "true; }"))
        out.append(("blocks%d" % n, "fn f() { " + "{" * n + "}" * n + " }"))
        out.append(("ifs%d" % n, "fn f() { " + "if true { " * n + "}" * n + " }"))
        out.append(("chain%d" % n, "fn f() { let x = 1" + " + 1" * n + "; }"))
        out.append(("index%d" % n, "fn f() { var a: array<i32,2>; let x = a" + "[0]" * n + "; }"))
        out.append(("tmpl%d" % n, "var<private> x: " + "array<" * n + "f32" + ",2>" * n + ";"))
        out.append(("vecnest%d" % n, "var<private> x: " + "vec2<" * n + "f32" + ">" * n + ";"))
        out.append(("call%d" % n, "fn f() { let x = " + "abs(" * n + "1" + ")" * n + "; }"))
        out.append(("comment%d" % n, "/*" * n + "*/" * n + " fn f() {}"))
        out.append(("opencomment%d" % n, "/*" * n))
        out.append(("else%d" % n, "fn f() { if true {}" + " else if true {}" * n + " }"))
        out.append(("members%d" % n, "struct S { " + " ".join("m%d: f32," % i for i in range(n)) + " }"))
        out.append(("args%d" % n, "fn f() { let v = vec4<f32>(" + ",".join(["1.0"] * n) + "); }"))
        out.append(("ptrnest%d" % n, "fn f(p: " + "ptr<function," * n + "i32" + ">" * n + ") {}"))
        out.append(("attr%d" % n, "@group(0) " * n + "@binding(0) var<uniform> u: f32;"))
        out.append(("switch%d" % n, "fn f() { switch 1 { " + " ".join("case %d: {}" % i for i in range(n)) + " default: {} } }"))
    out.append(("hugeint", "const x = " + "9" * 60000 + ";"))
    out.append(("hugefloat", "const x = 1." + "0" * 60000 + "1;"))
    out.append(("hugeexp", "const x = 1e" + "9" * 1000 + ";"))
    out.append(("hugehex", "const x = 0x" + "F" * 60000 + ";"))
    out.append(("hugearray", "var<private> a: array<f32, 4000000000>;"))
    out.append(("hugearray2", "@compute @workgroup_size(1) fn main() { var a = array<f32, 1000000000>(); }"))
    out.append(("hugearray3", "var<workgroup> a: array<array<f32, 65535>, 65535>; @compute @workgroup_size(1) fn main() { a[0][0] = 1.0; }"))
    out.append(("hugewg", "@compute @workgroup_size(4294967295, 4294967295, 4294967295) fn main() {}"))
    out.append(("longident", "fn " + "a" * 60000 + "() {}"))
    return [(n, s) for n, s in out if len(s.encode("utf-8")) <= 65536]


# ---------------------------------------------------------------- systematic families (C10 / C19)

MULTIBYTE_TAILS = ["é", "π", "名", "\U0001F600", "\u00a0", "\u2028"]


def eof_edge_inputs():
    """Every number/identifier/operator form immediately followed by a multi-byte character (or an invalid
    byte) that is the LAST thing in the source, and every prefix of a short feature-rich text: look-ahead at
    the end of input."""
    out = []
    for n in NUMBERS + ["a", "_", "0x", "1.", "1e", "1l", "/", "/*", "//", "<", ">", "-", "&", "|", "*"]:
        for t in MULTIBYTE_TAILS:
            out.append(("const a = " + n + t).encode("utf-8"))
            out.append((n + t).encode("utf-8"))
        out.append(("const a = " + n).encode("utf-8") + b"\xc3")      # truncated UTF-8 sequence
        out.append(("const a = " + n).encode("utf-8") + b"\xff")
    text = "fn é(a: vec2<f32>) -> f32 { /* c /* n */ é */ let x = 1.5e+3f >> 2u; // z\n return a.x<=0x1Fu; }\n"
    b = text.encode("utf-8")
    for k in range(len(b) + 1):
        out.append(b[:k])
    return out


CONST_CONTEXTS = [
    "const X = %s;\n@compute @workgroup_size(1) fn main() { _ = X; }",
    "var<private> a: array<i32, %s>;\n@compute @workgroup_size(1) fn main() { _ = a[0]; }",
    "const_assert (%s) == 1;\n@compute @workgroup_size(1) fn main() {}",
    "@compute @workgroup_size(%s) fn main() {}",
    "@compute @workgroup_size(1) fn main() { var s = 0; switch 1 { case %s: { s = 1; } default: {} } }",
    "const N = 3;\nconst M = %s;\n@compute @workgroup_size(1) fn main() { _ = M; }",
    "@compute @workgroup_size(1) fn main() { const c = %s; let y = c; }",
    "override o: i32 = %s;\n@compute @workgroup_size(1) fn main() { _ = o; }",
]
CONST_OPERANDS = ["0", "1", "-1", "2", "31", "32", "33", "63", "64", "65", "-2147483648", "2147483647", "4294967295", "4294967296",
                  "9223372036854775807", "(N - 4)", "1u", "0u", "4294967295u", "1i", "-1i", "1.5", "0.0", "1e38", "true"]
CONST_OPS = ["+", "-", "*", "/", "%", "<<", ">>", "&", "|", "^", "==", "<", "&&"]
CONST_FUNCS = ["abs(%s)", "-(%s)", "~(%s)", "countOneBits(%s)", "u32(%s)", "i32(%s)", "f32(%s)", "min(%s, 1)", "clamp(%s, 0, 1)",
               "firstLeadingBit(%s)", "extractBits(%s, 31u, 2u)", "pow(2.0, f32(%s))", "vec2(%s).x", "select(1, 2, bool(%s))"]


def const_expr_inputs(rng, n):
    """Constant expressions over boundary operands in every compile-time context (array size, const_assert,
    workgroup_size, case selector, module/local const, override initialiser)."""
    out = []
    for _ in range(n):
        ctx = rng.choice(CONST_CONTEXTS)
        a, b = rng.choice(CONST_OPERANDS), rng.choice(CONST_OPERANDS)
        if rng.chance(1, 4):
            e = rng.choice(CONST_FUNCS) % a
        else:
            e = "%s %s %s" % (a, rng.choice(CONST_OPS), b)
            if rng.chance(1, 4):
                e = "(%s) %s %s" % (e, rng.choice(CONST_OPS), rng.choice(CONST_OPERANDS))
        if "(N - 4)" in e and "const N" not in ctx:
            e = e.replace("(N - 4)", "(3 - 4)")
        out.append((ctx % e).encode("utf-8"))
    return out


def const_expr_systematic():
    """Exhaustive: every compile-time context x {<<, >>, /, %} x risky operand pairs (negative, zero, >= bit width,
    INT_MIN, mixed suffixes, an expression over another constant)."""
    A = ["0", "1", "-1", "8", "2147483647", "-2147483648", "1u", "4294967295u"]
    B = ["-1", "0", "31", "32", "33", "63", "64", "65", "-2147483648", "(N - 4)", "4294967295", "1u", "-1i"]
    out = []
    for ctx in CONST_CONTEXTS:
        for op in ("<<", ">>", "/", "%"):
            for a in A:
                for b in B:
                    e = "%s %s %s" % (a, op, b)
                    if "(N - 4)" in e and "const N" not in ctx:
                        e = e.replace("(N - 4)", "(3 - 4)")
                    out.append((ctx % e).encode("utf-8"))
    return out


def assoc_pairs():
    """(name, program, program with the grouping naga's parser chooses written out).  One pair per ordered pair of
    operators that share a precedence level, plus unary/postfix combinations; both texts must compile to the same
    code.  (WGSL itself does not allow some of these chains unparenthesised - `a << b << c`, `a < b < c`, mixing
    `&` with `|` - where naga accepts them its reading is the left-to-right one written on the right.)"""
    hdr = ("@group(0) @binding(0) var<storage, read_write> o: array<u32, 8>;\n"
           "@group(0) @binding(1) var<storage, read_write> s: array<i32, 8>;\n"
           "@group(0) @binding(2) var<storage, read_write> f: array<f32, 8>;\n@compute @workgroup_size(1) fn main() {\n"
           "  let a = o[1]; let b = o[2]; let c = o[3]; let i = s[1]; let j = s[2]; let k = s[3]; let x = f[1]; let y = f[2]; let z = f[3];\n")
    levels = [("mul", ["*", "/", "%"], "a", "(b | 1u)", "(c | 1u)", "o[0]"), ("add", ["+", "-"], "i", "j", "k", "s[0]"),
              ("shift", ["<<", ">>"], "a", "(b & 7u)", "(c & 7u)", "o[0]"), ("and", ["&"], "a", "b", "c", "o[0]"),
              ("or", ["|"], "a", "b", "c", "o[0]"), ("xor", ["^"], "a", "b", "c", "o[0]"),
              ("fadd", ["+", "-"], "x", "y", "z", "f[0]"), ("fmul", ["*", "/"], "x", "y", "z", "f[0]")]
    out = []
    for lname, ops, p, q, r, dst in levels:
        for o1 in ops:
            for o2 in ops:
                chain = "%s %s %s %s %s" % (p, o1, q, o2, r)
                grouped = "(%s %s %s) %s %s" % (p, o1, q, o2, r)
                out.append(("assoc_%s_%s_%s" % (lname, o1, o2), hdr + "  %s = %s;\n}\n" % (dst, chain), hdr + "  %s = %s;\n}\n" % (dst, grouped)))
    for lname, o1, o2 in (("andand", "&&", "&&"), ("oror", "||", "||")):
        chain = "a < b %s b < c %s c < a" % (o1, o2)
        grouped = "((a < b) %s (b < c)) %s (c < a)" % (o1, o2)
        out.append(("assoc_%s" % lname, hdr + "  o[0] = select(0u, 1u, %s);\n}\n" % chain, hdr + "  o[0] = select(0u, 1u, %s);\n}\n" % grouped))
    mixed = [("mul_add", "i + j * k - i / (j | 1)", "(i + (j * k)) - (i / (j | 1))", "s[0]"),
             ("shift_add", "a << (b & 7u) + 1u", "a << ((b & 7u) + 1u)", "o[0]"),
             ("cmp_add", "select(0u, 1u, a + b < c * a)", "select(0u, 1u, (a + b) < (c * a))", "o[0]"),
             ("unary_mul", "-i * j", "(-i) * j", "s[0]"), ("not_and", "~a & b", "(~a) & b", "o[0]"),
             ("neg_neg", "- -i", "-(-i)", "s[0]"), ("unary_index", "-s[2]", "-(s[2])", "s[0]"),
             ("andand_oror", "select(0u, 1u, a < b || b < c && c < a)", "select(0u, 1u, (a < b) || ((b < c) && (c < a)))", "o[0]")]
    for n, chain, grouped, dst in mixed:
        out.append(("assoc_%s" % n, hdr + "  %s = %s;\n}\n" % (dst, chain), hdr + "  %s = %s;\n}\n" % (dst, grouped)))
    return out


WGSL_BUILTINS = ("abs acos acosh all any arrayLength asin asinh atan atan2 atanh atomicAdd atomicAnd atomicCompareExchangeWeak atomicExchange "
                 "atomicLoad atomicMax atomicMin atomicOr atomicStore atomicSub atomicXor bitcast ceil clamp cos cosh countLeadingZeros countOneBits "
                 "countTrailingZeros cross degrees determinant distance dot dot4I8Packed dot4U8Packed dpdx dpdxCoarse dpdxFine dpdy dpdyCoarse dpdyFine "
                 "exp exp2 extractBits faceForward firstLeadingBit firstTrailingBit floor fma fract frexp fwidth fwidthCoarse fwidthFine insertBits "
                 "inverseSqrt ldexp length log log2 max min mix modf normalize pack2x16float pack2x16snorm pack2x16unorm pack4x8snorm pack4x8unorm "
                 "pack4xI8 pack4xI8Clamp pack4xU8 pack4xU8Clamp pow quantizeToF16 radians reflect refract reverseBits round saturate select sign sin "
                 "sinh smoothstep sqrt step storageBarrier tan tanh textureBarrier textureDimensions textureGather textureGatherCompare textureLoad "
                 "textureNumLayers textureNumLevels textureNumSamples textureSample textureSampleBaseClampToEdge textureSampleBias textureSampleCompare "
                 "textureSampleCompareLevel textureSampleGrad textureSampleLevel textureStore transpose trunc unpack2x16float unpack2x16snorm "
                 "unpack2x16unorm unpack4x8snorm unpack4x8unorm unpack4xI8 unpack4xU8 workgroupBarrier workgroupUniformLoad subgroupAdd subgroupAll "
                 "subgroupAny subgroupBallot subgroupBroadcast subgroupBroadcastFirst subgroupShuffle quadBroadcast quadSwapX "
                 "vec2 vec3 vec4 mat2x2 mat3x3 mat4x4 array i32 u32 f32 bool").split()


def builtin_arity_inputs():
    """every builtin (and bare constructor) called with 0, 1, 2, 3, ... arguments of each of a few kinds: the lowering of a
    builtin that indexes its argument list before checking its length shows up as an index-out-of-range panic"""
    hdr = ("@group(0) @binding(0) var t: texture_2d<f32>;\n@group(0) @binding(1) var s: sampler;\n@group(0) @binding(2) var td: texture_depth_2d;\n"
           "@group(0) @binding(3) var sc: sampler_comparison;\n@group(0) @binding(4) var ts: texture_storage_2d<rgba8unorm, write>;\n"
           "@group(0) @binding(5) var<storage, read_write> a: atomic<u32>;\n@group(0) @binding(6) var<storage, read_write> arr: array<f32>;\n"
           "var<workgroup> w: u32;\n")
    argsets = ["", "t", "t, s", "td, sc", "ts", "0", "0, t", "t, s, vec2<f32>(0.0)", "&a", "&a, 1u", "&arr", "&w", "1.0", "1.0, 2.0", "1.0, 2.0, 3.0",
               "vec3<f32>(1.0)", "vec3<f32>(1.0), vec3<f32>(2.0)", "1u, 2u, 3u, 4u, 5u", "true", "t, vec2<i32>(0)", "ts, vec2<i32>(0)"]
    out = []
    for f in WGSL_BUILTINS:
        for a in argsets:
            for form in ("let x = %s(%s);", "%s(%s);", "_ = %s(%s);"):
                if form != "let x = %s(%s);" and a not in ("", "t", "&a", "1.0"):
                    continue
                out.append((hdr + "@fragment fn main() -> @location(0) vec4<f32> { " + (form % (f, a)) + " return vec4<f32>(0.0); }").encode("utf-8"))
    return out


def void_call_inputs():
    """a call that yields no value (void user function, barrier, store-like builtin) in every position where a value is
    required"""
    hdr = ("@group(0) @binding(0) var<storage, read_write> a: atomic<u32>;\n@group(0) @binding(1) var ts: texture_storage_2d<rgba8unorm, write>;\n"
           "@group(0) @binding(2) var<storage, read_write> o: array<f32, 4>;\nfn g() {}\nfn h(x: f32) {}\n")
    voids = ["g()", "workgroupBarrier()", "storageBarrier()", "atomicStore(&a, 1u)", "textureStore(ts, vec2<i32>(0), vec4<f32>(1.0))", "h(1.0)"]
    ctxs = ["let x = *%s;", "let x = -%s;", "let x = !%s;", "let x = ~%s;", "let x = %s + %s;", "let x = 1.0 * %s;", "let x = abs(%s);", "let x = vec2<f32>(%s);",
            "let x = select(%s, %s, %s);", "let x = f32(%s);", "let x = bitcast<u32>(%s);", "var x = %s;", "let x = %s;", "if %s { }", "h(%s);", "o[0] = %s;",
            "o[u32(%s)] = 1.0;", "let x = %s.x;", "let x = %s[0];", "switch %s { default: { } }", "for (var i = %s; i < 2; i++) { }", "while %s { }",
            "loop { break if %s; }", "let x = &%s;", "_ = %s;", "let x = array<f32, 2>(%s, %s);", "let x = min(1.0, %s);", "*%s = 1.0;", "%s += 1.0;"]
    out = []
    for v in voids:
        for c in ctxs:
            body = c.replace("%s", v)
            out.append((hdr + "@compute @workgroup_size(1) fn main() { " + body + " }").encode("utf-8"))
            out.append((hdr + "fn r() -> f32 { return %s; }\n@compute @workgroup_size(1) fn main() { }" % v).encode("utf-8"))
    return sorted(set(out))


def big_valid_inputs():
    """Valid (or plausibly valid) programs that are large in ONE dimension and reach every back end through an entry point:
    very long names, wide structs / constructors / parameter lists, many declarations.  Each <= 64 KiB."""
    out = []
    ep = "@compute @workgroup_size(1) fn main() { %s }"
    buf = "@group(0) @binding(0) var<storage, read_write> o: array<u32, 16>;\n"
    for n in (300, 5000, 17001, 60000):
        name = "a" * n
        out.append(("longname_ep%d" % n, "@compute @workgroup_size(1) fn %s() { }" % name))
        out.append(("longname_local%d" % n, buf + ep % ("var %s = 1u; o[0] = %s;" % (name, name))))
        out.append(("longname_member%d" % n, "struct S { %s: u32 }\n@group(0) @binding(0) var<storage, read_write> o: S;\n" % name + ep % ("o.%s = 1u;" % name)))
        out.append(("longname_global%d" % n, "var<private> %s: u32;\n" % name + buf + ep % ("%s = 2u; o[0] = %s;" % (name, name))))
        out.append(("longname_fn%d" % n, "fn %s() -> u32 { return 1u; }\n" % name + buf + ep % ("o[0] = %s();" % name)))
    for n in (100, 1000, 4200, 6000):
        out.append(("wide_struct%d" % n, "struct S { " + " ".join("m%d: f32," % i for i in range(n)) + " }\n@group(0) @binding(0) var<storage, read_write> s: S;\n"
                    + ep % "s.m1 = s.m0 + 1.0;"))
        out.append(("wide_struct_local%d" % n, "struct S { " + " ".join("m%d: f32," % i for i in range(n)) + " }\n" + buf + ep % "var s: S; s.m1 = 2.0; o[0] = u32(s.m1);"))
    for n in (100, 2000, 5000, 12000):
        body = "var a = array<u32, %d>(%s); o[0] = a[o[1] %% %du];"
        out.append(("array_ctor_equal%d" % n, buf + ep % (body % (n, ",".join(["1u"] * n), n))))
        if n <= 5000:
            out.append(("array_ctor_distinct%d" % n, buf + ep % (body % (n, ",".join("%du" % i for i in range(n)), n))))
    for n in (100, 1000, 4000):
        out.append(("many_params%d" % n, "fn f(" + ", ".join("p%d: u32" % i for i in range(n)) + ") -> u32 { return p0 + p%d; }\n" % (n - 1) + buf
                    + ep % ("o[0] = f(" + ", ".join(["1u"] * n) + ");")))
        out.append(("many_locals%d" % n, buf + ep % (" ".join("var v%d = %du;" % (i, i) for i in range(n)) + " o[0] = v0 + v%d;" % (n - 1))))
        out.append(("many_stmts%d" % n, buf + ep % (" ".join("o[%d] = %du;" % (i % 16, i) for i in range(n)))))
        out.append(("many_fns%d" % n, "".join("fn f%d() -> u32 { return %du; }\n" % (i, i) for i in range(n)) + buf + ep % ("o[0] = f0() + f%d();" % (n - 1))))
        out.append(("call_chain%d" % n, "fn f0() -> u32 { return 1u; }\n" + "".join("fn f%d() -> u32 { return f%d() + 1u; }\n" % (i, i - 1) for i in range(1, n)) + buf
                    + ep % ("o[0] = f%d();" % (n - 1))))
        out.append(("many_globals%d" % n, "".join("var<private> g%d: u32;\n" % i for i in range(n)) + buf + ep % ("g0 = 1u; o[0] = g0 + g%d;" % (n - 1))))
        out.append(("many_bindings%d" % n, "".join("@group(%d) @binding(%d) var<uniform> u%d: vec4<f32>;\n" % (i // 16, i % 16, i) for i in range(min(n, 1500))) + buf
                    + ep % ("o[0] = u32(u0.x + u%d.y);" % (min(n, 1500) - 1))))
        out.append(("many_cases%d" % n, buf + ep % ("switch o[1] { " + " ".join("case %du: { o[0] = %du; }" % (i, i) for i in range(n)) + " default: { } }")))
        out.append(("many_structs%d" % n, "".join("struct S%d { a: u32 }\n" % i for i in range(n)) + buf + ep % ("var s = S%d(3u); o[0] = s.a;" % (n - 1))))
        if n == 100:
            # (30 links are enough to show the exponential cost recorded as resource:deep:swizzle_chain; longer chains
            # only make the run slower)
            out.append(("swizzle_chain30", buf + ep % ("let v = vec4<u32>(o[1]); o[0] = v" + ".wzyx" * 30 + ".x;")))
            out.append(("swizzle_chain12", buf + ep % ("let v = vec4<u32>(o[1]); o[0] = v" + ".wzyx" * 12 + ".x;")))
        out.append(("member_chain%d" % min(n, 200), "struct S0 { a: u32 }\n" + "".join("struct S%d { a: S%d }\n" % (i, i - 1) for i in range(1, min(n, 200)))
                    + buf + ep % ("var s: S%d; o[0] = s" % (min(n, 200) - 1) + ".a" * min(n, 200) + ";")))
    return [(n, s) for n, s in out if len(s.encode("utf-8")) <= 65536]


def recursive_inputs():
    """call cycles (WGSL forbids them; naga has to reject or survive them): direct, mutual, longer cycles, reachable and
    unreachable from an entry point, in statement and in value position"""
    buf = "@group(0) @binding(0) var<storage, read_write> o: array<u32, 4>;\n"
    out = [("rec_direct", buf + "fn fact(n: u32) -> u32 { if n <= 1u { return 1u; } return n * fact(n - 1u); }\n@compute @workgroup_size(1) fn main() { o[0] = fact(o[1]); }"),
           ("rec_direct_void", buf + "fn f(n: u32) { if n > 0u { f(n - 1u); } o[0] = n; }\n@compute @workgroup_size(1) fn main() { f(o[1]); }"),
           ("rec_mutual", buf + "fn even(n: u32) -> bool { if n == 0u { return true; } return odd(n - 1u); }\nfn odd(n: u32) -> bool { if n == 0u { return false; } return even(n - 1u); }\n"
            "@compute @workgroup_size(1) fn main() { o[0] = select(0u, 1u, even(o[1])); }"),
           ("rec_unreachable", buf + "fn f(n: u32) -> u32 { return f(n) + 1u; }\n@compute @workgroup_size(1) fn main() { o[0] = 1u; }"),
           ("rec_entry", buf + "@compute @workgroup_size(1) fn main() { o[0] = 1u; main(); }"),
           ("rec_global_use", buf + "var<private> p: u32;\nfn f(n: u32) -> u32 { p = n; return g(n); }\nfn g(n: u32) -> u32 { return f(n + p); }\n@compute @workgroup_size(1) fn main() { o[0] = f(1u); }")]
    for k in (3, 10, 100):
        fs = "".join("fn c%d(n: u32) -> u32 { return c%d(n) + 1u; }\n" % (i, (i + 1) % k) for i in range(k))
        out.append(("rec_cycle%d" % k, buf + fs + "@compute @workgroup_size(1) fn main() { o[0] = c0(1u); }"))
    return out


# ---------------------------------------------------------------------------------------------------------------
# Exhaustive single-token edits of small seed programs (round 3): every deletion, every duplication and every insertion of
# one token of a small alphabet at every position.  Error paths of a recursive-descent parser (a helper that reports an
# error WITHOUT consuming the offending token, inside a loop that waits for a closing delimiter) are reached by exactly
# such inputs; random mutation of large corpus shaders rarely lands on the few critical positions.
TOKEDIT_SEEDS = [
    "@group(0) @binding(0) var<storage, read_write> o: array<u32, 4>;\n"
    "fn f(a: u32, b: ptr<function, u32>) -> u32 { for (var i = 0u; i < a; i++) { *b += i; } return *b; }\n"
    "@compute @workgroup_size(1) fn main() { var x = 1u; for (var k: i32 = 0; k < 2; k += 1) { if (k == 1) { continue; } else { o[k] = f(2u, &x); } } }\n",
    "struct S { @align(16) a: vec3<f32>, b: array<f32, 2>, }\nconst K = 2;\noverride W: u32 = 3u;\nalias T = vec2<u32>;\nvar<private> p: S;\n"
    "fn g(s: S) -> f32 { var r = 0.0; var i = 0; loop { if (i >= K) { break; } r += s.b[i]; continuing { i++; break if i > 5; } } "
    "switch (i) { case 0, 1: { r = 1.0; } default: { r -= 1.0; } } while (r > 9.0) { r = r / 2.0; } return r; }\n"
    "@fragment fn main(@location(0) v: f32) -> @location(0) vec4<f32> { let t = T(1u, 2u); const_assert K == 2; return vec4<f32>(g(p) + v + f32(t.x)); }\n",
]
TOKEDIT_ALPHABET = ["{", "}", "(", ")", ";", ",", ":", "<", ">", "=", "[", "]", "@", ".", "->", "+", "-", "*", "&", "!", "x", "1", "1u",
                    "for", "if", "else", "loop", "while", "switch", "case", "default", "fn", "var", "let", "return", "break", "continue",
                    "continuing", "struct", "array", ">>", ">=", "++", "+=", "_"]


def _simple_tokens(src):
    import re
    return re.findall(r"[A-Za-z_][A-Za-z0-9_]*|\d+\.\d+|\d+u?|->|\+\+|--|[-+*/<>=!]=|&&|\|\||<<|>>|\S", src)


TOKEDIT_ALPHABET_QUICK = ["{", "}", "(", ")", ";", ",", "<", ">", "=", "[", "for", "loop"]


def single_token_edits_systematic(full=True):
    out = []
    seen = set()
    for seed in TOKEDIT_SEEDS:
        toks = _simple_tokens(seed)
        for i in range(len(toks) + 1):
            cands = []
            if i < len(toks):
                cands.append(toks[:i] + toks[i + 1:])                 # delete
                cands.append(toks[:i] + [toks[i]] + toks[i:])         # duplicate
            for a in (TOKEDIT_ALPHABET if full else TOKEDIT_ALPHABET_QUICK):
                cands.append(toks[:i] + [a] + toks[i:])               # insert
            for c in cands:
                s = " ".join(c)
                if s not in seen:
                    seen.add(s)
                    out.append(s.encode())
    return out
