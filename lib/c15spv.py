"""C15, SPIR-V leg helpers: many small programs through irrun / spvrun in parallel processes."""
from concurrent.futures import ThreadPoolExecutor

import spvcheck


def run_parallel(exe, jobs, workers, chunk=24, timeout=240):
    """run_model_guarded over chunks in `workers` parallel processes; results in job order"""
    if not jobs:
        return []
    parts = [jobs[i:i + chunk] for i in range(0, len(jobs), chunk)]
    with ThreadPoolExecutor(max(1, min(workers, len(parts)))) as ex:
        outs = list(ex.map(lambda p: spvcheck.run_model_guarded(exe, p, timeout=timeout), parts))
    return [r for o in outs for r in o]


def run_items(exe_ir, exe_spv, items, workers=6, fuel=spvcheck.FUEL):
    """items: [(comp, inputs, ep)] -> per item None (cannot be run) or [(class, detail, ir_res, spv_res)]
    (spvcheck.run_items with the chunks spread over several processes; no fuel retry: the programs are tiny)"""
    built = [spvcheck.build_jobs(c, inputs, ep, fuel) for c, inputs, ep in items]
    ir_all, spv_all = [], []
    for b in built:
        if b is not None:
            ir_all += b[0]
            spv_all += b[1]
    with ThreadPoolExecutor(2) as ex:
        fa = ex.submit(run_parallel, exe_ir, ir_all, workers)
        fb = ex.submit(run_parallel, exe_spv, spv_all, workers)
        ir_out, spv_out = fa.result(), fb.result()
    res = []
    pos = 0
    for b in built:
        if b is None:
            res.append(None)
            continue
        n = len(b[0])
        res.append([spvcheck.classify(a, bb, b[2]) + (a, bb) for a, bb in zip(ir_out[pos:pos + n], spv_out[pos:pos + n])])
        pos += n
    return res
