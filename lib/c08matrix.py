"""C08 feature matrix: small hand-written WGSL programs, each valid under the
WGSL specification and using only features naga's README lists as supported.
Every one must be accepted by every stage and every applicable backend."""

MATRIX = {}


def add(name, src):
    MATRIX[name] = src.strip("\n") + "\n"


add("texture_sampler", """
@group(0) @binding(0) var t: texture_2d<f32>;
@group(0) @binding(1) var s: sampler;
@group(0) @binding(2) var td: texture_depth_2d;
@group(0) @binding(3) var sc: sampler_comparison;
struct VOut { @builtin(position) pos: vec4<f32>, @location(0) uv: vec2<f32> }
@vertex
fn vs(@builtin(vertex_index) i: u32) -> VOut {
    var o: VOut;
    let x = f32(i & 1u);
    let y = f32((i >> 1u) & 1u);
    o.pos = vec4<f32>(x * 2.0 - 1.0, y * 2.0 - 1.0, 0.0, 1.0);
    o.uv = vec2<f32>(x, y);
    return o;
}
@fragment
fn fs(in: VOut) -> @location(0) vec4<f32> {
    let c = textureSample(t, s, in.uv);
    let d = textureSampleCompare(td, sc, in.uv, 0.5);
    let l = textureLoad(t, vec2<i32>(0, 0), 0);
    let dim = textureDimensions(t);
    return c * d + l + vec4<f32>(f32(dim.x));
}
""")

add("atomics_workgroup", """
struct Counters { total: atomic<u32>, hist: array<atomic<i32>, 4> }
@group(0) @binding(0) var<storage, read_write> c: Counters;
var<workgroup> wsum: atomic<u32>;
var<workgroup> tile: array<f32, 64>;
@compute @workgroup_size(64)
fn main(@builtin(local_invocation_index) li: u32, @builtin(global_invocation_id) gid: vec3<u32>) {
    tile[li] = f32(gid.x);
    workgroupBarrier();
    let old = atomicAdd(&wsum, 1u);
    atomicMax(&c.hist[li % 4u], i32(old));
    storageBarrier();
    if (li == 0u) {
        atomicStore(&c.total, atomicLoad(&wsum));
    }
    let r = atomicCompareExchangeWeak(&c.total, 3u, 4u);
    if (r.exchanged) {
        tile[0] = f32(r.old_value);
    }
}
""")

add("vertex_fragment_io_structs", """
struct VIn { @location(0) pos: vec3<f32>, @location(1) col: vec4<f32>, @builtin(instance_index) inst: u32 }
struct VOut {
    @builtin(position) clip: vec4<f32>,
    @location(0) col: vec4<f32>,
    @location(1) @interpolate(flat) id: u32,
    @location(2) @interpolate(linear, centroid) w: f32,
}
struct FOut { @location(0) color: vec4<f32>, @builtin(frag_depth) depth: f32 }
struct U { mvp: mat4x4<f32>, tint: vec4<f32> }
@group(0) @binding(0) var<uniform> u: U;
@vertex
fn vs(v: VIn) -> VOut {
    var o: VOut;
    o.clip = u.mvp * vec4<f32>(v.pos, 1.0);
    o.col = v.col * u.tint;
    o.id = v.inst;
    o.w = v.pos.z;
    return o;
}
@fragment
fn fs(i: VOut, @builtin(front_facing) ff: bool) -> FOut {
    var o: FOut;
    o.color = select(i.col, i.col * 0.5, ff);
    o.depth = clamp(i.w + f32(i.id), 0.0, 1.0);
    return o;
}
""")

add("shared_binding_across_entry_points", """
@group(0) @binding(0) var<uniform> a: vec4<f32>;
@group(0) @binding(0) var<storage, read> b: array<vec4<f32>, 2>;
@group(0) @binding(1) var<uniform> both: vec4<f32>;
fn ha() -> vec4<f32> { return a + both; }
fn hb() -> vec4<f32> { return b[1] + both; }
@vertex
fn vs() -> @builtin(position) vec4<f32> { return ha(); }
@fragment
fn fs() -> @location(0) vec4<f32> { return hb(); }
""")

add("unused_variables_share_binding", """
@group(0) @binding(0) var<uniform> used: vec4<f32>;
@group(0) @binding(0) var<uniform> never_used: vec4<f32>;
@fragment
fn fs() -> @location(0) vec4<f32> { return used; }
""")

add("break_inside_switch_helper", """
fn pick(k: i32) -> i32 {
    var r = 0;
    switch (k) {
        case 1: { r = 10; break; }
        case 2, 3: { if (k == 3) { break; } r = 20; }
        default: { r = 30; }
    }
    return r;
}
@compute @workgroup_size(1)
fn main() {
    var x = pick(2);
    switch (x) {
        case 20: { x = 1; break; }
        default: { break; }
    }
}
""")

add("switch_in_loop_continue", """
fn f(n: i32) -> i32 {
    var acc = 0;
    for (var i = 0; i < n; i++) {
        switch (i) {
            case 0: { continue; }
            case 1: { acc += 1; break; }
            default: { if (i > 5) { break; } acc += 2; }
        }
        acc += 3;
    }
    var j = 0;
    loop {
        if (j >= n) { break; }
        switch (j) {
            case 2: { j += 2; continue; }
            default: {}
        }
        continuing { j += 1; }
    }
    return acc + j;
}
@compute @workgroup_size(1)
fn main() { let v = f(4); }
""")

add("loop_continuing_break_if", """
fn g(n: u32) -> u32 {
    var i = 0u;
    var s = 0u;
    loop {
        s += i;
        continuing {
            i += 1u;
            break if i >= n;
        }
    }
    while (s > 100u) { s -= 7u; }
    return s;
}
@compute @workgroup_size(1)
fn main() { let v = g(5u); }
""")

add("shadowing", """
const k: i32 = 3;
fn max(a: i32, b: i32) -> i32 { return a + b; }
fn f(k: i32) -> i32 {
    var x = k;
    {
        let x = x + 1;
        {
            var x = x * 2;
            x += k;
            return max(x, 1);
        }
    }
}
@compute @workgroup_size(1)
fn main() {
    let min = f(k);
    let abs = 1;
    let r = min + abs;
}
""")

add("forward_references", """
@compute @workgroup_size(1)
fn main() {
    var s: S = make(N);
    s.v[0] = helper(s.n);
    let x = s.v[0] + f32(N2);
}
fn make(n: u32) -> S { return S(n, array<f32, N>()); }
fn helper(n: u32) -> f32 { return f32(n) * SCALE; }
struct S { n: u32, v: array<f32, N> }
const N2: u32 = N * 2u;
const N: u32 = 4u;
const SCALE: f32 = 0.5;
""")

add("pointers", """
struct P { a: i32, b: vec3<f32>, c: array<i32, 3> }
var<private> gp: P;
var<private> gcount: i32;
fn bump(p: ptr<function, i32>) { *p = *p + 1; }
fn scale(p: ptr<function, vec3<f32>>, k: f32) { (*p).y = (*p).y * k; *p = *p * k; }
fn gbump(p: ptr<private, i32>) { *p += 2; }
fn total(p: ptr<function, array<i32, 3>>) -> i32 { return (*p)[0] + (*p)[1] + (*p)[2]; }
@compute @workgroup_size(1)
fn main() {
    var x = 1;
    var v = vec3<f32>(1.0, 2.0, 3.0);
    var s: P;
    var arr = array<i32, 3>(1, 2, 3);
    bump(&x);
    scale(&v, 2.0);
    let q = &s.c[1];
    *q = x + total(&arr);
    let pv = &v;
    (*pv).x = 4.0;
    gbump(&gcount);
    gp.b = v;
    gp.a = gcount + s.c[1];
}
""")

add("const_expressions", """
const A: i32 = 2 + 3 * 4;
const B: u32 = (1u << 4u) | 3u;
const C: f32 = f32(A) / 2.0 - 0.25;
const D: vec3<f32> = vec3<f32>(C, 1.0, 2.0) * 2.0;
const E: array<i32, 3> = array<i32, 3>(A, A + 1, A - 1);
const F: bool = A > 10 && B != 0u;
const G = 7;
const H = 1.5;
const_assert A == 14;
const_assert G + 1 == 8;
var<private> arr: array<f32, B>;
@compute @workgroup_size(4, G - 5)
fn main() {
    var x: array<f32, A>;
    x[E[0] - 14] = D.x + H;
    let y = select(1, 2, F) + G;
    arr[B - 1u] = x[0] + f32(y) + f32(E[2]);
    let z: u32 = G;
    let w: f32 = G;
}
""")

add("runtime_sized_array", """
struct Buf { count: u32, data: array<vec2<f32>> }
@group(0) @binding(0) var<storage, read_write> buf: Buf;
@group(0) @binding(1) var<storage, read> ro: array<u32>;
@compute @workgroup_size(8)
fn main(@builtin(global_invocation_id) id: vec3<u32>) {
    let n = arrayLength(&buf.data);
    let m = arrayLength(&ro);
    if (id.x < n && id.x < m) {
        buf.data[id.x] = vec2<f32>(f32(ro[id.x]), f32(buf.count));
    }
}
""")

add("matrices_vectors_builtins", """
struct U { m: mat3x3<f32>, n: mat2x4<f32>, v: vec3<f32> }
@group(0) @binding(0) var<uniform> u: U;
@fragment
fn fs(@builtin(position) p: vec4<f32>) -> @location(0) vec4<f32> {
    let a = u.m * u.v;
    let b = transpose(u.m) * a;
    let c = u.n * vec2<f32>(1.0, 2.0);
    let d = dot(a, b) + length(c) + determinant(u.m);
    let e = normalize(cross(a, b));
    let f = mix(a, e, 0.5) + clamp(b, vec3<f32>(0.0), vec3<f32>(1.0));
    let g = vec4<f32>(f, d).wzyx;
    let h = pow(abs(g), vec4<f32>(2.0)) + sqrt(abs(p)) + fract(p) + floor(p) - ceil(p);
    let i = vec3<i32>(f) % vec3<i32>(3) + (vec3<i32>(1, 2, 3) << vec3<u32>(1u));
    let j = all(i > vec3<i32>(0)) || any(f < vec3<f32>(0.0));
    let k = smoothstep(0.0, 1.0, d) + step(0.5, d) + sign(d) + exp(-abs(d)) + min(d, 1.0) + max(d, 0.0);
    return select(h, g, j) + vec4<f32>(k) + vec4<f32>(dpdx(p.x), dpdy(p.y), fwidth(p.z), 0.0);
}
""")

add("integer_ops_bitcast", """
@group(0) @binding(0) var<storage, read_write> out: array<u32, 16>;
@compute @workgroup_size(1)
fn main() {
    var a = 7;
    var b = 3u;
    let c = a / 2 + a % 3 - (-a);
    let d = (b << 2u) ^ (b >> 1u) | ~b & 0xffu;
    out[0] = u32(c) + d;
    out[1] = bitcast<u32>(1.5f) + bitcast<u32>(a);
    out[2] = countOneBits(d) + countLeadingZeros(d) + countTrailingZeros(d) + reverseBits(d);
    out[3] = firstLeadingBit(d) + firstTrailingBit(d) + extractBits(d, 2u, 3u) + insertBits(d, b, 1u, 2u);
    out[4] = pack4x8unorm(vec4<f32>(0.5)) + pack2x16float(vec2<f32>(1.0, 2.0));
    let e = unpack4x8snorm(out[4]) + vec4<f32>(unpack2x16unorm(out[3]), 0.0, 0.0);
    out[5] = u32(e.x) + u32(abs(c)) + u32(min(a, 2)) + u32(max(a, 9)) + u32(clamp(a, 0, 4));
    let f = vec2<u32>(1u, 2u) * 3u + vec2<u32>(b);
    out[6] = f.x + f.y + select(1u, 2u, a > 3);
    a++;
    b--;
    a *= 2;
    b |= 8u;
    out[7] = u32(a) + b;
}
""")

add("structs_arrays_nested", """
struct Inner { a: vec2<f32>, b: array<i32, 2> }
struct Outer { i: array<Inner, 2>, m: mat2x2<f32>, f: f32 }
var<private> g: Outer;
fn mk(k: f32) -> Inner { return Inner(vec2<f32>(k), array<i32, 2>(1, 2)); }
@compute @workgroup_size(1)
fn main() {
    var o = Outer(array<Inner, 2>(mk(1.0), mk(2.0)), mat2x2<f32>(1.0, 0.0, 0.0, 1.0), 3.0);
    o.i[1].b[0] = o.i[0].b[1] + 5;
    let idx = o.i[1].b[0] % 2;
    o.i[idx].a = o.m * o.i[1 - idx].a;
    o.m[1] = o.i[0].a;
    o.m[0][1] = o.f;
    g = o;
    var z = Outer();
    z.f = g.i[0].a.y;
    let cp = o.i;
    let e = cp[idx].a.x;
}
""")

add("storage_texture", """
@group(0) @binding(0) var img: texture_storage_2d<rgba8unorm, write>;
@group(0) @binding(1) var src: texture_2d<u32>;
@compute @workgroup_size(8, 8)
fn main(@builtin(global_invocation_id) id: vec3<u32>) {
    let dim = textureDimensions(src);
    if (id.x < dim.x && id.y < dim.y) {
        let t = textureLoad(src, vec2<i32>(id.xy), 0);
        textureStore(img, vec2<i32>(id.xy), vec4<f32>(t) / 255.0);
    }
}
""")

add("discard_and_helpers", """
fn maybe(x: f32) { if (x < 0.0) { discard; } }
@fragment
fn fs(@location(0) v: f32) -> @location(0) vec4<f32> {
    maybe(v);
    if (v > 10.0) { discard; }
    return vec4<f32>(v);
}
""")

add("several_entry_points_same_stage", """
@group(0) @binding(0) var<storage, read_write> d: array<f32, 8>;
var<workgroup> w: array<f32, 8>;
fn common(i: u32) -> f32 { return d[i % 8u] * 2.0; }
@compute @workgroup_size(8)
fn first(@builtin(local_invocation_id) l: vec3<u32>) { w[l.x] = common(l.x); workgroupBarrier(); d[l.x] = w[7u - l.x]; }
@compute @workgroup_size(4, 2, 1)
fn second(@builtin(workgroup_id) g: vec3<u32>, @builtin(num_workgroups) n: vec3<u32>) { d[0] = common(g.x + n.y); }
@compute @workgroup_size(1)
fn third() { d[1] = 1.0; }
""")

add("let_var_types_conversions", """
@compute @workgroup_size(1)
fn main() {
    let a: i32 = 5;
    let b = u32(a);
    let c = f32(b) + f32(a);
    let d = i32(c * 1.5);
    let e = bool(d);
    let f = vec3<f32>(vec3<i32>(1, 2, 3));
    let g = vec2<u32>(f.xy);
    var h: vec4<f32> = vec4<f32>(f, 1.0);
    h = vec4<f32>(vec2<f32>(g), h.zw);
    var i = array<vec2<f32>, 2>(h.xy, h.zw);
    i[1] = vec2<f32>(f32(e), c);
    var m = mat2x2<f32>(i[0], i[1]);
    m = m * 2.0;
    let n = m * i[0];
    var k: f32;
    k = n.x;
    var z = vec3<u32>();
    z.x = b;
}
""")

add("nested_loops_labels_of_flow", """
fn f(n: i32) -> i32 {
    var t = 0;
    for (var i = 0; i < n; i++) {
        for (var j = 0; j < n; j++) {
            if (j == i) { continue; }
            if (j > 3) { break; }
            var k = 0;
            while (k < j) {
                k++;
                if (k == 2) { continue; }
                t += k;
                if (t > 100) { return t; }
            }
        }
        if (i == 7) { break; }
    }
    return t;
}
@compute @workgroup_size(1)
fn main() { let v = f(5); }
""")

add("uniform_struct_layout", """
struct Light { pos: vec3<f32>, radius: f32, color: vec3<f32>, kind: u32 }
struct Scene { view: mat4x4<f32>, lights: array<Light, 4>, count: u32, ambient: vec3<f32> }
@group(0) @binding(0) var<uniform> scene: Scene;
@group(1) @binding(0) var<storage, read> extra: array<Light>;
@fragment
fn fs(@location(0) wp: vec3<f32>) -> @location(0) vec4<f32> {
    var c = scene.ambient;
    for (var i = 0u; i < scene.count; i++) {
        let l = scene.lights[i];
        let d = distance(l.pos, wp);
        if (d < l.radius) { c += l.color * (1.0 - d / l.radius); }
    }
    let e = extra[0];
    return scene.view * vec4<f32>(c + e.color, 1.0);
}
""")

add("private_and_module_constants", """
var<private> counter: u32 = 3u;
var<private> table: array<f32, 3> = array<f32, 3>(1.0, 2.0, 3.0);
const OFFSETS: array<vec2<f32>, 3> = array<vec2<f32>, 3>(vec2<f32>(0.0, 1.0), vec2<f32>(-1.0, -1.0), vec2<f32>(1.0, -1.0));
fn next() -> u32 { counter += 1u; return counter; }
@vertex
fn vs(@builtin(vertex_index) vi: u32) -> @builtin(position) vec4<f32> {
    var offs = OFFSETS;
    let n = next();
    return vec4<f32>(offs[vi % 3u] * table[n % 3u], 0.0, 1.0);
}
""")

add("texture_variants", """
@group(0) @binding(0) var t1: texture_1d<f32>;
@group(0) @binding(1) var t3: texture_3d<f32>;
@group(0) @binding(2) var tc: texture_cube<f32>;
@group(0) @binding(3) var ta: texture_2d_array<f32>;
@group(0) @binding(4) var tm: texture_multisampled_2d<f32>;
@group(0) @binding(5) var s: sampler;
@group(0) @binding(6) var ti: texture_2d<i32>;
@fragment
fn fs(@location(0) uv: vec2<f32>) -> @location(0) vec4<f32> {
    let a = textureSampleLevel(t3, s, vec3<f32>(uv, 0.5), 0.0);
    let b = textureSample(tc, s, vec3<f32>(uv, 1.0));
    let c = textureSample(ta, s, uv, 1);
    let d = textureLoad(tm, vec2<i32>(1, 1), 0);
    let e = textureLoad(t1, 0, 0);
    let f = textureSampleBias(ta, s, uv, 0, 0.5);
    let g = textureSampleGrad(tc, s, vec3<f32>(uv, 1.0), vec3<f32>(0.1), vec3<f32>(0.2));
    let h = vec4<f32>(textureLoad(ti, vec2<i32>(0, 0), 0));
    let n = textureNumLevels(t3) + textureNumLayers(ta) + textureNumSamples(tm);
    return a + b + c + d + e + f + g + h + vec4<f32>(f32(n));
}
""")

add("override_with_default", """
@id(0) override scale: f32 = 2.0;
override flag: bool = true;
@compute @workgroup_size(1)
fn main() {
    var x = 1.0;
    if (flag) { x = x * scale; }
}
""")


# ---- regression programs for recorded findings (valid WGSL; they keep each finding observed) ----
add("const_expr_comparison", """
const A: i32 = 14;
const F: bool = A > 10;
@compute @workgroup_size(1)
fn main() { var x = F; }
""")

add("const_expr_float_conversion", """
const A: i32 = 14;
const C: f32 = f32(A) / 2.0;
@compute @workgroup_size(1)
fn main() { var x = C; }
""")

add("negative_private_initializer", """
var<private> p: i32 = -5i;
var<private> q: f32 = -(1.5);
@compute @workgroup_size(1)
fn main() { p = p + 1; q = q * 2.0; }
""")

add("pointer_param_compound_assign", """
fn bump(p: ptr<function, i32>) { *p += 2; }
fn inc(p: ptr<function, i32>) { (*p)++; }
@compute @workgroup_size(1)
fn main() { var x = 1; bump(&x); inc(&x); }
""")

add("pointer_param_swizzle", """
fn h(p: ptr<function, vec4<u32>>) -> vec3<u32> { return (*p).wxw; }
@compute @workgroup_size(1)
fn main() { var v = vec4<u32>(1u, 2u, 3u, 4u); let r = h(&v); }
""")

add("pointer_param_swizzle_chain", """
fn h(p: ptr<function, vec3<u32>>) -> u32 { return (*p).xy.x; }
@compute @workgroup_size(1)
fn main() { var v = vec3<u32>(1u, 2u, 3u); let r = h(&v); }
""")

add("jumps_nested_in_continuing", """
fn f(n: i32) -> i32 {
    var i = 0;
    var t = 0;
    loop {
        if (i >= n) { break; }
        continuing {
            i++;
            var j = 0;
            loop {
                j++;
                if (j > 2) { break; }
                if (j == 1) { continue; }
                t += j;
            }
            switch (i) {
                case 1: { t += 1; break; }
                default: {}
            }
        }
    }
    return t;
}
@compute @workgroup_size(1)
fn main() { let v = f(3); }
""")

add("discard_in_continuing", """
fn f(n: i32) {
    var i = 0;
    loop {
        if (i >= n) { break; }
        continuing {
            i++;
            if (i == 2) { discard; }
        }
    }
}
@fragment
fn fs() -> @location(0) vec4<f32> {
    f(3);
    return vec4<f32>(1.0);
}
""")
