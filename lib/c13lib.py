"""C13 helpers: drive harness/cmd/passdrive, compare the Go passes with the
extracted Gallina models (tool passmodel), run BEFORE/AFTER under the reference
interpreter (tool irrun) on inputs from a boundary pool."""
import json
import os
import subprocess
import resource
from concurrent.futures import ThreadPoolExecutor

import nagarun
import vcheck

# passes with a Gallina model (the C tie)
MODELLED_LOWERED = ["compact_unused", "compact_expressions", "compact_constants", "compact_types",
                    "reorder_types", "dedup_emits", "unused_pipeline"]
MODELLED_RAW = ["raw:compact_constants", "raw:compact_expressions", "raw:compact_types",
                "raw:reorder_types", "raw:dedup_emits", "raw:lower_pipeline"]
UNMODELLED = ["inline", "dxil_prepare", "sroa", "mem2reg", "dce", "dxil"]
ALL_PASSES = MODELLED_LOWERED + MODELLED_RAW + UNMODELLED


def run_passdrive(tool, programs, passes, workers=None):
    """programs: list of (name, src) -> dict name -> passdrive result"""
    jobs = [{"id": name, "src": src, "data": {"passes": passes}} for name, src in programs]
    return nagarun.parallel_batches(tool, "run", jobs, workers=workers, per_job_timeout=60.0, chunk=8)


def _big_stack():
    for lim in (resource.RLIM_INFINITY, 1 << 30):
        try:
            resource.setrlimit(resource.RLIMIT_STACK, (lim, lim))
            return
        except Exception:
            continue


def run_model_parallel(exe, values, workers=None, timeout=1800):
    """Like vcheck.run_model, split over worker processes; keeps order."""
    workers = workers or max(1, vcheck.NCPU // 2)
    if not values:
        return []
    parts = [list(range(i, len(values), workers)) for i in range(workers)]
    out = [None] * len(values)

    def go(idx):
        if not idx:
            return
        inp = "".join(json.dumps(values[i], separators=(",", ":")) + "\n" for i in idx)
        p = subprocess.run([exe], input=inp, stdout=subprocess.PIPE, stderr=subprocess.PIPE, text=True,
                           timeout=timeout, preexec_fn=_big_stack)
        lines = [l for l in p.stdout.splitlines() if l.strip()]
        if p.returncode != 0 or len(lines) != len(idx):
            # isolate: run one by one so that a single bad input does not hide the others
            for i in idx:
                q = subprocess.run([exe], input=json.dumps(values[i], separators=(",", ":")) + "\n",
                                   stdout=subprocess.PIPE, stderr=subprocess.PIPE, text=True,
                                   timeout=timeout, preexec_fn=_big_stack)
                ls = [l for l in q.stdout.splitlines() if l.strip()]
                out[i] = json.loads(ls[0]) if q.returncode == 0 and ls else {"ok": False, "err": "tool crashed: " + q.stderr[-300:]}
            return
        for i, l in zip(idx, lines):
            out[i] = json.loads(l)

    with ThreadPoolExecutor(workers) as ex:
        list(ex.map(go, parts))
    return out


SENTINEL = 4294967295
SENTINEL_MODEL = 99999     # Passes/Compact.v `sentinel` (a unary nat in the extracted tool)


def desentinel(x):
    """Handles removed by a pass are written as ^uint32(0) by Go; the extracted model
    keeps nat in unary, so the dump is rewritten with a small sentinel."""
    if isinstance(x, dict):
        return {k: desentinel(v) for k, v in x.items()}
    if isinstance(x, list):
        return [desentinel(v) for v in x]
    if isinstance(x, int) and not isinstance(x, bool) and x == SENTINEL:
        return SENTINEL_MODEL
    return x


def has_sentinel(x):
    if isinstance(x, dict):
        return any(has_sentinel(v) for v in x.values())
    if isinstance(x, list):
        return any(has_sentinel(v) for v in x)
    return isinstance(x, int) and not isinstance(x, bool) and x == SENTINEL


def first_diff(a, b, path=""):
    """Smallest path at which two JSON values differ (for reports)."""
    if type(a) != type(b):
        return path, a, b
    if isinstance(a, dict):
        for k in sorted(set(a) | set(b)):
            if a.get(k) != b.get(k):
                return first_diff(a.get(k), b.get(k), path + "/" + k)
        return None
    if isinstance(a, list):
        if len(a) != len(b):
            for i, (x, y) in enumerate(zip(a, b)):
                if x != y:
                    return first_diff(x, y, path + "/%d" % i)
            return path + "/len", len(a), len(b)
        for i, (x, y) in enumerate(zip(a, b)):
            if x != y:
                return first_diff(x, y, path + "/%d" % i)
        return None
    if a != b:
        return path, a, b
    return None
