"""C13 helpers: drive harness/cmd/passdrive, compare the Go passes with the
extracted Gallina models (tool passmodel), run BEFORE/AFTER under the reference
interpreter (tool irrun) on inputs from a boundary pool."""
import json
import os
import subprocess
import resource
from concurrent.futures import ThreadPoolExecutor

import nagarun
import vcheck

try:                                   # the reflection dumps are tens of megabytes per run: a fast parser when there is one
    import orjson
    _loads = orjson.loads
except ImportError:                    # pragma: no cover
    _loads = json.loads

# passes with a Gallina model (the C tie)
MODELLED_LOWERED = ["compact_unused", "compact_expressions", "compact_constants", "compact_types",
                    "reorder_types", "dedup_emits", "unused_pipeline"]
MODELLED_RAW = ["raw:compact_constants", "raw:compact_expressions", "raw:compact_types",
                "raw:reorder_types", "raw:dedup_emits", "raw:lower_pipeline"]
UNMODELLED = ["inline", "dxil_prepare", "sroa", "mem2reg", "dce", "dxil"]
ALL_PASSES = MODELLED_LOWERED + MODELLED_RAW + UNMODELLED


def run_passdrive(tool, programs, passes, workers=None):
    """programs: list of (name, src) -> dict name -> passdrive result; passes: list, or function name -> list"""
    pf = passes if callable(passes) else (lambda _n: passes)
    jobs = [{"id": name, "src": src, "data": {"passes": pf(name)}} for name, src in programs]
    workers = workers or max(1, vcheck.NCPU // 2)
    parts = [jobs[i::workers] for i in range(workers)]
    out = {}
    with ThreadPoolExecutor(workers) as ex:
        for r in ex.map(lambda p: _run_batch(tool, "run", p, per_job_timeout=60.0, chunk=8), parts):
            out.update(r)
    return out


def _run_tool(tool, mode, jobs, timeout):
    """One process of a JSON-lines Go tool on `jobs` (as nagarun._run: memory limit, GOMAXPROCS=2, SIGQUIT on timeout),
    started without fork() and with files instead of pipes: passdrive returns megabytes of dumps per program."""
    import shutil
    import signal
    import tempfile
    tmpdir = os.path.join(vcheck.BUILD, "tmp")
    os.makedirs(tmpdir, exist_ok=True)
    env = vcheck.go_env()
    env["GOMAXPROCS"] = "2"
    w = shutil.which("prlimit")
    argv = ([w, "--as=%d" % nagarun.MEM_LIMIT] if w else []) + [tool, mode]
    with tempfile.TemporaryFile(dir=tmpdir) as fin, tempfile.TemporaryFile(dir=tmpdir) as fout, \
            tempfile.TemporaryFile(dir=tmpdir) as ferr:
        for j in jobs:
            fin.write(json.dumps(j).encode("utf-8"))
            fin.write(b"\n")
        fin.flush()
        fin.seek(0)
        p = subprocess.Popen(argv, stdin=fin, stdout=fout, stderr=ferr, env=env, preexec_fn=None if w else nagarun._limits)
        try:
            rc = p.wait(timeout=timeout)
        except subprocess.TimeoutExpired:
            try:
                p.send_signal(signal.SIGQUIT)      # the Go runtime prints every goroutine's stack
                p.wait(timeout=20)
            except Exception:
                p.kill()
                p.wait()
            rc = 124
        fout.seek(0)
        so = fout.read().decode("utf-8", errors="replace")
        ferr.seek(0)
        se = ("timeout\n" if rc == 124 else "") + ferr.read().decode("utf-8", errors="replace")
    res = {}
    for line in so.splitlines():
        try:
            r = _loads(line)
            res[r.get("id")] = r
        except Exception:
            pass
    return rc, res, se


def _run_batch(tool, mode, jobs, per_job_timeout=20.0, chunk=64):
    """nagarun.run_batch on top of _run_tool: a job without result is isolated (the batch is bisected) and gets
    {"crash": kind, "stderr": tail, "frames": [...]}; every other job keeps its result."""
    out = {}

    def go(js):
        if not js:
            return
        rc, res, se = _run_tool(tool, mode, js, timeout=max(30.0, per_job_timeout * len(js)))
        out.update(res)
        missing = [j for j in js if j["id"] not in res]
        if not missing:
            return
        if len(js) == 1:
            kind = "timeout" if rc == 124 else ("fatal" if rc != 0 else "noresult")
            if "stack overflow" in se or "goroutine stack exceeds" in se:
                kind = "stack_overflow"
            elif "out of memory" in se or "cannot allocate memory" in se:
                kind = "out_of_memory"
            out[js[0]["id"]] = {"id": js[0]["id"], "crash": kind, "stderr": se[:3000] + "\n...\n" + se[-1500:],
                                "frames": nagarun.naga_frames(se)[:8]}
            return
        first = missing[0]
        go([first])
        go([j for j in missing if j is not first])

    for i in range(0, len(jobs), chunk):
        go(jobs[i:i + chunk])
    return out


def _limits(cpu_s, mem_bytes=3 << 30):
    def f():
        for lim in (resource.RLIM_INFINITY, 1 << 30):
            try:
                resource.setrlimit(resource.RLIMIT_STACK, (lim, lim))
                break
            except Exception:
                continue
        try:
            resource.setrlimit(resource.RLIMIT_AS, (mem_bytes, mem_bytes))
            resource.setrlimit(resource.RLIMIT_CPU, (cpu_s, cpu_s + 1))
        except Exception:
            pass
    return f


_PRLIMIT = []


def _limited(exe, cpu_s, mem_bytes=3 << 30):
    """-> (argv, preexec_fn): the tool under CPU/memory/stack limits.  With util-linux `prlimit` the limits are set by a
    wrapper command, so that Python can start the process without fork(): forking the check (hundreds of MB of parsed
    dumps, a dozen worker threads) for every batch write-protects its whole heap each time."""
    if not _PRLIMIT:
        import shutil
        w = shutil.which("prlimit")
        stack = None
        if w:
            for st in ("unlimited:unlimited", str(1 << 30)):
                try:
                    if subprocess.run([w, "--stack=" + st, "true"], stdout=subprocess.DEVNULL, stderr=subprocess.DEVNULL).returncode == 0:
                        stack = st
                        break
                except OSError:
                    pass
        _PRLIMIT.append((w, stack) if w and stack else None)
    if _PRLIMIT[0] is None:
        return [exe], _limits(cpu_s, mem_bytes)
    w, stack = _PRLIMIT[0]
    return [w, "--stack=" + stack, "--as=%d" % mem_bytes, "--cpu=%d:%d" % (cpu_s, cpu_s + 1), exe], None


SENTINEL = 4294967295
SENTINEL_MODEL = 99999     # Passes/Compact.v `sentinel` (a unary nat in the extracted tool)


class Raw:
    """a JSON value kept as text (serialised once, spliced into many jobs)"""
    __slots__ = ("text",)

    def __init__(self, text):
        self.text = text


_RAW_CACHE = {}


def raw(obj, sentinel=False):
    """memoised serialisation of a dump; sentinel=True rewrites ^uint32(0) handles (see desentinel)"""
    key = (id(obj), sentinel)
    r = _RAW_CACHE.get(key)
    if r is None:
        t = json.dumps(obj, separators=(",", ":"))
        if sentinel and str(SENTINEL) in t:
            import re
            t = re.sub(r"(?<![\d.])%d(?![\d.])" % SENTINEL, str(SENTINEL_MODEL), t)
        r = Raw(t)
        _RAW_CACHE[key] = (r, obj)      # keep obj alive so that id() stays unique
        return r
    return r[0]


def encode_job(v):
    if isinstance(v, dict) and isinstance(v.get("ir"), Raw):
        rest = {k: x for k, x in v.items() if k != "ir"}
        return json.dumps(rest, separators=(",", ":"))[:-1] + ',"ir":' + v["ir"].text + "}"
    return json.dumps(v, separators=(",", ":"))


class Lazy:
    """an output line of the model tool, parsed on demand (the canonical `show` of a module is large and the tie first
    compares the text of two lines: the tool prints equal values as equal text)"""
    __slots__ = ("text", "_v")

    def __init__(self, text):
        self.text = text
        self._v = None

    def value(self):
        if self._v is None:
            self._v = _loads(self.text)
        return self._v

    def get(self, k, default=None):
        return self.value().get(k, default)

    def __getitem__(self, k):
        return self.value()[k]


def run_model_parallel(exe, values, workers=None, batch=24, cpu_per_job=6, lazy=False):
    """Like vcheck.run_model, split over worker processes in small batches; keeps order.
    Every process is limited in CPU time and memory (not wall time: the machine may be loaded);
    a job that exceeds them (e.g. the reference interpreter converting an index of 2^31 to a
    unary nat) yields {"ok": False, "kind": "limit"} and does not disturb the others."""
    workers = workers or max(1, vcheck.NCPU // 2)
    if not values:
        return []
    out = [None] * len(values)
    batches = [list(range(i, min(i + batch, len(values)))) for i in range(0, len(values), batch)]

    tmpdir = os.path.join(vcheck.BUILD, "tmp")
    os.makedirs(tmpdir, exist_ok=True)

    def call(idx, cpu):
        # input and output travel through unnamed files in build/tmp: megabytes of module text per batch would
        # otherwise be pumped through pipes by a Python-level poll loop in every worker thread
        import tempfile
        with tempfile.TemporaryFile(dir=tmpdir) as fin, tempfile.TemporaryFile(dir=tmpdir) as fout:
            for i in idx:
                fin.write(encode_job(values[i]).encode("utf-8"))
                fin.write(b"\n")
            fin.flush()
            fin.seek(0)
            argv, pre = _limited(exe, cpu)
            try:
                p = subprocess.run(argv, stdin=fin, stdout=fout, stderr=subprocess.DEVNULL, timeout=3600, preexec_fn=pre)
            except subprocess.TimeoutExpired:
                return None
            fout.seek(0)
            stdout = fout.read().decode("utf-8", errors="replace")
        lines = [l for l in stdout.splitlines() if l.strip()]
        if p.returncode != 0 or len(lines) != len(idx):
            return None
        if lazy:
            return [Lazy(l) for l in lines] if all(l.startswith("{") and l.endswith("}") for l in lines) else None
        try:
            return [_loads(l) for l in lines]
        except Exception:
            return None

    def go(idx):
        r = call(idx, 4 + cpu_per_job * len(idx))
        if r is not None:
            for i, x in zip(idx, r):
                out[i] = x
            return
        for i in idx:
            r1 = call([i], 4 + cpu_per_job)
            out[i] = r1[0] if r1 else {"ok": False, "kind": "limit", "msg": "interpreter exceeded its CPU/memory limit", "err": "limit"}

    with ThreadPoolExecutor(workers) as ex:
        list(ex.map(go, batches))
    return out




def run_grouped(exe, jobs, workers=None):
    """jobs: "run" jobs (run_job).  Those that execute the same dump (same entry point, fuel, reading) are sent as ONE
    "runs" job, so that the module is parsed and decoded once for all its inputs; results in the order of `jobs`.
    A group that hits the CPU/memory limit is re-run input by input."""
    groups, order = {}, []
    for i, j in enumerate(jobs):
        k = (id(j["ir"]), j["ep"], j["fuel"], bool(j.get("lenient")))
        if k not in groups:
            groups[k] = {}
            order.append(k)
        # the same input objects (generated programs: one input set serves every pass) on the same module are run once
        groups[k].setdefault((tuple(id(x) for x in j["globals"]), id(j["args"])), []).append(i)
    gjobs = []
    for k in order:
        firsts = [idx[0] for idx in groups[k].values()]
        j0 = jobs[firsts[0]]
        gjobs.append({"pass": "runs", "ir": j0["ir"], "ep": j0["ep"], "fuel": j0["fuel"], "lenient": bool(j0.get("lenient")),
                      "inputs": [{"globals": jobs[i]["globals"], "args": jobs[i]["args"]} for i in firsts]})
    res = run_model_parallel(exe, gjobs, workers=workers, batch=12, cpu_per_job=12)
    out = [None] * len(jobs)
    redo = []
    for k, r in zip(order, res):
        members = list(groups[k].values())
        if r.get("ok") and isinstance(r.get("results"), list) and len(r["results"]) == len(members):
            for idx, x in zip(members, r["results"]):
                for i in idx:
                    out[i] = x
        elif r.get("kind") == "limit" and sum(len(idx) for idx in members) > 1:
            redo += [i for idx in members for i in idx]
        else:
            for idx in members:
                for i in idx:
                    out[i] = r
    if redo:
        for i, x in zip(redo, run_model_parallel(exe, [jobs[i] for i in redo], workers=workers)):
            out[i] = x
    return out


def desentinel(x):
    """Handles removed by a pass are written as ^uint32(0) by Go; the extracted model
    keeps nat in unary, so the dump is rewritten with a small sentinel."""
    if isinstance(x, dict):
        return {k: desentinel(v) for k, v in x.items()}
    if isinstance(x, list):
        return [desentinel(v) for v in x]
    if isinstance(x, int) and not isinstance(x, bool) and x == SENTINEL:
        return SENTINEL_MODEL
    return x


def has_sentinel(x):
    if isinstance(x, dict):
        return any(has_sentinel(v) for v in x.values())
    if isinstance(x, list):
        return any(has_sentinel(v) for v in x)
    return isinstance(x, int) and not isinstance(x, bool) and x == SENTINEL


def first_diff(a, b, path=""):
    """Smallest path at which two JSON values differ (for reports)."""
    if type(a) != type(b):
        return path, a, b
    if isinstance(a, dict):
        for k in sorted(set(a) | set(b)):
            if a.get(k) != b.get(k):
                return first_diff(a.get(k), b.get(k), path + "/" + k)
        return None
    if isinstance(a, list):
        if len(a) != len(b):
            for i, (x, y) in enumerate(zip(a, b)):
                if x != y:
                    return first_diff(x, y, path + "/%d" % i)
            return path + "/len", len(a), len(b)
        for i, (x, y) in enumerate(zip(a, b)):
            if x != y:
                return first_diff(x, y, path + "/%d" % i)
        return None
    if a != b:
        return path, a, b
    return None


# --------------------------------------------------------------------------
# inputs for the reference interpreter

INT_POOL = [0, 1, 2, 3, 5, 7, 31, 32, 33, 0x7FFFFFFF, 0x80000000, 0xFFFFFFFF, 0xFFFFFFFE, 100, 0x12345678]
FLOAT_SMALL = [0x00000000, 0x3F800000, 0x40000000, 0x40400000, 0xBF800000, 0xC0000000, 0x3F000000, 0x3FC00000, 0x40800000]
FLOAT_POOL = FLOAT_SMALL + [0x80000000, 0x42C80000, 0x4F000000, 0xCF000000, 0x00000001, 0x7F7FFFFF, 0x7F800000, 0xFF800000, 0x7FC00000]


class Unsupported(Exception):
    pass


_SK = None


def scalar_kinds():
    """ScalarKind numbers -> value tag, from the regenerated enum table (coq/Gen/IrEnums.v)."""
    global _SK
    if _SK is None:
        import re
        s = open(os.path.join(vcheck.COQ, "Gen", "IrEnums.v")).read()
        out = {}
        for m in re.finditer(r'\("(\w+)", \[(.*?)\]\)', s, re.S):
            out[m.group(1)] = {name: int(v) for v, name in re.findall(r'\((-?\d+), "(\w+)"\)', m.group(2))}
        _SK = out
    return _SK


def gen_scalar(s, rng, mode):
    e = scalar_kinds()["ScalarKind"]
    k = {e["ScalarSint"]: "i", e["ScalarUint"]: "u", e["ScalarFloat"]: "f", e["ScalarBool"]: "b"}.get(s["Kind"])
    if k is None or (k != "b" and s["Width"] != 4):
        raise Unsupported("scalar")
    if k == "b":
        return {"b": bool(rng.below(2))}
    if k == "f":
        return {"f": rng.choice(FLOAT_SMALL if mode == "small" else FLOAT_POOL)}
    if mode == "small" or rng.below(8) != 0:
        return {k: rng.below(8)}
    return {k: rng.choice(INT_POOL)}


def gen_value(types, th, rng, mode, runtime_len=3):
    t = types[th]["Inner"]
    k = t["_t"]
    if k == "ScalarType":
        return gen_scalar(t, rng, mode)
    if k == "AtomicType":
        return gen_scalar(t["Scalar"], rng, mode)
    if k == "VectorType":
        return {"vec": [gen_scalar(t["Scalar"], rng, mode) for _ in range(t["Size"])]}
    if k == "MatrixType":
        return {"mat": [{"vec": [gen_scalar(t["Scalar"], rng, "small") for _ in range(t["Rows"])]} for _ in range(t["Columns"])]}
    if k == "ArrayType":
        n = t["Size"]["Constant"]
        if n is None:
            n = runtime_len
        if n > 4096:
            raise Unsupported("large array")
        return {"arr": [gen_value(types, t["Base"], rng, mode, runtime_len) for _ in range(n)]}
    if k == "StructType":
        return {"st": [gen_value(types, m["Type"], rng, mode, runtime_len) for m in t["Members"]]}
    raise Unsupported("type " + k)


def make_inputs(ir, ep, rng, mode):
    """-> (globals by name: value|None, args) for one entry point of dump `ir`"""
    sp = scalar_kinds()["AddressSpace"]
    gl = {}
    for g in ir["GlobalVariables"]:
        if g["Space"] in (sp["SpaceStorage"], sp["SpaceUniform"]):
            gl[g["Name"]] = gen_value(ir["Types"], g["Type"], rng, mode)
        else:
            gl[g["Name"]] = None
    args = [gen_value(ir["Types"], a["Type"], rng, "small") for a in ep["Function"]["Arguments"]]
    return gl, args


def run_job(ir, epi, gl, args, fuel, lenient):
    return {"pass": "run", "ir": raw(ir), "ep": epi, "fuel": fuel, "lenient": lenient, "args": args,
            "globals": [gl.get(g["Name"]) for g in ir["GlobalVariables"]]}


def named_globals(ir, res):
    return {g["Name"]: v for g, v in zip(ir["GlobalVariables"], res.get("globals", []))}


# statement / expression kinds of the dump that IR/Decode.v keeps only generically, dropping
# handle fields that the compaction passes use as roots: modules containing them are outside
# the fragment of the model tie
OUT_OF_FRAGMENT_TAGS = ("StmtRayQuery", "StmtSubgroupGather", "StmtSubgroupBallot", "StmtSubgroupCollectiveOperation",
                        "ExprSubgroupOperationResult", "ExprRayQueryGetIntersection")


def out_of_model_fragment(ir):
    txt = json.dumps(ir)
    if any(('"_t": "%s"' % t) in txt for t in OUT_OF_FRAGMENT_TAGS):
        return True
    for ep in ir["EntryPoints"]:
        if ep.get("TaskPayload") is not None or ep.get("MeshInfo") is not None:
            return True
    return False
