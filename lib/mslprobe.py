"""C04 `probe`: one tiny WGSL compute program per (IR operator / math builtin, scalar kind, shape);
compile with naga's MSL backend, read back the expression naga emitted for the result and every
helper function it calls, with the operands abstracted to the variables a, b, c, d.
The result is the regenerated table coq/Gen/MslOpTable.v (gen.py generator `msloptable`)."""
import json

import mslread

WG = {"i32": "i32", "u32": "u32", "f32": "f32", "bool": "bool"}


def wty(kind, n):
    return kind if n == 1 else "vec%d<%s>" % (n, kind)


def storable(kind):
    return "u32" if kind == "bool" else kind


# (key, operand kinds, result kind, wgsl expression over a b c d, shapes)
def operator_list():
    ops = []
    A = lambda key, kinds, res, expr, shapes=(1, 2, 3, 4), scalar_ops=(): ops.append(
        {"key": key, "kinds": kinds, "res": res, "expr": expr, "shapes": shapes, "scalar_ops": scalar_ops})
    for k in ("i32", "u32", "f32"):
        for name, sym in (("add", "+"), ("sub", "-"), ("mul", "*"), ("div", "/")):
            A("%s_%s" % (name, k), [k, k], k, "a %s b" % sym)
        if k != "f32":
            A("mod_%s" % k, [k, k], k, "a % b")
        for name, sym in (("eq", "=="), ("ne", "!="), ("lt", "<"), ("le", "<="), ("gt", ">"), ("ge", ">=")):
            A("%s_%s" % (name, k), [k, k], "bool", "a %s b" % sym)
    A("eq_bool", ["bool", "bool"], "bool", "a == b")
    A("ne_bool", ["bool", "bool"], "bool", "a != b")
    for k in ("i32", "u32"):
        for name, sym in (("and", "&"), ("or", "|"), ("xor", "^")):
            A("%s_%s" % (name, k), [k, k], k, "a %s b" % sym)
        A("shl_%s" % k, [k, "u32"], k, "a << b")
        A("shr_%s" % k, [k, "u32"], k, "a >> b")
        A("not_%s" % k, [k], k, "~a")
    A("and_bool", ["bool", "bool"], "bool", "a & b")
    A("or_bool", ["bool", "bool"], "bool", "a | b")
    A("land_bool", ["bool", "bool"], "bool", "a && b", shapes=(1,))
    A("lor_bool", ["bool", "bool"], "bool", "a || b", shapes=(1,))
    A("lnot_bool", ["bool"], "bool", "!a")
    A("neg_i32", ["i32"], "i32", "-a")
    A("neg_f32", ["f32"], "f32", "-a")
    for k in ("i32", "u32", "f32", "bool"):
        A("select_%s" % k, [k, k, "bool"], k, "select(a, b, c)")
    for k in ("i32", "u32", "f32"):
        A("selectsc_%s" % k, [k, k, "bool"], k, "select(a, b, c)", shapes=(2, 3, 4), scalar_ops=(2,))
    for k in ("i32", "u32", "f32"):
        A("abs_%s" % k, [k], k, "abs(a)")
        A("min_%s" % k, [k, k], k, "min(a, b)")
        A("max_%s" % k, [k, k], k, "max(a, b)")
        A("clamp_%s" % k, [k, k, k], k, "clamp(a, b, c)")
    A("sign_i32", ["i32"], "i32", "sign(a)")
    A("sign_f32", ["f32"], "f32", "sign(a)")
    for k in ("i32", "u32"):
        A("popcount_%s" % k, [k], k, "countOneBits(a)")
        A("clz_%s" % k, [k], k, "countLeadingZeros(a)")
        A("ctz_%s" % k, [k], k, "countTrailingZeros(a)")
        A("reversebits_%s" % k, [k], k, "reverseBits(a)")
        A("firstleadingbit_%s" % k, [k], k, "firstLeadingBit(a)")
        A("firsttrailingbit_%s" % k, [k], k, "firstTrailingBit(a)")
        A("extractbits_%s" % k, [k, "u32", "u32"], k, "extractBits(a, b, c)", scalar_ops=(1, 2))
        A("insertbits_%s" % k, [k, k, "u32", "u32"], k, "insertBits(a, b, c, d)", scalar_ops=(2, 3))
    for f in ("floor", "ceil", "trunc", "round", "sqrt", "saturate"):
        A("%s_f32" % f, ["f32"], "f32", "%s(a)" % f)
    A("fma_f32", ["f32", "f32", "f32"], "f32", "fma(a, b, c)")
    for k in ("i32", "u32", "f32"):
        A("dot_%s" % k, [k, k], k, "dot(a, b)", shapes=(2, 3, 4))
    A("any_bool", ["bool"], "bool", "any(a)", shapes=(2, 3, 4))
    A("all_bool", ["bool"], "bool", "all(a)", shapes=(2, 3, 4))
    for src in ("i32", "u32", "f32", "bool"):
        for dst in ("i32", "u32", "f32", "bool"):
            if src != dst:
                A("conv_%s_%s" % (src, dst), [src], dst, "__CONV__")
    for src in ("i32", "u32", "f32"):
        for dst in ("i32", "u32", "f32"):
            if src != dst:
                A("bitcast_%s_%s" % (src, dst), [src], dst, "__BITCAST__")
    return ops


REDUCING = ("dot_", "any_", "all_")


def program(op, n):
    """WGSL text of the probe program for operator op at shape n (1 = scalar)."""
    names = "abcd"
    members = []
    lets = []
    for i, k in enumerate(op["kinds"]):
        shape = 1 if i in op["scalar_ops"] else n
        members.append("  %s: %s," % (names[i], wty(storable(k), shape)))
        if k == "bool":
            zero = "0u" if shape == 1 else "vec%d<u32>(0u)" % shape
            lets.append("  let %s = buf.%s != %s;" % (names[i], names[i], zero))
        else:
            lets.append("  let %s = buf.%s;" % (names[i], names[i]))
    rshape = 1 if op["key"].startswith(REDUCING) else n
    rk = op["res"]
    members.append("  r: %s," % wty(storable(rk), rshape))
    expr = op["expr"]
    if expr == "__CONV__":
        expr = "%s(a)" % wty(rk, n)
    elif expr == "__BITCAST__":
        expr = "bitcast<%s>(a)" % wty(rk, n)
    if rk == "bool":
        one = "1u" if rshape == 1 else "vec%d<u32>(1u)" % rshape
        zero = "0u" if rshape == 1 else "vec%d<u32>(0u)" % rshape
        store = "  buf.r = select(%s, %s, r);" % (zero, one)
    else:
        store = "  buf.r = r;"
    return ("struct B {\n%s\n}\n@group(0) @binding(0) var<storage, read_write> buf: B;\n"
            "@compute @workgroup_size(1)\nfn main() {\n%s\n  let r = %s;\n%s\n}\n"
            % ("\n".join(members), "\n".join(lets), expr, store))


def all_probes():
    out = []
    for op in operator_list():
        for n in op["shapes"]:
            out.append(("%s@%d" % (op["key"], n), op, n))
    return out


class ProbeError(Exception):
    pass


def subst(e, env):
    """replace variables by their abstraction (a/b/c/d)"""
    if isinstance(e, list):
        if e and e[0] == "var" and e[1] in env:
            return env[e[1]]
        return [subst(x, env) for x in e]
    return e


def calls_in(e, acc):
    if isinstance(e, list):
        if e and e[0] == "call" and isinstance(e[1], str):
            acc.add(e[1])
        for x in e:
            calls_in(x, acc)


def extract_template(text, op):
    """-> (template expr JSON, [helper fdef JSON...]) from the emitted MSL of a probe program"""
    prog = mslread.parse(text)
    ks = [f for f in prog["funcs"] if f["kernel"]]
    if len(ks) != 1:
        raise ProbeError("expected one kernel, unparsed: %s" % prog["unparsed"])
    body = ks[0]["body"]
    names = "abcd"[:len(op["kinds"])]
    env = {}
    template = None
    for st in body:
        if st[0] == "decl":
            _, ty, name, init = st
            if init is None:
                raise ProbeError("uninitialised declaration " + name)
            if name == "r":
                template = subst(init, env)
                continue
            if init[0] == "member" and init[1] == ["var", "buf"] and init[2] in names:
                if name in names:
                    if name != init[2]:
                        raise ProbeError("operand naming")
                    continue
                env[name] = ["var", init[2]]      # _eN temporary loading buf.x
                continue
            if name in names:
                # bool operand: `bool a = _eN != 0u`
                e = subst(init, env)
                ok = e[0] == "bin" and e[1] == "!=" and e[2] == ["var", name]
                if not ok:
                    raise ProbeError("unexpected operand definition for " + name)
                continue
            raise ProbeError("unexpected declaration %s" % name)
        elif st[0] in ("assign", "return"):
            continue
        else:
            raise ProbeError("unexpected statement " + st[0])
    if template is None:
        raise ProbeError("no declaration of r")
    used = set()
    calls_in(template, used)
    helpers = []
    seen = set()
    work = [c for c in sorted(used) if not c.startswith("metal::")]
    while work:
        c = work.pop(0)
        if c in seen:
            continue
        seen.add(c)
        cands = [f for f in prog["funcs"] if f["name"] == c]
        if not cands:
            raise ProbeError("helper %s not parsed: %s" % (c, prog["unparsed"]))
        # overloads: the probe program uses one type only, so there is exactly one definition
        if len(cands) != 1:
            raise ProbeError("helper %s has %d overloads in a single-operator program" % (c, len(cands)))
        helpers.append(cands[0])
        inner = set()
        calls_in(cands[0]["body"], inner)
        work += [x for x in sorted(inner) if not x.startswith("metal::")]
    return template, helpers


# ------------------------------------------------------------------ printing the AST as Coq terms (Msl/Syntax.v)

def cq_str(s):
    return '"' + s.replace('"', '""') + '"'


def cq_sty(s):
    return {"int": "SInt", "uint": "SUint", "float": "SFloat", "bool": "SBool", "char": "SChar"}[s]


def cq_ty(t):
    k = t[0]
    if k == "s":
        return "(TyS %s)" % cq_sty(t[1])
    if k == "atomic":
        return "(TyAtomic %s)" % cq_sty(t[1])
    if k == "v":
        return "(TyV %d %s %s)" % (t[1], cq_sty(t[2]), "true" if t[3] else "false")
    if k == "m":
        return "(TyM %d %d)" % (t[1], t[2])
    if k == "a":
        return "(TyA %s %d)" % (cq_ty(t[1]), t[2])
    if k == "n":
        return "(TyN %s)" % cq_str(t[1])
    raise ProbeError("type " + str(t))


UNOPS = {"-": "UNeg", "!": "UNot", "~": "UBitNot"}
BINOPS = {"+": "BAdd", "-": "BSub", "*": "BMul", "/": "BDiv", "%": "BMod", "==": "BEq", "!=": "BNe", "<": "BLt", "<=": "BLe",
          ">": "BGt", ">=": "BGe", "&": "BAnd", "|": "BOr", "^": "BXor", "&&": "BLAnd", "||": "BLOr", "<<": "BShl", ">>": "BShr"}


def cq_list(xs):
    return "[" + "; ".join(xs) + "]"


def cq_expr(e):
    k = e[0]
    if k == "int":
        return "(EInt %d)" % e[1]
    if k == "uint":
        return "(EUint %d)" % e[1]
    if k == "float":
        return "(EFloat %d)" % e[1]
    if k == "bool":
        return "(EBool %s)" % ("true" if e[1] else "false")
    if k == "var":
        return "(EVar %s)" % cq_str(e[1])
    if k == "un":
        return "(EUn %s %s)" % (UNOPS[e[1]], cq_expr(e[2]))
    if k == "bin":
        return "(EBin %s %s %s)" % (BINOPS[e[1]], cq_expr(e[2]), cq_expr(e[3]))
    if k == "cond":
        return "(ECond %s %s %s)" % (cq_expr(e[1]), cq_expr(e[2]), cq_expr(e[3]))
    if k == "cast":
        return "(ECast %s %s)" % (cq_ty(e[1]), cq_expr(e[2]))
    if k == "astype":
        return "(EAsType %s %s)" % (cq_ty(e[1]), cq_expr(e[2]))
    if k == "ctor":
        return "(ECtor %s %s)" % (cq_ty(e[1]), cq_list([cq_expr(x) for x in e[2]]))
    if k == "zero":
        return "EZero"
    if k == "dc":
        return "EDC"
    if k == "member":
        return "(EMember %s %s)" % (cq_expr(e[1]), cq_str(e[2]))
    if k == "index":
        return "(EIndex %s %s)" % (cq_expr(e[1]), cq_expr(e[2]))
    if k == "call":
        return "(ECall %s %s)" % (cq_str(e[1]), cq_list([cq_expr(x) for x in e[2]]))
    if k == "addr":
        return "(EAddr %s)" % cq_expr(e[1])
    raise ProbeError("expr " + str(e)[:80])


def cq_opt(f, x):
    return "None" if x is None else "(Some %s)" % f(x)


def cq_stmt(s):
    k = s[0]
    if k == "decl":
        return "(SDecl %s %s %s)" % (cq_ty(s[1]), cq_str(s[2]), cq_opt(cq_expr, s[3]))
    if k == "assign":
        op = "None" if s[1] == "=" else "(Some %s)" % BINOPS[s[1][:-1]]
        return "(SAssign %s %s %s)" % (op, cq_expr(s[2]), cq_expr(s[3]))
    if k == "if":
        return "(SIf %s %s %s)" % (cq_expr(s[1]), cq_list([cq_stmt(x) for x in s[2]]), cq_list([cq_stmt(x) for x in s[3]]))
    if k == "while":
        return "(SWhile %s)" % cq_list([cq_stmt(x) for x in s[1]])
    if k == "switch":
        cases = ["(%s, %s)" % (cq_list([cq_opt(cq_expr, l) for l in c[0]]), cq_list([cq_stmt(x) for x in c[1]])) for c in s[2]]
        return "(SSwitch %s %s)" % (cq_expr(s[1]), cq_list(cases))
    if k == "break":
        return "SBreak"
    if k == "continue":
        return "SContinue"
    if k == "return":
        return "(SReturn %s)" % cq_opt(cq_expr, s[1])
    if k == "block":
        return "(SBlock %s)" % cq_list([cq_stmt(x) for x in s[1]])
    if k == "expr":
        return "(SExpr %s)" % cq_expr(s[1])
    if k == "barrier":
        return "SBarrier"
    raise ProbeError("stmt " + str(s)[:80])


def cq_param(p):
    a = p["attr"]
    attr = "ANone" if a is None else ("(ABuffer %d)" % a[1] if a[0] == "buffer" else "(ABuiltin %s)" % cq_str(a[1]))
    return "(mkparam %s %s %s %s %s)" % (cq_str(p["name"]), cq_ty(p["ty"]), "true" if p["mode"] == "ref" else "false",
                                         cq_str(p["space"]), attr)


def cq_fdef(f):
    return "(mkfdef %s %s %s %s %s)" % (cq_str(f["name"]), cq_opt(cq_ty, f["ret"]), cq_list([cq_param(p) for p in f["params"]]),
                                        cq_list([cq_stmt(s) for s in f["body"]]), "true" if f["kernel"] else "false")


def table_file(rows):
    """rows: list of (key, n, template JSON, [helper JSON])"""
    out = ["From Coq Require Import List ZArith String.", "Import ListNotations.",
           "Require Import Naga.Msl.Syntax Naga.Msl.Catalogue.", "Open Scope string_scope.", "Open Scope Z_scope.", "",
           "(* what naga's MSL backend emits now for each (operator, kind, shape): template over a b c d and helper bodies *)",
           "Definition table : list entry := ["]
    items = []
    for key, n, t, hs in rows:
        items.append("  mkentry %s %d\n    %s\n    %s" % (cq_str(key), n, cq_expr(t), cq_list([cq_fdef(h) for h in hs])))
    out.append(";\n".join(items))
    out.append("].")
    return "\n".join(out) + "\n"
