"""C03 - overload resolution of the generated HLSL helper functions, on the emitted TEXT.

naga's HLSL writer wraps some operators in helper functions (naga_div, naga_mod, naga_neg, naga_abs, naga_f2i32 ...)
that it declares once per operand type, as HLSL overloads.  The catalogue lemmas (coq/Hlsl/CatalogueProofs.v) are about
the helper body instantiated AT THE OPERAND TYPE of the IR operator; they say nothing if a call binds to an overload of
ANOTHER type, which HLSL allows silently through implicit conversions (int64_t -> int truncates, float -> half rounds,
int -> uint reinterprets).  This module checks, on every emitted text, the side condition under which the lemmas apply:

    every call `helper(a1, ..., an)` whose arguments are typed names (baked temporaries `T _eN = ...`, locals,
    parameters) has a declared overload whose parameter types are EXACTLY the arguments' declared types.

It reads the text directly (not through lib/hlslread.py) so that 64-bit and 16-bit programs, which are outside the
interpreter's fragment, are covered too.  Arguments that are not plain names are wildcards (never a guess)."""
import re

HEAD = re.compile(r"^([A-Za-z_][\w]*(?:<[^>]*>)?)\s+([A-Za-z_]\w*)\s*\(([^()]*)\)\s*(?::\s*\w+)?\s*\{?\s*$")
LOCAL = re.compile(r"^\s+(?:const\s+|static\s+)*([A-Za-z_]\w*(?:<[^<>]*>)?)\s+([A-Za-z_]\w*)\s*(\[[^\]]*\])*\s*(=|;)")
HELPER_CALL = re.compile(r"\b(_?naga_\w+|Naga[A-Z]\w*)\s*\(")
NOT_TYPES = {"return", "if", "else", "while", "for", "do", "switch", "case", "break", "continue", "discard", "default"}


def split_args(s):
    out, depth, cur = [], 0, ""
    for ch in s:
        if ch in "([{":
            depth += 1
        elif ch in ")]}":
            depth -= 1
        if ch == "," and depth == 0:
            out.append(cur.strip())
            cur = ""
        else:
            cur += ch
    if cur.strip():
        out.append(cur.strip())
    return out


def balanced(text, i):
    """text[i] == '(' -> index after the matching ')' (or None)"""
    depth = 0
    for j in range(i, len(text)):
        if text[j] == "(":
            depth += 1
        elif text[j] == ")":
            depth -= 1
            if depth == 0:
                return j + 1
    return None


def functions(text):
    """-> [(ret, name, [(type, name)], body text)] for the column-0 function definitions"""
    raw = text.split("\n")
    lines = []
    k = 0
    while k < len(raw):                      # join a header spread over several lines (`T f(\n    T a,\n    T b\n) {`)
        l = raw[k]
        if l and not l.startswith((" ", "\t", "}", "/")) and l.count("(") > l.count(")"):
            while k + 1 < len(raw) and l.count("(") > l.count(")"):
                k += 1
                l = l + " " + raw[k].strip()
        lines.append(l)
        k += 1
    out = []
    i = 0
    while i < len(lines):
        m = HEAD.match(lines[i])
        if m and m.group(1) not in NOT_TYPES and not lines[i].startswith((" ", "\t")):
            params = []
            for p in split_args(m.group(3)):
                p = re.sub(r":\s*\w+$", "", p).strip()            # semantic
                p = re.sub(r"^(?:in|out|inout|uniform|const|nointerpolation|linear|centroid|sample|noperspective)\s+", "", p)
                pm = re.match(r"^(?:(?:in|out|inout)\s+)?([A-Za-z_]\w*(?:<[^<>]*>)?)\s+([A-Za-z_]\w*)(\[[^\]]*\])*$", p)
                params.append((pm.group(1) + ("[]" if pm.group(3) else ""), pm.group(2)) if pm else (None, None))
            j = i
            # body: up to the closing brace at column 0
            body = []
            while j < len(lines) and not lines[j].startswith("}"):
                body.append(lines[j])
                j += 1
            out.append((m.group(1), m.group(2), params, "\n".join(body[1:])))
            i = j
        i += 1
    return out


def check(text):
    """-> (problems, stats); problems: [(kind, helper, argument types, available overloads, the call text)]"""
    funcs = functions(text)
    overloads = {}
    for ret, name, params, _b in funcs:
        if HELPER_CALL.match(name + "("):
            overloads.setdefault(name, []).append([t for t, _n in params])
    problems = []
    stats = {"helper_overloads": sum(len(v) for v in overloads.values()), "helper_calls": 0, "calls_with_typed_arguments": 0}
    for ret, fname, params, body in funcs:
        env = {n: t for t, n in params if n}
        for line in body.split("\n"):
            lm = LOCAL.match(line)
            if lm and lm.group(1) not in NOT_TYPES:
                env[lm.group(2)] = lm.group(1) + ("[]" if lm.group(3) else "")
            for cm in HELPER_CALL.finditer(line):
                end = balanced(line, cm.end() - 1)
                if end is None:
                    continue
                name = cm.group(1)
                args = split_args(line[cm.end():end - 1])
                stats["helper_calls"] += 1
                types = [env.get(a) if re.match(r"^[A-Za-z_]\w*$", a) else None for a in args]
                if name not in overloads:
                    problems.append(("undeclared", name, types, [], line.strip()))
                    continue
                if not any(types):
                    continue
                stats["calls_with_typed_arguments"] += 1
                ok = any(len(o) == len(types) and all(t is None or t == p for t, p in zip(types, o)) for o in overloads[name])
                if not ok:
                    problems.append(("no-exact-overload", name, types, overloads[name], line.strip()))
    return problems, stats


# ---------------------------------------------------------------------------------------------------------------
# programs that use ONE wrapped operator at TWO operand types of the same kind and shape but different width
# (the overload sets of the helpers must keep them apart), in both orders of first use

def width_mix_programs():
    out = []
    pairs = [("i32", "i64"), ("i64", "i32"), ("u32", "u64"), ("u64", "u32")]
    shapes = [("", "{t}"), ("2", "vec2<{t}>"), ("3", "vec3<{t}>"), ("4", "vec4<{t}>")]
    for t1, t2 in pairs:
        for sn, sh in shapes:
            ty1, ty2 = sh.format(t=t1), sh.format(t=t2)
            for opn, op in (("div", "/"), ("mod", "%")):
                src = ("@group(0) @binding(0) var<storage, read_write> a: array<%s, 4>;\n"
                       "@group(0) @binding(1) var<storage, read_write> b: array<%s, 4>;\n"
                       "@compute @workgroup_size(1) fn main() {\n  a[0] = a[1] %s a[2];\n  b[0] = b[1] %s b[2];\n  a[3] = a[0] %s a[1];\n}\n"
                       % (ty1, ty2, op, op, op))
                out.append(("mix_%s_%s_%s%s" % (opn, t1, t2, sn), src))
    for t1, t2 in (("i32", "i64"), ("i64", "i32")):
        for sn, sh in shapes[:2]:
            ty1, ty2 = sh.format(t=t1), sh.format(t=t2)
            src = ("@group(0) @binding(0) var<storage, read_write> a: array<%s, 4>;\n"
                   "@group(0) @binding(1) var<storage, read_write> b: array<%s, 4>;\n"
                   "@compute @workgroup_size(1) fn main() {\n  a[0] = -a[1];\n  b[0] = -b[1];\n  a[2] = abs(a[3]);\n  b[2] = abs(b[3]);\n}\n" % (ty1, ty2))
            out.append(("mix_negabs_%s_%s%s" % (t1, t2, sn), src))
    for t1, t2 in (("f32", "f16"), ("f16", "f32")):
        for sn, sh in shapes[:3]:
            ty1, ty2 = sh.format(t=t1), sh.format(t=t2)
            src = ("enable f16;\n@group(0) @binding(0) var<storage, read_write> a: array<%s, 4>;\n"
                   "@group(0) @binding(1) var<storage, read_write> b: array<%s, 4>;\n"
                   "@compute @workgroup_size(1) fn main() {\n  a[0] = a[1] %% a[2];\n  b[0] = b[1] %% b[2];\n}\n" % (ty1, ty2))
            out.append(("mix_fmod_%s_%s%s" % (t1, t2, sn), src))
    return out
