"""Control skeleton of an emitted function body, for the recogniser of the control-flow encodings
(coq/Target/Shapes.v, extracted tool `cfshape`): tie V of the statement-level theorems of coq/Target/*.v.

skeleton(body) maps the statement list of one function in the AST of lib/glslread.py, lib/hlslread.py or
lib/mslread.py to the JSON form decoded by Shapes.dec_sk.  Trusted and deliberately dumb: tag renaming, every
expression is reduced to the identifiers it mentions; the SHAPES are decided by the Gallina recogniser only.

  ["declb", x, true|false]     bool x = true|false;
  ["declc", x, ok]             uint2 x = ...;  (x has the writers' stem loop_bound; ok = initialiser is all-ones)
  ["setb", x, b]               x = true|false;
  ["dec", x]                   x -= uint2(x.y == 0u, 1u);
  ["loop", body]               while(true) { }
  ["once", body]               do { } while(false);
  ["oloop", kind, names, body] any other loop (while(c), do-while(c), for)
  ["if", cond, a, b]           cond = ["not", x] | ["var", x] | ["zero", x] (all(x == uint2(0u))) | ["other", names]
  ["switch", names, [body..]]  ["break"] ["continue"] ["return", names] ["block", body] ["other", names]
"""
import json

ALL_ONES = 4294967295


def names(e, acc=None):
    """identifiers mentioned by an expression / statement of any of the three reader ASTs"""
    if acc is None:
        acc = []
    if isinstance(e, list):
        if len(e) >= 2 and e[0] == "var" and isinstance(e[1], str):
            if e[1] not in acc:
                acc.append(e[1])
        else:
            for x in e:
                names(x, acc)
    return acc


def _bool_lit(e):
    if isinstance(e, list) and len(e) == 2 and e[0] in ("bool", "b") and isinstance(e[1], bool):
        return e[1]
    return None


def _uint_lit(e, v):
    return isinstance(e, list) and len(e) == 2 and e[0] in ("u", "uint") and e[1] == v


def _is_bool_type(t):
    return t in (["s", "bool"], ["scal", "bool"])


def _is_uint2_type(t):
    return t in (["vec", "uint", 2], ["v", 2, "uint", False], ["v", "uint", 2])


def _uint2_ctor(e):
    """arguments of a uint2 / uvec2 constructor, else None"""
    if isinstance(e, list) and len(e) == 3 and e[0] == "ctor" and _is_uint2_type(e[1]) and isinstance(e[2], list):
        return e[2]
    return None


def _var(e):
    if isinstance(e, list) and len(e) == 2 and e[0] == "var" and isinstance(e[1], str):
        return e[1]
    return None


def _zero_test(c):
    """all(x == uint2(0u, 0u))  /  metal::all(x == uint2(0u))  ->  x"""
    if isinstance(c, list) and len(c) == 3 and c[0] == "call" and c[1] in ("all", "metal::all") and len(c[2]) == 1:
        a = c[2][0]
        if isinstance(a, list) and len(a) == 4 and a[0] == "bin" and a[1] == "==":
            x = _var(a[2])
            args = _uint2_ctor(a[3])
            if x is not None and args and all(_uint_lit(z, 0) for z in args):
                return x
    return None


def _decrement(lhs, op, rhs):
    """x -= uint2(x.y == 0u, 1u)  ->  x"""
    x = _var(lhs)
    args = _uint2_ctor(rhs)
    if x is None or op not in ("-", "-=") or not args or len(args) != 2:
        return None
    a, b = args
    if not _uint_lit(b, 1):
        return None
    if (isinstance(a, list) and len(a) == 4 and a[0] == "bin" and a[1] == "==" and _uint_lit(a[3], 0)
            and isinstance(a[2], list) and len(a[2]) == 3 and a[2][0] in ("member", "field") and a[2][2] == "y"
            and _var(a[2][1]) == x):
        return x
    return None


def cond(c):
    if isinstance(c, list) and len(c) == 3 and c[0] == "un" and c[1] == "!" and _var(c[2]) is not None:
        return ["not", _var(c[2])]
    if _var(c) is not None:
        return ["var", _var(c)]
    z = _zero_test(c)
    if z is not None:
        return ["zero", z]
    return ["other", names(c)]


def stmt(s):
    t = s[0]
    if t == "decl":
        _, ty, x, init = s
        if _is_bool_type(ty) and _bool_lit(init) is not None:
            return ["declb", x, _bool_lit(init)]
        if x.startswith("loop_bound"):
            args = _uint2_ctor(init) if _is_uint2_type(ty) else None
            return ["declc", x, bool(args) and all(_uint_lit(z, ALL_ONES) for z in args)]
        return ["other", [x] + [n for n in names(init) if n != x]]
    if t == "assign":
        if len(s) == 3:                      # glsl: ["assign", lhs, rhs]
            op, lhs, rhs = "=", s[1], s[2]
        else:                                # hlsl / msl: ["assign", op, lhs, rhs]
            op, lhs, rhs = s[1], s[2], s[3]
        if op in (None, "=") and _var(lhs) is not None and _bool_lit(rhs) is not None:
            return ["setb", _var(lhs), _bool_lit(rhs)]
        d = _decrement(lhs, op, rhs)
        if d is not None:
            return ["dec", d]
        return ["other", names([lhs, rhs])]
    if t == "if":
        return ["if", cond(s[1]), block(s[2]), block(s[3] or [])]
    if t == "while":
        if len(s) == 2:                      # msl: while(true) only
            return ["loop", block(s[1])]
        if _bool_lit(s[1]) is True:
            return ["loop", block(s[2])]
        return ["oloop", "while", names(s[1]), block(s[2])]
    if t == "dowhile":
        if _bool_lit(s[2]) is False:
            return ["once", block(s[1])]
        return ["oloop", "dowhile", names(s[2]), block(s[1])]
    if t == "for":
        return ["oloop", "for", names([s[1], s[2], s[3]]), block(s[4])]
    if t == "switch":
        return ["switch", names(s[1]), [block(c[1]) for c in s[2]]]
    if t == "break":
        return ["break"]
    if t == "continue":
        return ["continue"]
    if t == "return":
        return ["return", names(s[1:])]
    if t == "block":
        return ["block", block(s[1])]
    return ["other", names(s[1:])]


def block(b):
    if b and isinstance(b, list) and isinstance(b[0], str):      # a single statement where a list is expected
        return [stmt(b)]
    return [stmt(s) for s in (b or [])]


def skeleton(body):
    return block(body)


def functions_of(parsed):
    """[(name, body)] of a reader result (glslread: {"ast": {"funcs"}}, hlslread / mslread: {"funcs"})"""
    ast = parsed.get("ast", parsed)
    return [(f.get("name", "?"), f.get("body") or []) for f in ast.get("funcs", [])]


TARGET_FILES = ["Target/Structured.v", "Target/LoopInit.v", "Target/LoopBound.v", "Target/ContinueForward.v",
                "Target/SwitchForms.v", "Target/Desugar.v", "Target/IrInstance.v", "Target/GlslInstance.v", "Target/Examples.v",
                "Target/Shapes.v", "Target/ContinueForwardConv.v", "Target/SwitchFormsConv.v", "Target/ExamplesConv.v"]


def build_exe():
    """the extracted recogniser; re-extracted only when its sources changed (extraction takes ~25 s)"""
    import os
    import vcheck
    import ocamlbuild
    exe = os.path.join(vcheck.BUILD, "bin", "cfshape_model")
    deps = [os.path.join(vcheck.COQ, "Extract/CfShapeExtract.v"), os.path.join(vcheck.COQ, "Target/Shapes.v"),
            os.path.join(vcheck.COQ, "Base/Json.v"), os.path.join(vcheck.VERIF, "ocaml", "common", "driver.ml")]
    try:
        t = os.path.getmtime(exe)
        if all(os.path.getmtime(p) < t for p in deps):
            return exe
    except OSError:
        pass
    return ocamlbuild.build("cfshape")


ACCEPTED_OTHER_LOOPS = ("other_loop:for",)        # the counted loop of workgroup zero-initialisation (not an IR statement)


class Shapes:
    """collects emitted texts, runs the extracted recogniser once, reports and counts"""

    def __init__(self, exe, dialect):
        self.exe, self.dialect = exe, dialect
        self.items = []          # (tag, function name, skeleton, files)
        self.counts = {}
        self.texts = 0
        self.functions = 0
        self.bad = 0
        self.reported = set()
        self.ctx = None          # the check's context (violations of the generated family are not shrunk: the key is the shape)

    def add(self, tag, parsed, files):
        self.texts += 1
        for fname, body in functions_of(parsed):
            try:
                sk = skeleton(body)
            except (IndexError, TypeError, ValueError, AttributeError) as e:
                sk = [["other", ["<cfskel: %s>" % type(e).__name__]]]
            self.items.append((tag, fname, sk, files))

    def run(self, ctx=None, run_model=None):
        """run_model = vcheck.run_model"""
        if not self.items:
            return
        ctx = ctx or self.ctx
        if run_model is None:
            import vcheck
            run_model = vcheck.run_model
        res = run_model(self.exe, [{"body": it[2]} for it in self.items])
        for (tag, fname, sk, files), r in zip(self.items, res):
            self.functions += 1
            for e in r.get("events", []):
                bad = e.startswith("bad:") or (e.startswith("other_loop:") and e not in ACCEPTED_OTHER_LOOPS)
                if bad:
                    self.bad += 1
                    if e in self.reported:
                        continue
                    self.reported.add(e)
                    fs = dict(files or {})
                    fs["skeleton.json"] = json.dumps(sk)
                    ctx.violation("control flow emitted for %s (function %s, %s) is not in a shape covered by the encoding theorems "
                                  "of coq/Target: %s" % (tag, fname, self.dialect, e), files=fs,
                                  key="cfshape:%s:%s" % (self.dialect, e),
                                  broken="Target/Shapes.v: emitted loop/switch outside the proved encodings")
                else:
                    self.counts[e] = self.counts.get(e, 0) + 1
        self.items = []

    def evidence(self):
        return {"texts": self.texts, "functions": self.functions, "shapes": dict(sorted(self.counts.items())),
                "outside_proved_shapes": self.bad}


# ---------------------------------------------------------------- lowering shapes in the IR dump (C01)
# Mirror of coq/Target/Desugar.v:  lowered c body upd = Loop [guard; Block body] upd None  with
# guard = If c [] [Break]  (the Emit statements that evaluate c stand before the guard), and of the short-circuit form
# and_enc / or_enc = If a' (sb ++ [Store t b]) [Store t lit].  Python predicates; the definitions are the Gallina ones.

def _kind(s):
    return (s.get("Kind") or {}).get("_t")


def ir_loop_shape(loop):
    """'lowered_for_while' (Desugar.lowered: the statements before the guard only evaluate the condition: Emit)
    | 'lowered_for_while_effectful_condition' (same shape, but the condition contains a call or a short-circuit
      operator, i.e. statements: outside the hypothesis "c is a function of the state" of c01_while_desugar_equiv; counted)
    | 'loop' (a WGSL loop statement)"""
    k = loop["Kind"]
    body = k.get("Body") or []
    if k.get("BreakIf") is None and len(body) >= 2 and _kind(body[-2]) == "StmtIf" and _kind(body[-1]) == "StmtBlock":
        g = body[-2]["Kind"]
        if not (g.get("Accept") or []) and [_kind(x) for x in (g.get("Reject") or [])] == ["StmtBreak"]:
            if all(_kind(x) == "StmtEmit" for x in body[:-2]):
                return "lowered_for_while"
            return "lowered_for_while_effectful_condition"
    return "loop"


def ir_shapes(ir):
    """counts of loop shapes over all functions of an IR dump"""
    counts = {}

    def walk(b):
        for st in b or []:
            k = st.get("Kind") or {}
            t = k.get("_t")
            if t == "StmtLoop":
                sh = ir_loop_shape(st)
                counts[sh] = counts.get(sh, 0) + 1
                walk(k.get("Body"))
                walk(k.get("Continuing"))
            elif t == "StmtIf":
                walk(k.get("Accept"))
                walk(k.get("Reject"))
            elif t == "StmtBlock":
                walk(k.get("Block"))
            elif t == "StmtSwitch":
                for c in k.get("Cases") or []:
                    walk(c.get("Body"))
    for f in list(ir.get("Functions") or []) + [ep.get("Function") or {} for ep in ir.get("EntryPoints") or []]:
        walk(f.get("Body"))
    return counts


def wgsl_for_while_count(src):
    import re
    src = re.sub(r"//[^\n]*", "", src)
    src = re.sub(r"/\*.*?\*/", "", src, flags=re.S)
    return len(re.findall(r"\bfor\s*\(", src)) + len(re.findall(r"\bwhile\b", src))


class IrShapes:
    """every `for` / `while` of the source must arrive in the IR in the lowered shape of Desugar.v"""

    def __init__(self):
        self.programs = 0
        self.counts = {}
        self.bad = 0

    def add(self, ctx, name, src, ir):
        self.programs += 1
        c = ir_shapes(ir)
        for k, v in c.items():
            self.counts[k] = self.counts.get(k, 0) + v
        want = wgsl_for_while_count(src)
        if c.get("lowered_for_while", 0) + c.get("lowered_for_while_effectful_condition", 0) < want:
            self.bad += 1
            ctx.violation("lowering of %s: the source has %d for/while loops but only %d IR loops have the shape "
                          "Loop{[if c {} else {break}; Block body]; update; no break_if} covered by c01_while_desugar_equiv"
                          % (name, want, c.get("lowered_for_while", 0)), files={"program.wgsl": src},
                          key="cfshape:ir:for-while-not-in-lowered-shape",
                          broken="Target/Desugar.v: for/while lowered to another shape")

    def evidence(self):
        return {"programs": self.programs, "ir_loops": dict(sorted(self.counts.items())), "outside_proved_shapes": self.bad}
