"""Shared machinery for /verif checks (see DESIGN.md section 6).

Every property check is a module checks/<id>.py exposing run(ctx).  This
library gives it:
  * environment set-up for building naga offline with the `verif` tag,
  * (re)building the Go harness against /repo's *current working tree*,
  * regenerating coq/Gen/*.v and re-checking the Coq development with make,
  * counting theorems / Print Assumptions output for evidence,
  * evidence writing, replay directories, known findings, VIOLATION lines.
"""
import fcntl
import hashlib
import json
import os
import re
import subprocess
import sys
import time

VERIF = os.path.dirname(os.path.dirname(os.path.abspath(__file__)))
REPO = os.environ.get("VERIF_REPO", "/repo")
COQ = os.path.join(VERIF, "coq")
HARNESS = os.path.join(VERIF, "harness")
BUILD = os.path.join(VERIF, "build")          # ignored by git; binaries and scratch
EVIDENCE = os.path.join(VERIF, "evidence")
REPLAYS = os.path.join(VERIF, "replays")
KNOWN = os.path.join(VERIF, "known_findings.jsonl")
NCPU = os.cpu_count() or 4


def go_env():
    env = dict(os.environ)
    env["GOFLAGS"] = "-mod=mod"
    env["GOPROXY"] = "off"
    env.pop("GOSUMDB", None)        # must stay default: toolchain verification
    env.pop("GOTOOLCHAIN", None)    # auto: go.mod asks for 1.25 (cached toolchain)
    env.setdefault("GOCACHE", os.path.join(BUILD, "gocache"))
    return env


def sh(cmd, cwd=None, env=None, timeout=None, inp=None, check=False):
    """Run a command, return (rc, stdout, stderr) as text."""
    p = subprocess.run(cmd, cwd=cwd, env=env, input=inp, timeout=timeout,
                       stdout=subprocess.PIPE, stderr=subprocess.PIPE,
                       shell=isinstance(cmd, str), text=True, errors="replace")
    if check and p.returncode != 0:
        raise RuntimeError("command failed: %s\n%s\n%s" % (cmd, p.stdout[-4000:], p.stderr[-4000:]))
    return p.returncode, p.stdout, p.stderr


class Lock:
    """File lock so concurrent checks do not run make / go build at once."""
    def __init__(self, name):
        os.makedirs(BUILD, exist_ok=True)
        self.path = os.path.join(BUILD, name + ".lock")
    def __enter__(self):
        self.f = open(self.path, "w")
        fcntl.flock(self.f, fcntl.LOCK_EX)
        return self
    def __exit__(self, *a):
        fcntl.flock(self.f, fcntl.LOCK_UN)
        self.f.close()


# --------------------------------------------------------------------------
# Go harness

def build_harness(tools=None, race=False):
    """(Re)build harness binaries against /repo's working tree, tag verif.
    Returns dict tool -> path.  Raises BuildBroken if naga does not build."""
    os.makedirs(os.path.join(BUILD, "bin"), exist_ok=True)
    with Lock("gobuild"):
        gomod = "module verifharness\n\ngo 1.25\n\nrequire github.com/gogpu/naga v0.0.0\n\nreplace github.com/gogpu/naga => %s\n" % REPO
        write_if_changed(os.path.join(HARNESS, "go.mod"), gomod)
        gosum = os.path.join(REPO, "go.sum")
        if os.path.exists(gosum):
            with open(gosum) as f, open(os.path.join(HARNESS, "go.sum"), "w") as g:
                g.write(f.read())
        out = {}
        cmddir = os.path.join(HARNESS, "cmd")
        names = tools or sorted(os.listdir(cmddir))
        for t in names:
            dst = os.path.join(BUILD, "bin", t + ("-race" if race else ""))
            cmd = ["go", "build", "-tags", "verif"] + (["-race"] if race else []) + ["-o", dst, "./cmd/" + t]
            rc, so, se = sh(cmd, cwd=HARNESS, env=go_env(), timeout=1200)
            if rc != 0:
                raise BuildBroken("go build of harness tool %s failed:\n%s" % (t, (so + se)[-3000:]))
            out[t] = dst
        return out


class BuildBroken(Exception):
    pass


def run_tool(path, args=(), inp=None, timeout=600, env=None):
    e = go_env()
    if env:
        e.update(env)
    return sh([path] + list(args), inp=inp, timeout=timeout, env=e)


def jsonl_tool(path, args, jobs, timeout=900):
    """Send one JSON job per line, get one JSON result per line."""
    inp = "".join(json.dumps(j) + "\n" for j in jobs)
    rc, so, se = run_tool(path, args, inp=inp, timeout=timeout)
    res = []
    for line in so.splitlines():
        line = line.strip()
        if line:
            res.append(json.loads(line))
    return rc, res, se


# --------------------------------------------------------------------------
# Coq

FORBIDDEN = re.compile(
    r"\b(Admitted|admit|Axiom|Axioms|Parameter|Parameters|Conjecture|Conjectures|Admit Obligations)\b"
    r"|Unset\s+Guard\s+Checking|Unset\s+Positivity|Unset\s+Universe\s+Checking|bypass_check|type-in-type|impredicative-set")


def coq_sources():
    out = []
    for root, _d, files in os.walk(COQ):
        for f in files:
            if f.endswith(".v"):
                out.append(os.path.join(root, f))
    return sorted(out)


def strip_comments(src):
    """Remove (* ... *) comments (nested) so greps look at code only."""
    out = []
    depth = 0
    i = 0
    n = len(src)
    instr = False
    while i < n:
        c = src[i]
        if depth == 0 and c == '"':
            instr = not instr
            out.append(c)
            i += 1
            continue
        if not instr and src.startswith("(*", i):
            depth += 1
            i += 2
            continue
        if not instr and depth > 0 and src.startswith("*)", i):
            depth -= 1
            i += 2
            continue
        if depth == 0:
            out.append(c)
        i += 1
    return "".join(out)


REQ_RE = re.compile(r"\bNaga\.([A-Za-z0-9_]+(?:\.[A-Za-z0-9_]+)+)")


def dep_closure(relpaths):
    """Transitive closure of `Naga.X.Y` references (Require/From … Import) starting from the given files."""
    seen = []
    todo = list(relpaths)
    while todo:
        rp = todo.pop()
        if rp in seen:
            continue
        p = os.path.join(COQ, rp)
        if not os.path.exists(p):
            continue
        seen.append(rp)
        with open(p, errors="replace") as f:
            code = strip_comments(f.read())
        for m in REQ_RE.finditer(code):
            todo.append(m.group(1).replace(".", "/") + ".v")
        for m in re.finditer(r"\bFrom\s+Naga((?:\.[A-Za-z0-9_]+)*)\s+Require\s+(?:Import\s+|Export\s+)?([^.]*(?:\.[A-Za-z0-9_]+[^.]*)*)\.(?:\s|$)", code):
            prefix = m.group(1).strip(".").replace(".", "/")
            for mod in m.group(2).split():
                todo.append(os.path.join(prefix, mod.replace(".", "/")) + ".v")
    return sorted(seen)


def blank_strings(code):
    return re.sub(r'"(?:[^"]|"")*"', '""', code)


def forbidden_scan(relpaths=None):
    """Return list of (file, line, text) for forbidden constructs in the given files
    (default: the whole development), comments and string literals excluded."""
    bad = []
    paths = [os.path.join(COQ, r) for r in relpaths] if relpaths is not None else coq_sources()
    for p in paths:
        with open(p, errors="replace") as f:
            code = blank_strings(strip_comments(f.read()))
        in_section = 0
        for n, line in enumerate(code.splitlines(), 1):
            if re.match(r"\s*Section\b", line):
                in_section += 1
            if re.match(r"\s*End\b", line) and in_section > 0:
                in_section -= 1
            if FORBIDDEN.search(line):
                bad.append((p, n, line.strip()))
            if in_section == 0 and re.match(r"\s*(Variable|Variables|Hypothesis|Hypotheses|Context)\b", line):
                bad.append((p, n, line.strip()))
    return bad


def write_if_changed(path, content):
    os.makedirs(os.path.dirname(path), exist_ok=True)
    try:
        with open(path) as f:
            if f.read() == content:
                return False
    except FileNotFoundError:
        pass
    with open(path, "w") as f:
        f.write(content)
    return True


def gen_coqproject():
    files = [os.path.relpath(p, COQ) for p in coq_sources()
             if "/Cases/" not in p and "/Extract/" not in p and os.path.dirname(os.path.relpath(p, COQ)) != ""]
    # (files directly under coq/ are scratch files of bin/coqgoal and the like: never part of the project)
    content = "-Q . Naga\n-arg -w -arg -notation-overridden,-deprecated-hint-without-locality,-deprecated-instance-without-locality\n" + "\n".join(files) + "\n"
    changed = write_if_changed(os.path.join(COQ, "_CoqProject"), content)
    if changed or not os.path.exists(os.path.join(COQ, "Makefile")):
        sh(["coq_makefile", "-f", "_CoqProject", "-o", "Makefile"], cwd=COQ, check=True)


def coq_make(targets=None, timeout=3000):
    """Full .vo build (never -vos).  Returns (ok, log)."""
    with Lock("coqmake"):
        gen_coqproject()
        cmd = ["make", "-j%d" % NCPU, "-k"]
        if targets:
            cmd += targets
        t0 = time.time()
        try:
            rc, so, se = sh(cmd, cwd=COQ, timeout=timeout)
        except subprocess.TimeoutExpired:
            return False, "make timed out after %ds" % timeout
        log = so + se
        with open(os.path.join(BUILD, "coq_make.log"), "w") as f:
            f.write(log)
        return rc == 0, log


def coq_failed_files(log):
    return sorted(set(re.findall(r'File "\./([^"]+\.v)", line \d+', log)) |
                  set(re.findall(r"\*\*\* \[([^\]]+\.vo)\]", log)))


def coqc_file(path, timeout=1200, cwd=None):
    """Compile a stand-alone file (cases.v) against the built development."""
    cmd = ["coqc", "-Q", COQ, "Naga", "-w", "-notation-overridden", path]
    try:
        return sh(cmd, cwd=cwd or os.path.dirname(path), timeout=timeout)
    except subprocess.TimeoutExpired:
        return 124, "", "coqc timeout"


THEOREM_RE = re.compile(r"^\s*(Theorem|Lemma|Corollary|Example|Fact|Proposition)\s+([A-Za-z0-9_']+)", re.M)


def theorems_in(relpath):
    p = os.path.join(COQ, relpath)
    try:
        with open(p) as f:
            code = strip_comments(f.read())
    except FileNotFoundError:
        return []
    return [m.group(2) for m in THEOREM_RE.finditer(code)]


def vo_ok(relpath):
    """A .vo newer than its .v exists."""
    v = os.path.join(COQ, relpath)
    vo = v[:-2] + ".vo"
    return os.path.exists(vo) and os.path.getmtime(vo) >= os.path.getmtime(v)


def assumptions_from_log(log):
    """Parse `Print Assumptions` output from a make/coqc log: list of axioms
    (empty list = closed under the global context)."""
    ax = set()
    for m in re.finditer(r"Axioms:\n((?:.+\n?)+?)(?:\n|$)", log):
        for line in m.group(1).splitlines():
            mm = re.match(r"\s*([A-Za-z0-9_.']+)\s*:", line)
            if mm:
                ax.add(mm.group(1))
    return sorted(ax)


def print_assumptions(relpaths, timeout=600):
    """Re-run coqc on Props files to collect their Print Assumptions output
    (they are tiny; dependencies are already compiled)."""
    out = {}
    for rp in relpaths:
        rc, so, se = sh(["coqc", "-Q", ".", "Naga", rp], cwd=COQ, timeout=timeout)
        txt = so + se
        out[rp] = {"rc": rc, "closed": txt.count("Closed under the global context"),
                   "axioms": assumptions_from_log(txt)}
    return out


def run_model(exe, values, timeout=1800):
    """Run a generic extracted tool (entry : json -> json) on a list of JSON
    values; returns the list of results (dicts/lists/...)."""
    import resource
    def big_stack():
        for lim in (resource.RLIM_INFINITY, 1 << 30):
            try:
                resource.setrlimit(resource.RLIMIT_STACK, (lim, lim))
                return
            except Exception:
                continue
    inp = "".join(json.dumps(v, separators=(",", ":")) + "\n" for v in values)
    p = subprocess.run([exe], input=inp, stdout=subprocess.PIPE, stderr=subprocess.PIPE, text=True,
                       timeout=timeout, preexec_fn=big_stack)
    if p.returncode != 0:
        raise RuntimeError("model %s failed (rc %d): %s" % (exe, p.returncode, p.stderr[-2000:]))
    out = [json.loads(l) for l in p.stdout.splitlines() if l.strip()]
    if len(out) != len(values):
        raise RuntimeError("model %s returned %d results for %d inputs" % (exe, len(out), len(values)))
    return out


# --------------------------------------------------------------------------
# PRNG: one splitmix64 state per run (replayable)

class Rng:
    def __init__(self, seed):
        self.s = seed & 0xFFFFFFFFFFFFFFFF
    def next(self):
        self.s = (self.s + 0x9E3779B97F4A7C15) & 0xFFFFFFFFFFFFFFFF
        z = self.s
        z = ((z ^ (z >> 30)) * 0xBF58476D1CE4E5B9) & 0xFFFFFFFFFFFFFFFF
        z = ((z ^ (z >> 27)) * 0x94D049BB133111EB) & 0xFFFFFFFFFFFFFFFF
        return z ^ (z >> 31)
    def below(self, n):
        return self.next() % n if n > 0 else 0
    def range(self, a, b):
        return a + self.below(b - a + 1)
    def choice(self, xs):
        return xs[self.below(len(xs))]
    def chance(self, num, den):
        return self.below(den) < num
    def shuffle(self, xs):
        xs = list(xs)
        for i in range(len(xs) - 1, 0, -1):
            j = self.below(i + 1)
            xs[i], xs[j] = xs[j], xs[i]
        return xs
    def fork(self, tag):
        h = hashlib.sha256(("%d/%s" % (self.s, tag)).encode()).digest()
        return Rng(int.from_bytes(h[:8], "little"))


# --------------------------------------------------------------------------
# Context, evidence, violations

class Ctx:
    def __init__(self, prop, tier, seed, level="proof"):
        self.prop = prop
        self.tier = tier
        self.seed = seed
        self.level = level
        self.t0 = time.time()
        self.rng = Rng(seed)
        self.violations = []       # (replay_path, text, found_input)
        self.known_hits = []
        self.cov = {"samples": [], "trusted_base": [], "obligations": 0, "discharged": 0,
                    "evaluations": 0, "distinct_nontrivial": 0, "checker_cmd": "", "rule": ""}
        self.assumptions = []
        self._known = load_known(prop)
        self._nreplay = 0

    @property
    def thorough(self):
        return self.tier == "thorough"

    def scale(self, quick, thorough):
        return thorough if self.thorough else quick

    def sample(self, x, cap=6):
        if len(self.cov["samples"]) < cap:
            self.cov["samples"].append(x)

    def replay_dir(self):
        self._nreplay += 1
        d = os.path.join(REPLAYS, self.prop, "%d-%d" % (self.seed, self._nreplay))
        os.makedirs(d, exist_ok=True)
        return d

    def violation(self, what, files=None, found_input=True, key=None, broken=None):
        """Report a violation unless it is a listed known finding.
        key: stable identifier of the specific failing input/site (matched
        against known_findings.jsonl `match`)."""
        for k in self._known:
            if k.get("status") == "open" and key is not None and k.get("match") == key:
                if key not in [h[0] for h in self.known_hits]:
                    self.known_hits.append((key, k.get("what", what)))
                return False
        d = self.replay_dir()
        for name, content in (files or {}).items():
            mode = "wb" if isinstance(content, bytes) else "w"
            with open(os.path.join(d, name), mode) as f:
                f.write(content)
        with open(os.path.join(d, "broken.txt"), "w") as f:
            f.write((broken or what) + "\n")
        with open(os.path.join(d, "how_to_replay.txt"), "w") as f:
            f.write("bin/check %s --replay %s\n" % (self.prop, d))
        self.violations.append((d, what, found_input, key))
        return True

    def finish(self):
        self.cov["discharged"] = min(self.cov["discharged"], self.cov["obligations"])
        ev = {
            "property_id": self.prop, "tier": self.tier, "seed": self.seed, "level": self.level,
            "coverage": self.cov, "assumptions": self.assumptions,
            "wall_s": round(time.time() - self.t0, 2), "violations": len(self.violations),
            "known_findings_hit": [h[0] for h in self.known_hits],
            "violation_keys": [v[3] for v in self.violations],
        }
        if not ev["coverage"]["samples"]:
            ev["coverage"]["samples"] = ["(none)"]
        # the typed keys of the evidence schema: a check that put a breakdown where a count belongs keeps the breakdown
        # under <key>_detail and the total under <key> (a file that does not validate is treated as no evidence)
        cov = ev["coverage"]
        for k in ("evaluations", "distinct_nontrivial", "states", "transitions", "traces_validated_against_impl", "obligations",
                  "discharged", "programs", "disagreements_checked"):
            v = cov.get(k)
            if v is None or (isinstance(v, int) and not isinstance(v, bool) and v >= 0):
                continue
            cov[k + "_detail"] = v
            if isinstance(v, dict):
                cov[k] = sum(x for x in v.values() if isinstance(x, int) and not isinstance(x, bool) and x > 0)
            elif isinstance(v, (list, tuple, set)):
                cov[k] = len(v)
            else:
                try:
                    cov[k] = max(0, int(v))
                except Exception:
                    cov[k] = 0
            sys.stderr.write("vcheck: coverage.%s was not a non-negative integer; kept under %s_detail\n" % (k, k))
        for k in ("rule", "checker_cmd", "explanation"):
            if k in cov and not isinstance(cov[k], str):
                cov[k] = json.dumps(cov[k], default=str)
        if "trusted_base" in cov and not (isinstance(cov["trusted_base"], list) and all(isinstance(x, str) for x in cov["trusted_base"])):
            tb = cov["trusted_base"]
            cov["trusted_base"] = [x if isinstance(x, str) else json.dumps(x, default=str) for x in (tb if isinstance(tb, list) else [tb])]
        if "exhaustive" in cov and not isinstance(cov["exhaustive"], bool):
            cov["exhaustive"] = bool(cov["exhaustive"])
        if not isinstance(cov.get("samples"), list):
            cov["samples"] = [cov.get("samples")]
        os.makedirs(EVIDENCE, exist_ok=True)
        with open(os.path.join(EVIDENCE, self.prop + ".json"), "w") as f:
            json.dump(ev, f, indent=1, sort_keys=True, default=str)
        for key, what in self.known_hits:
            print("KNOWN-FINDING: property=%s %s" % (self.prop, what))
        for d, what, found, key in self.violations:
            print("VIOLATION property=%s replay=%s%s" % (self.prop, d, "" if found else " no-failing-input-found"))
            print("  " + what.replace("\n", "\n  ")[:2000])
        sys.stdout.flush()
        return 1 if self.violations else 0


def load_known(prop):
    out = []
    try:
        with open(KNOWN) as f:
            for line in f:
                line = line.strip()
                if not line or line.startswith("#"):
                    continue
                k = json.loads(line)
                if k.get("property") == prop:
                    out.append(k)
    except FileNotFoundError:
        pass
    return out


# --------------------------------------------------------------------------
# Standard proof step shared by all checks

def proof_step(ctx, props_file, model_files, gen_writer=None, extra_obligation_files=()):
    """1. forbid Admitted/Axiom/...; 2. regenerate Gen files (gen_writer returns
    list of relpaths it wrote); 3. make; 4. count theorems of props_file and
    Gen obligation files; 5. Print Assumptions.  Returns (ok, failed_files, log)."""
    gen_files = gen_writer() if gen_writer else []
    files = [props_file] + list(extra_obligation_files)
    closure = dep_closure(files + list(model_files))
    bad = forbidden_scan(closure)
    if bad:
        ctx.violation("forbidden construct in Coq development: %s" % bad[:5], found_input=False,
                      broken="development contains Admitted/Axiom/...: %s" % bad[:5])
    # build exactly what this property depends on (other properties' files cannot disturb it)
    ok, log = coq_make(targets=[f[:-2] + ".vo" for f in files])
    failed = coq_failed_files(log) if not ok else []
    obl = 0
    dis = 0
    for rp in files:
        ths = theorems_in(rp)
        obl += len(ths)
        if vo_ok(rp) and rp not in failed:
            dis += len(ths)
    ctx.cov["obligations"] += obl
    ctx.cov["discharged"] += dis
    ctx.cov["checker_cmd"] = "coq_makefile -f _CoqProject -o Makefile && make -j%d (full .vo build, coqc 8.16.1) in /verif/coq" % NCPU
    ctx.cov["theorems"] = {rp: theorems_in(rp) for rp in files}
    ctx.cov["gen_files_regenerated"] = gen_files
    ctx.cov["model_files"] = list(model_files)
    ctx.cov["files_scanned_for_forbidden_constructs"] = closure
    if ok:
        pa = print_assumptions([props_file])
        ctx.cov["print_assumptions"] = pa
        axioms = sorted({a for v in pa.values() for a in v["axioms"]})
    else:
        axioms = []
    ctx.cov["trusted_base"] = [
        "Coq 8.16.1 kernel (coqc; vm_compute used in Gen obligations and cases; no native_compute)",
        "axioms reported by Print Assumptions under the property theorems: %s" % (", ".join(axioms) if axioms else "none (closed under the global context)"),
    ]
    if ok and ctx.thorough:
        # independent re-check of the compiled property file and everything it depends on
        mod = "Naga." + props_file[:-2].replace("/", ".")
        t0 = time.time()
        try:
            p = subprocess.run(["coqchk", "-silent", "-o", "-Q", ".", "Naga", mod], cwd=COQ, stdout=subprocess.PIPE,
                               stderr=subprocess.STDOUT, text=True, errors="replace", timeout=3600)
            out, rc = p.stdout, p.returncode
        except subprocess.TimeoutExpired:
            out, rc = "coqchk: timeout", 124
        ax = []
        grab = False
        for line in out.splitlines():
            if line.strip().startswith("* Axioms:"):
                grab = True
                rest = line.split("Axioms:", 1)[1].strip()
                if rest and rest != "<none>":
                    ax.append(rest)
                continue
            if grab:
                if line.strip().startswith("*") or not line.strip():
                    grab = False
                else:
                    ax.append(line.strip())
        ctx.cov["coqchk"] = {"module": mod, "rc": rc, "seconds": round(time.time() - t0, 1), "axioms": ax,
                             "no_type_in_type": "type-in-type: <none>" in out, "no_unsafe_fixpoints": "unsafe (co)fixpoints: <none>" in out,
                             "no_assumed_positivity": "positivity is assumed: <none>" in out}
        ctx.cov["trusted_base"].append("coqchk -silent -o re-checked %s and its dependencies (rc %d); axioms it lists: %s"
                                       % (mod, rc, ", ".join(ax) if ax else "none"))
        if rc != 0 or not (ctx.cov["coqchk"]["no_type_in_type"] and ctx.cov["coqchk"]["no_unsafe_fixpoints"] and ctx.cov["coqchk"]["no_assumed_positivity"]):
            ctx.violation("coqchk does not accept %s: %s" % (mod, out[-800:]), found_input=False, broken="coqchk on " + mod)
    return ok, failed, log


def main(check_mod, prop):
    import argparse
    ap = argparse.ArgumentParser()
    ap.add_argument("tier", nargs="?", default=os.environ.get("VERIF_TIER", "quick"))
    ap.add_argument("--replay", default=None)
    a = ap.parse_args(sys.argv[2:])
    seed = int(os.environ.get("VERIF_SEED", "1") or "1")
    tier = a.tier if a.tier in ("quick", "thorough") else "quick"
    ctx = Ctx(prop, tier, seed, level=getattr(check_mod, "LEVEL", "proof"))
    ctx.replay = a.replay
    try:
        check_mod.run(ctx)
    except BuildBroken as e:
        ctx.violation("the repository no longer builds with -tags verif, nothing can be shown: %s" % e,
                      found_input=False, broken="go build")
    rc = ctx.finish()
    sys.exit(rc)
