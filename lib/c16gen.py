"""C16: regenerates coq/Gen/Keywords.v (keyword tables of the three text
backends + the HLSL helper-name list of newNamer) from /repo via goextract.
Registered in gen.py GENERATORS as "keywords"."""
import ast
import re


def _go_unquote(G, v):
    v = v.strip()
    if v.startswith('"'):
        return ast.literal_eval(v)
    if v.startswith('`'):
        return v[1:-1]
    raise G.GenError("not a Go string literal: %r" % v)


def gen_keywords(G, tools):
    hk, hci, newnamer, hconsts, mk, gk = G.extract(tools, [
        {"kind": "map", "file": "internal/backend/hlsl_keywords.go", "name": "HLSLReservedKeywords"},
        {"kind": "map", "file": "internal/backend/hlsl_keywords.go", "name": "HLSLCaseInsensitiveKeywords"},
        {"kind": "funcsrc", "file": "hlsl/internal/codegen/namer.go", "name": "newNamer"},
        {"kind": "consts", "file": "hlsl/internal/codegen/keywords.go"},
        {"kind": "map", "file": "msl/internal/codegen/keywords.go", "name": "reservedWords"},
        {"kind": "map", "file": "glsl/internal/codegen/keywords.go", "name": "glslKeywords"},
    ])
    cmap = {c[0]: _go_unquote(G, c[1]) for c in hconsts if c[1].strip().startswith('"')}
    m = re.search(r"helperNames\s*:=\s*\[\]string\{(.*?)\}", newnamer, re.S)
    if not m:
        raise G.GenError("helperNames list not found in hlsl newNamer")
    helpers = []
    for ident in re.findall(r"[A-Za-z_][A-Za-z0-9_]*", re.sub(r"//.*", "", m.group(1))):
        if ident not in cmap:
            raise G.GenError("helper constant %s not found in hlsl/internal/codegen/keywords.go" % ident)
        helpers.append(cmap[ident])
    if "reservedPrefixes" in re.sub(r"//.*", "", newnamer):
        raise G.GenError("hlsl newNamer now sets reservedPrefixes: the model instantiates them as empty")

    def table(name, words, comment):
        rows = []
        for w in words:
            rows.append("  %s (* %s *)" % (G.zlist([ord(c) for c in w]), w.replace("*)", "* )")))
        return "(* %s *)\nDefinition %s : list (list Z) := [\n%s].\n" % (comment, name, ";\n".join(rows))

    out = ["From Coq Require Import List ZArith.", "Import ListNotations.", "Open Scope Z_scope.", ""]
    out.append(table("hlsl_keywords", sorted(k for k, _ in hk), "internal/backend/hlsl_keywords.go HLSLReservedKeywords"))
    out.append(table("hlsl_ci_keywords", sorted(k for k, _ in hci), "internal/backend/hlsl_keywords.go HLSLCaseInsensitiveKeywords"))
    out.append(table("hlsl_helpers", helpers, "hlsl/internal/codegen/namer.go newNamer helperNames (values: keywords.go consts), in order"))
    out.append(table("msl_keywords", sorted(k for k, _ in mk), "msl/internal/codegen/keywords.go reservedWords"))
    out.append(table("glsl_keywords", sorted(k for k, _ in gk), "glsl/internal/codegen/keywords.go glslKeywords"))
    return [G.write("Gen/Keywords.v", "\n".join(out))]
