"""C07 support: seeded generator of host-shareable WGSL type trees, WGSL rendering,
and independent readers of what naga emitted (IR dump, SPIR-V words, HLSL byte
addresses, MSL struct definitions, GLSL blocks).

Type trees use the JSON wire format of coq/Layout/Codec.v:
  ["s",name] ["v",n,name] ["m",c,r,name] ["a",name] ["arr",ty,n] ["rarr",ty]
  ["st",[[align,size,ty],...]]   align/size = None | [form, value, variant]
(form "d" decimal literal, "h" hex literal, "e" other const-expression; `variant`
only selects the spelling and is dropped before the tree goes to the Coq model).
Layout trees: ["l",size] ["a",stride,count|None,lay] ["s",span,[offs],[lays]].
"""
import re

SCALARS = ["i32", "u32", "f32", "f16"]
SW = {"i32": 4, "u32": 4, "f32": 4, "f16": 2, "bool": 4}


# ----------------------------------------------------------------------------
# generator-side arithmetic (only used to pick permitted @align/@size values;
# the oracle is the extracted Coq model, never this)

def _ru(k, n):
    return (n + k - 1) // k * k


def g_als(t):
    k = t[0]
    if k == "s":
        return SW[t[1]], SW[t[1]]
    if k == "a":
        return 4, 4
    if k == "v":
        w = SW[t[2]]
        return (2 if t[1] == 2 else 4) * w, t[1] * w
    if k == "m":
        w = SW[t[3]]
        a = (2 if t[2] == 2 else 4) * w
        return a, t[1] * _ru(a, t[2] * w)
    if k == "arr":
        a, s = g_als(t[1])
        return a, t[2] * _ru(a, s)
    if k == "rarr":
        a, s = g_als(t[1])
        return a, _ru(a, s)
    if k == "st":
        off = 0
        ma = 1
        for al, sz, mt in t[1]:
            a, s = g_als(mt)
            if al:
                a = al[1]
            if sz:
                s = sz[1]
            ma = max(ma, a)
            off = _ru(a, off) + s
        return ma, _ru(ma, off)
    raise ValueError(t)


def uses_f16(t):
    k = t[0]
    if k in ("s", "a"):
        return t[1] == "f16"
    if k == "v":
        return t[2] == "f16"
    if k == "m":
        return t[3] == "f16"
    if k in ("arr", "rarr"):
        return uses_f16(t[1])
    return any(uses_f16(m[2]) for m in t[1])


def has_attr_form(t, forms):
    k = t[0]
    if k in ("arr", "rarr"):
        return has_attr_form(t[1], forms)
    if k == "st":
        for al, sz, mt in t[1]:
            if (al and al[0] in forms) or (sz and sz[0] in forms) or has_attr_form(mt, forms):
                return True
    return False


def wire(t):
    """tree without spelling variants, for the Coq model"""
    k = t[0]
    if k in ("arr",):
        return ["arr", wire(t[1]), t[2]]
    if k == "rarr":
        return ["rarr", wire(t[1])]
    if k == "st":
        return ["st", [[al[:2] if al else None, sz[:2] if sz else None, wire(mt)] for al, sz, mt in t[1]]]
    return list(t)


def count_nodes(t):
    k = t[0]
    if k in ("arr", "rarr"):
        return 1 + count_nodes(t[1])
    if k == "st":
        return 1 + sum(count_nodes(m[2]) for m in t[1])
    return 1


def depth_of(t):
    k = t[0]
    if k in ("arr", "rarr"):
        return 1 + depth_of(t[1])
    if k == "st":
        return 1 + max(depth_of(m[2]) for m in t[1])
    return 0


class Gen:
    """space: "storage" | "uniform".  p_attr: probability (percent) of an explicit
    attribute on a member; p_odd: percent of attributes written as hex / const-expression."""

    def __init__(self, rng, space="storage", p_attr=25, p_odd=6, f16=True, max_members=8, budget=40):
        self.r = rng
        self.space = space
        self.p_attr = p_attr
        self.p_odd = p_odd
        self.f16 = f16
        self.max_members = max_members
        self.budget = budget

    def scalar(self):
        names = SCALARS if self.f16 else SCALARS[:3]
        # f32 most common
        return self.r.choice(names + ["f32", "f32", "u32"])

    def fscalar(self):
        return "f16" if (self.f16 and self.r.chance(1, 4)) else "f32"

    def leaf(self):
        c = self.r.below(100)
        if c < 30:
            return ["s", self.scalar()]
        if c < 65:
            return ["v", self.r.range(2, 4), self.scalar()]
        if c < 92 or self.space == "uniform":
            return ["m", self.r.range(2, 4), self.r.range(2, 4), self.fscalar()]
        return ["a", self.r.choice(["u32", "i32"])]

    def uniform_leaf(self):
        c = self.r.below(100)
        if c < 45:
            return ["v", 4, self.r.choice(["f32", "f32", "i32", "u32"])]
        if c < 60:
            return ["v", 3, "f32"]
        if c < 80:
            return ["m", self.r.range(2, 4), self.r.range(3, 4), "f32"]
        if c < 90:
            return ["m", self.r.range(2, 4), 2, "f32"]
        return self.leaf()

    def ty(self, depth, in_array=False):
        self.budget -= 1
        if depth <= 0 or self.budget <= 0:
            return self.leaf() if self.space == "storage" else self.uniform_leaf()
        c = self.r.below(100)
        if c < 40:
            return self.leaf() if self.space == "storage" else self.uniform_leaf()
        if c < 62:
            e = self.ty(depth - 1, True)
            if self.space == "uniform":
                a, s = g_als(e)
                if _ru(a, s) % 16 != 0:
                    e = self.uniform_leaf()
                    a, s = g_als(e)
                    if _ru(a, s) % 16 != 0:
                        e = ["v", 4, "f32"]
            return ["arr", e, self.r.range(1, 4)]
        return self.struct(depth - 1, self.r.range(1, max(1, min(self.max_members, 2 + depth))))

    def attr(self, value):
        c = self.r.below(100)
        if c < self.p_odd:
            return ["h", value, 0]
        if c < 2 * self.p_odd:
            return ["e", value, self.r.below(2)]
        return ["d", value, self.r.below(3)]

    def struct(self, depth, n):
        ms = []
        prev_struct = False
        for i in range(n):
            mt = self.ty(depth)
            a, s = g_als(mt)
            al = sz = None
            if self.r.below(100) < self.p_attr:
                al = self.attr(a << self.r.choice([0, 0, 1, 1, 2, 3]))
            if self.r.below(100) < self.p_attr:
                sz = self.attr(s + self.r.choice([0, 1, 2, 3, 4, 4, 8, 12, 16, 20, 64]))
            if self.space == "uniform" and self.p_attr > 0:
                need = 16 if (mt[0] in ("st", "arr") or prev_struct) else 0
                if need and (al is None or al[1] < need):
                    al = ["d", max(need, a), 0]
            prev_struct = mt[0] == "st"
            ms.append([al, sz, mt])
        return ["st", ms]

    def root(self, depth=4):
        c = self.r.below(100)
        if c < 78 or self.space == "uniform":
            n = self.r.range(1, self.max_members)
            t = self.struct(depth - 1, n)
            if self.space == "storage" and self.r.chance(1, 5):
                self.budget = max(self.budget, 4)
                e = self.ty(min(2, depth - 2), True)
                al = None
                if self.r.below(100) < self.p_attr:
                    al = self.attr(g_als(e)[0] << self.r.choice([0, 1, 2]))
                t[1].append([al, None, ["rarr", e]])
            return t
        if c < 90:
            return ["arr", self.ty(depth - 1, True), self.r.range(1, 5)]
        if c < 95:
            return ["rarr", self.ty(depth - 2, True)]
        return self.leaf()


# ----------------------------------------------------------------------------
# WGSL rendering

def attr_text(name, a, consts):
    form, v, var = a
    if form == "d":
        txt = [str(v), "%du" % v, "(%d)" % v][var % 3]
    elif form == "h":
        txt = "0x%x" % v
    else:
        if var % 2 == 0:
            cname = "K%d" % len(consts)
            consts.append("const %s = %d;" % (cname, v))
            txt = cname
        else:
            txt = "%d+%d" % (v - v // 2, v // 2) if v > 1 else "2-1"
    return "@%s(%s)" % (name, txt)


class Render:
    def __init__(self, prefix="T"):
        self.decls = []
        self.consts = []
        self.prefix = prefix
        self.names = {}     # id(node) -> struct name
        self.structs = []   # (name, node)

    def tyname(self, t):
        k = t[0]
        if k == "s":
            return t[1]
        if k == "a":
            return "atomic<%s>" % t[1]
        if k == "v":
            return "vec%d<%s>" % (t[1], t[2])
        if k == "m":
            return "mat%dx%d<%s>" % (t[1], t[2], t[3])
        if k == "arr":
            return "array<%s, %d>" % (self.tyname(t[1]), t[2])
        if k == "rarr":
            return "array<%s>" % self.tyname(t[1])
        # struct: declare (members first)
        fields = []
        for i, (al, sz, mt) in enumerate(t[1]):
            tn = self.tyname(mt)
            at = ""
            if al:
                at += attr_text("align", al, self.consts) + " "
            if sz:
                at += attr_text("size", sz, self.consts) + " "
            fields.append("  %sm%d: %s," % (at, i, tn))
        name = "%s%d" % (self.prefix, len(self.structs))
        self.structs.append((name, t))
        self.names[id(t)] = name
        self.decls.append("struct %s {\n%s\n}" % (name, "\n".join(fields)))
        return name


def leaf_paths(t, rng, rt_indices=(0, 3)):
    """[(path indices, leaf type)]: one path per leaf; arrays sampled at first/last index."""
    k = t[0]
    out = []
    if k in ("s", "a"):
        return [([], t)]
    if k == "v":
        # the vector as a whole, and one component
        c = rng.below(t[1])
        return [([], t), ([c], ["s", t[2]])]
    if k == "m":
        c = rng.below(t[1])
        res = [([c], ["v", t[2], t[3]])]
        r = rng.below(t[2])
        res.append(([c, r], ["s", t[3]]))
        if t[3] == "f32":
            res.append(([], t))   # whole-matrix store (per-column stores in HLSL)
        return res
    if k == "arr":
        idx = sorted(set([0, t[2] - 1]))
        for i in idx:
            for p, lt in leaf_paths(t[1], rng):
                out.append(([i] + p, lt))
        return out
    if k == "rarr":
        for i in rt_indices:
            for p, lt in leaf_paths(t[1], rng):
                out.append(([i] + p, lt))
        return out
    for i, (al, sz, mt) in enumerate(t[1]):
        for p, lt in leaf_paths(mt, rng):
            out.append(([i] + p, lt))
    return out


def constructible(t):
    k = t[0]
    if k in ("a", "rarr"):
        return False
    if k == "arr":
        return constructible(t[1])
    if k == "st":
        return all(constructible(m[2]) for m in t[1])
    return True


def all_leaves(t):
    """paths of every scalar / vector / matrix column inside t, in declaration order"""
    k = t[0]
    if k in ("s", "v", "a"):
        return [[]]
    if k == "m":
        return [[c] for c in range(t[1])]
    if k == "arr":
        return [[i] + p for i in range(t[2]) for p in all_leaves(t[1])]
    if k == "rarr":
        return []
    return [[i] + p for i, m in enumerate(t[1]) for p in all_leaves(m[2])]


def pick_copy(t, rng, max_leaves=48):
    """an aggregate (struct / array / matrix) inside t that can be loaded and stored as a whole"""
    cands = []

    def walk(node, path):
        k = node[0]
        if k in ("st", "arr", "m") and constructible(node):
            n = len(all_leaves(node))
            if 2 <= n <= max_leaves:
                cands.append((path, node))
        if k == "st":
            for i, m in enumerate(node[1]):
                walk(m[2], path + [i])
        elif k == "arr":
            walk(node[1], path + [0])
    walk(t, [])
    if not cands:
        return None
    path, node = cands[rng.below(min(len(cands), 3))]
    return path, all_leaves(node)


def path_text(t, p):
    """WGSL access expression suffix for path p into type t"""
    s = ""
    for i in p:
        k = t[0]
        if k == "st":
            s += ".m%d" % i
            t = t[1][i][2]
        elif k in ("arr", "rarr"):
            s += "[%d]" % i
            t = t[1]
        elif k == "m":
            s += "[%d]" % i
            t = ["v", t[2], t[3]]
        elif k == "v":
            s += "[%d]" % i
            t = ["s", t[2]]
    return s


def lit(sc, k):
    return {"i32": "%di" % k, "u32": "%du" % k, "f32": "%d.0" % k, "f16": "%d.0h" % k}[sc]


def value_text(lt, k):
    if lt[0] == "s":
        return lit(lt[1], k)
    if lt[0] == "v":
        return "vec%d<%s>(%s)" % (lt[1], lt[2], lit(lt[2], k))
    if lt[0] == "m":
        col = "vec%d<%s>(%s)" % (lt[2], lt[3], lit(lt[3], k))
        return "mat%dx%d<%s>(%s)" % (lt[1], lt[2], lt[3], ", ".join([col] * lt[1]))
    raise ValueError(lt)


def program(storage_t, uniform_t, rng, workgroup=False, max_paths=60):
    """Returns (src, info) where info = {"paths": [(k, path, leaf type)], names...}."""
    R = Render("S")
    lines = []
    sname = R.tyname(storage_t)
    uname = None
    if uniform_t is not None:
        R.prefix = "U"
        nst = len(R.structs)
        uname = R.tyname(uniform_t)
    f16 = uses_f16(storage_t) or (uniform_t is not None and uses_f16(uniform_t))
    paths = leaf_paths(storage_t, rng)
    if len(paths) > max_paths:
        paths = rng.shuffle(paths)[:max_paths]
    body = []
    info_paths = []
    k = 1000
    for p, lt in paths:
        k += 1
        if lt[0] == "a":
            body.append("  atomicStore(&sb%s, %s);" % (path_text(storage_t, p), lit(lt[1], k)))
        else:
            body.append("  sb%s = %s;" % (path_text(storage_t, p), value_text(lt, k)))
        info_paths.append((k, p, lt))
    copy = pick_copy(storage_t, rng)
    if copy is not None:
        cp, cleaves = copy
        body.append("  var tmpv = sb%s;" % path_text(storage_t, cp))
        body.append("  sb%s = tmpv;" % path_text(storage_t, cp))
    if uniform_t is not None:
        up = leaf_paths(uniform_t, rng)[0]
        body.append("  let tmp_u = ub%s;" % path_text(uniform_t, up[0]))
    fixed = '"rarr"' not in repr(storage_t).replace("'", '"')
    if workgroup and fixed:
        body.append("  let tmp_w = &wg;")
    src = []
    if f16:
        src.append("enable f16;")
    src += R.consts
    src += R.decls
    src.append("@group(0) @binding(0) var<storage, read_write> sb: %s;" % sname)
    if uniform_t is not None:
        src.append("@group(0) @binding(1) var<uniform> ub: %s;" % uname)
    if workgroup and fixed:
        src.append("var<workgroup> wg: %s;" % sname)
    src.append("@compute @workgroup_size(1) fn main() {")
    src += body
    src.append("}")
    return "\n".join(src) + "\n", {"paths": info_paths, "sname": sname, "uname": uname, "structs": R.structs,
                                   "copy": ([cp + l for l in cleaves] if copy is not None else None)}


# ----------------------------------------------------------------------------
# layout-tree helpers

def erase(l, leaf=True, span=False, count=False):
    k = l[0]
    if k == "l":
        return ["l", 0 if leaf else l[1]]
    if k == "a":
        return ["a", l[1], None if count else l[2], erase(l[3], leaf, span, count)]
    return ["s", 0 if span else l[1], l[2], [erase(x, leaf, span, count) for x in l[3]]]


def first_diff(a, b, path=""):
    """human-readable first difference between two layout trees"""
    if a[0] != b[0]:
        return "%s: shape %s vs %s" % (path or "<root>", a[0], b[0])
    if a[0] == "l":
        return None if a[1] == b[1] else "%s: size %s vs %s" % (path or "<root>", a[1], b[1])
    if a[0] == "a":
        if a[1] != b[1]:
            return "%s: stride %s vs %s" % (path or "<root>", a[1], b[1])
        if a[2] != b[2]:
            return "%s: count %s vs %s" % (path or "<root>", a[2], b[2])
        return first_diff(a[3], b[3], path + "[]")
    if len(a[2]) != len(b[2]) or len(a[3]) != len(b[3]):
        return "%s: member count %d vs %d" % (path or "<root>", len(a[2]), len(b[2]))
    for i, (x, y) in enumerate(zip(a[2], b[2])):
        if x != y:
            return "%s.m%d: offset %s vs %s" % (path, i, x, y)
    if a[1] != b[1]:
        return "%s: span %s vs %s" % (path or "<root>", a[1], b[1])
    for i, (x, y) in enumerate(zip(a[3], b[3])):
        d = first_diff(x, y, path + ".m%d" % i)
        if d:
            return d
    return None


# ----------------------------------------------------------------------------
# IR dump reader

def ir_layout(types, typesize, h):
    t = types[h]["Inner"]
    k = t["_t"]
    if k == "StructType":
        return ["s", t["Span"], [m["Offset"] for m in t["Members"]],
                [ir_layout(types, typesize, m["Type"]) for m in t["Members"]]]
    if k == "ArrayType":
        return ["a", t["Stride"], t["Size"]["Constant"], ir_layout(types, typesize, t["Base"])]
    return ["l", typesize[h]]


# ----------------------------------------------------------------------------
# SPIR-V reader (independent of naga): header 5 words, then instructions
# (wordcount << 16 | opcode)

OP = {"TypeInt": 21, "TypeFloat": 22, "TypeVector": 23, "TypeMatrix": 24, "TypeArray": 28,
      "TypeRuntimeArray": 29, "TypeStruct": 30, "TypePointer": 32, "Constant": 43,
      "Variable": 59, "Decorate": 71, "MemberDecorate": 72, "TypeBool": 20}
DEC_OFFSET, DEC_ARRAY_STRIDE, DEC_MATRIX_STRIDE, DEC_BINDING, DEC_SET, DEC_COLMAJOR, DEC_ROWMAJOR = 35, 6, 7, 33, 34, 5, 4


class Spv:
    def __init__(self, data):
        if len(data) % 4 or len(data) < 20:
            raise ValueError("SPIR-V size")
        w = [int.from_bytes(data[i:i + 4], "little") for i in range(0, len(data), 4)]
        if w[0] != 0x07230203:
            raise ValueError("SPIR-V magic")
        self.types = {}
        self.consts = {}
        self.vars = {}
        self.dec = {}       # id -> {decoration: operand}
        self.mdec = {}      # (id, member) -> {decoration: operand}
        i = 5
        while i < len(w):
            wc, op = w[i] >> 16, w[i] & 0xFFFF
            if wc == 0 or i + wc > len(w):
                raise ValueError("SPIR-V instruction length")
            a = w[i + 1:i + wc]
            if op == OP["TypeInt"]:
                self.types[a[0]] = ("int", a[1])
            elif op == OP["TypeFloat"]:
                self.types[a[0]] = ("float", a[1])
            elif op == OP["TypeBool"]:
                self.types[a[0]] = ("bool",)
            elif op == OP["TypeVector"]:
                self.types[a[0]] = ("vec", a[1], a[2])
            elif op == OP["TypeMatrix"]:
                self.types[a[0]] = ("mat", a[1], a[2])
            elif op == OP["TypeArray"]:
                self.types[a[0]] = ("arr", a[1], a[2])
            elif op == OP["TypeRuntimeArray"]:
                self.types[a[0]] = ("rarr", a[1])
            elif op == OP["TypeStruct"]:
                self.types[a[0]] = ("struct", a[1:])
            elif op == OP["TypePointer"]:
                self.types[a[0]] = ("ptr", a[1], a[2])
            elif op == OP["Constant"]:
                self.consts[a[1]] = a[2] if len(a) > 2 else 0
            elif op == OP["Variable"]:
                self.vars[a[1]] = (a[0], a[2])
            elif op == OP["Decorate"]:
                self.dec.setdefault(a[0], {})[a[1]] = a[2] if len(a) > 2 else True
            elif op == OP["MemberDecorate"]:
                self.mdec.setdefault((a[0], a[1]), {})[a[2]] = a[3] if len(a) > 3 else True
            i += wc

    def var_by_binding(self, group, binding):
        for vid, (ptr, sc) in self.vars.items():
            d = self.dec.get(vid, {})
            if d.get(DEC_SET) == group and d.get(DEC_BINDING) == binding:
                return vid, self.types[ptr][2], sc
        return None

    def layout(self, tid, mat_stride=None, problems=None, where=""):
        """layout tree from decorations; matrix size = columns * MatrixStride of the
        enclosing member (through arrays)."""
        t = self.types[tid]
        if t[0] in ("int", "float"):
            return ["l", t[1] // 8]
        if t[0] == "vec":
            return ["l", self.layout(t[1])[1] * t[2]]
        if t[0] == "mat":
            if mat_stride is None:
                problems.append("%s: matrix without MatrixStride" % where)
                mat_stride = -1
            return ["l", t[2] * mat_stride]
        if t[0] == "arr":
            st = self.dec.get(tid, {}).get(DEC_ARRAY_STRIDE)
            if st is None:
                problems.append("%s: array without ArrayStride" % where)
                st = -1
            return ["a", st, self.consts.get(t[2]), self.layout(t[1], mat_stride, problems, where + "[]")]
        if t[0] == "rarr":
            st = self.dec.get(tid, {}).get(DEC_ARRAY_STRIDE)
            if st is None:
                problems.append("%s: runtime array without ArrayStride" % where)
                st = -1
            return ["a", st, None, self.layout(t[1], mat_stride, problems, where + "[]")]
        if t[0] == "struct":
            offs = []
            subs = []
            for i, m in enumerate(t[1]):
                md = self.mdec.get((tid, i), {})
                o = md.get(DEC_OFFSET)
                if o is None:
                    problems.append("%s.m%d: member without Offset" % (where, i))
                    o = -1
                if DEC_ROWMAJOR in md:
                    problems.append("%s.m%d: RowMajor" % (where, i))
                offs.append(o)
                subs.append(self.layout(m, md.get(DEC_MATRIX_STRIDE), problems, where + ".m%d" % i))
            return ["s", 0, offs, subs]
        raise ValueError("unexpected SPIR-V type %r" % (t,))


# ----------------------------------------------------------------------------
# HLSL reader: literal byte addresses of Store/Load/Interlocked calls on a buffer

HLSL_CALL = re.compile(r"\b(\w+)\.(Store[234]?|Load[234]?|Interlocked\w+)\s*(?:<[^>]*>)?\(\s*([^,()]*)\s*[,)](.*)$")
HLSL_VALUE_DECL = re.compile(r"\b_value(\d+)\s*(?:\[[^\]]*\])*\s*=\s*(.*);\s*$")
NUM = re.compile(r"(?<![\w.])(\d{4,})(?:\.0)?[uh]?\b")


def hlsl_stores(text, buf="sb"):
    """-> list of (k or None, op, [address terms] or None if not all literals)"""
    out = []
    cur_k = None
    for line in text.splitlines():
        if re.match(r"\s*tmpv\s*=", line):
            break      # what follows is the whole-aggregate copy (hlsl_copy_addresses)
        m = HLSL_VALUE_DECL.search(line)
        if m:
            mk = NUM.search(m.group(2))
            if mk:
                cur_k = int(mk.group(1))
            continue
        m = HLSL_CALL.search(line)
        if not m or m.group(1) != buf or m.group(2).startswith("Load"):
            continue
        addr = m.group(3).strip()
        terms = addr.split("+") if addr else []
        lits = [int(x) for x in terms] if terms and all(x.strip().isdigit() for x in terms) else None
        rest = m.group(4)
        mk = NUM.search(rest)
        if mk and "_value" not in rest:
            k = int(mk.group(1))
        elif "_value" in rest:
            k = cur_k
        else:
            k = None
        out.append((k, m.group(2), lits, line.strip()))
    return out


# ----------------------------------------------------------------------------
# MSL reader: struct definitions / typedefs -> ctype wire format

MSL_SCALAR = {"float": 4, "int": 4, "uint": 4, "half": 2, "bool": 1, "char": 1, "uchar": 1, "short": 2, "ushort": 2}


class Msl:
    def __init__(self, text):
        self.defs = {}   # name -> ctype
        self.text = text
        lines = text.splitlines()
        i = 0
        while i < len(lines):
            ln = lines[i].strip()
            m = re.match(r"typedef\s+(\S+)\s+(\w+)\[1\];", ln)
            if m:
                self.defs[m.group(2)] = ["rarr", self.ctype(m.group(1))]
                i += 1
                continue
            m = re.match(r"struct\s+(\w+)\s*\{$", ln)
            if m and m.group(1) not in ("DefaultConstructible", "_mslBufferSizes"):
                name = m.group(1)
                fields = []
                i += 1
                while i < len(lines) and lines[i].strip() != "};":
                    f = lines[i].strip()
                    fm = re.match(r"(\S+)\s+(\w+)(?:\[(\d+)\])?;$", f)
                    if not fm:
                        raise ValueError("MSL field not understood: %r" % f)
                    ty, fname, n = fm.group(1), fm.group(2), fm.group(3)
                    c = self.ctype(ty)
                    if n is not None:
                        c = ["arr", c, int(n)]
                    fields.append((fname, c))
                    i += 1
                if len(fields) == 1 and fields[0][0] == "inner" and fields[0][1][0] == "arr":
                    self.defs[name] = ["wrap", fields[0][1]]
                else:
                    self.defs[name] = ["st", [[fn.startswith("_pad"), c] for fn, c in fields]]
            i += 1

    def ctype(self, ty):
        ty = ty.replace("metal::", "")
        if ty in self.defs:
            return self.defs[ty]
        if ty in MSL_SCALAR:
            return ["s", MSL_SCALAR[ty]]
        m = re.match(r"atomic_(u?int)$", ty)
        if m:
            return ["a", 4]
        m = re.match(r"packed_(float|int|uint|half|short|ushort)([234])$", ty)
        if m:
            return ["p", int(m.group(2)), MSL_SCALAR[m.group(1)]]
        m = re.match(r"(float|int|uint|half|short|ushort)([234])x([234])$", ty)
        if m:
            return ["m", int(m.group(2)), int(m.group(3)), MSL_SCALAR[m.group(1)]]
        m = re.match(r"(float|int|uint|half|short|ushort|bool)([234])$", ty)
        if m:
            return ["v", int(m.group(2)), MSL_SCALAR[m.group(1)]]
        raise ValueError("MSL type not understood: %r" % ty)

    def param_type(self, var):
        """type name of the kernel parameter bound to WGSL variable `var`"""
        m = re.search(r"(?:device|constant)\s+(\S+?)\s*&\s*%s_?\b" % re.escape(var), self.text)
        if not m:
            return None
        return m.group(1)


# ----------------------------------------------------------------------------
# GLSL reader: struct definitions and interface blocks -> type trees (no attributes)

GL_SCALAR = {"float": "f32", "int": "i32", "uint": "u32", "float16_t": "f16", "bool": "bool"}


class Glsl:
    def __init__(self, text):
        self.structs = {}
        self.blocks = []    # (qualifier "std430"/"std140", kind "buffer"/"uniform", instance name, type tree)
        lines = text.splitlines()
        i = 0
        while i < len(lines):
            ln = lines[i].strip()
            m = re.match(r"struct\s+(\w+)\s*\{$", ln)
            if m:
                name = m.group(1)
                ms = []
                i += 1
                while i < len(lines) and lines[i].strip() != "};":
                    ms.append([None, None, self.member(lines[i].strip())[1]])
                    i += 1
                self.structs[name] = ["st", ms]
                i += 1
                continue
            m = re.match(r"layout\((std\d+)(?:,[^)]*)?\)\s*(?:readonly\s+|writeonly\s+)?(buffer|uniform)\s+(\w+)\s*\{(.*)$", ln)
            if m:
                q, kind, rest = m.group(1), m.group(2), m.group(4).strip()
                if rest:
                    # single line: { T inst[..]; };
                    mm = re.match(r"(.*?;)\s*\};$", rest)
                    if not mm:
                        raise ValueError("GLSL block not understood: %r" % ln)
                    nm, t = self.member(mm.group(1).strip())
                    self.blocks.append((q, kind, nm, t, False))
                else:
                    ms = []
                    i += 1
                    while i < len(lines) and not lines[i].strip().startswith("}"):
                        ms.append([None, None, self.member(lines[i].strip())[1]])
                        i += 1
                    inst = re.match(r"\}\s*(\w+)\s*;", lines[i].strip())
                    self.blocks.append((q, kind, inst.group(1) if inst else "", ["st", ms], True))
            i += 1

    def base(self, ty):
        if ty in self.structs:
            return self.structs[ty]
        if ty in GL_SCALAR:
            return ["s", GL_SCALAR[ty]]
        m = re.match(r"([iuf]?)(?:16)?vec([234])$", ty)
        if m:
            return ["v", int(m.group(2)), {"": "f32", "i": "i32", "u": "u32", "f": "f16"}[m.group(1)] if "16" not in ty else "f16"]
        m = re.match(r"(f16)?mat([234])x([234])$", ty)
        if m:
            return ["m", int(m.group(2)), int(m.group(3)), "f16" if m.group(1) else "f32"]
        m = re.match(r"(f16)?mat([234])$", ty)
        if m:
            return ["m", int(m.group(2)), int(m.group(2)), "f16" if m.group(1) else "f32"]
        raise ValueError("GLSL type not understood: %r" % ty)

    def member(self, decl):
        m = re.match(r"(\w+)\s+(\w+)((?:\[\d*\])*);$", decl)
        if not m:
            raise ValueError("GLSL member not understood: %r" % decl)
        t = self.base(m.group(1))
        dims = re.findall(r"\[(\d*)\]", m.group(3))
        # `T x[a][b]` is an array of a arrays of b: innermost dimension is the last
        for d in reversed(dims):
            t = ["rarr", t] if d == "" else ["arr", t, int(d)]
        return m.group(2), t

    def block_for(self, group, binding):
        inst = "_group_%d_binding_%d_" % (group, binding)
        for b in self.blocks:
            if b[2].startswith(inst):
                return b
        return None


# ----------------------------------------------------------------------------
# HLSL reader for constant buffers: struct definitions -> htype wire format
# (["s"] ["v",n] ["m",rows,cols] ["arr",h,n] ["st",[[is_pad,h],...]]) plus a parallel
# tag tree telling which structs are matCx2 typedefs (compared as leaves)

HL_SCALAR = {"float", "int", "uint"}


class Hlsl:
    def __init__(self, text):
        self.text = text
        self.defs = {}     # name -> (htype, tag)
        lines = text.splitlines()
        i = 0
        while i < len(lines):
            ln = lines[i].strip()
            m = re.match(r"typedef struct \{(.*)\}\s*(\w+);$", ln)
            if m:
                fs = [f.strip() for f in m.group(1).split(";") if f.strip()]
                hs = [self.field(f + ";") for f in fs]
                self.defs[m.group(2)] = (["st", [[False, h[1]] for h in hs]], "leaf")
                i += 1
                continue
            m = re.match(r"struct\s+(\w+)\s*\{$", ln)
            if m:
                name = m.group(1)
                fields = []
                tags = []
                i += 1
                broken = None
                while i < len(lines) and lines[i].strip() != "};":
                    decls = [d.strip() for d in lines[i].strip().split(";") if d.strip()]
                    for k, d in enumerate(decls):
                        try:
                            fname, h, tag = self.field(d + ";")
                        except ValueError as e:
                            # a struct that is not understood only matters if a cbuffer uses it
                            broken = str(e)
                            continue
                        pad = fname.startswith("_pad") or fname.startswith("_end_pad") or k > 0
                        if k > 0 and h != ["v", 2]:
                            raise ValueError("HLSL: unexpected multi-declaration line %r" % lines[i])
                        fields.append([pad, h])
                        tags.append("leaf" if (k == 0 and len(decls) > 1) else tag)
                    i += 1
                self.defs[name] = (["st", fields], ("st", tags)) if broken is None else broken
            i += 1

    def base(self, ty):
        if ty in self.defs:
            if isinstance(self.defs[ty], str):
                raise ValueError(self.defs[ty])
            return self.defs[ty]
        if ty in HL_SCALAR:
            return ["s"], "leaf"
        m = re.match(r"(float|int|uint)([234])$", ty)
        if m:
            return ["v", int(m.group(2))], "leaf"
        m = re.match(r"(float)([234])x([234])$", ty)
        if m:
            return ["m", int(m.group(2)), int(m.group(3))], "leaf"
        raise ValueError("HLSL type not understood: %r" % ty)

    def field(self, decl):
        m = re.match(r"(?:row_major\s+)?(\w+)\s+(\w+)((?:\[\d+\])*);$", decl)
        if not m:
            raise ValueError("HLSL member not understood: %r" % decl)
        h, tag = self.base(m.group(1))
        dims = re.findall(r"\[(\d+)\]", m.group(3))
        for d in reversed(dims):
            h = ["arr", h, int(d)]
            tag = ("arr", tag)
        return m.group(2), h, tag

    def cbuffer(self, var):
        m = re.search(r"cbuffer\s+%s_?\s*:[^{]*\{\s*([^}]*?)\s*\}" % re.escape(var), self.text)
        if not m:
            return None
        decls = [d.strip() for d in m.group(1).split(";") if d.strip()]
        fname, h, tag = self.field(decls[0] + ";")
        if len(decls) > 1:   # decomposed matCx2 at top level
            return ["st", [[k > 0, ["v", 2]] for k in range(len(decls))]], "leaf"
        return h, tag


def hl_to_lay(hl, tag):
    """result of the hlslcb op + tag tree -> layout tree over the real (non-padding) fields"""
    if tag == "leaf":
        return ["l", hl[1]]
    if hl[0] == "a":
        return ["a", hl[1], hl[2], hl_to_lay(hl[3], tag[1] if isinstance(tag, tuple) and tag[0] == "arr" else "leaf")]
    if hl[0] == "s":
        offs, subs = [], []
        for (pad, o, sub), t in zip(hl[2], tag[1]):
            if not pad:
                offs.append(o)
                subs.append(hl_to_lay(sub, t))
        return ["s", hl[1], offs, subs]
    return ["l", hl[1]]


def hl_continuations_ok(hl):
    """decomposed matCx2 columns: every continuation column sits 8 bytes after the previous one"""
    bad = []
    if hl[0] == "a":
        return hl_continuations_ok(hl[3])
    if hl[0] != "s":
        return bad
    prev = None
    for pad, o, sub in hl[2]:
        if pad and sub == ["l", 8] and prev is not None and prev[1] == ["l", 8]:
            if o != prev[0] + 8:
                bad.append((prev[0], o))
        bad += hl_continuations_ok(sub)
        prev = (o, sub)
    return bad


def lay_at(l, diff):
    """sub-layout of the member preceding the one named in a first_diff text '<path>.mJ: offset ..'"""
    mm = re.match(r"((?:\.m\d+|\[\])*)\.m(\d+): offset", diff or "")
    if not mm:
        return None
    for step in re.findall(r"\.m(\d+)|(\[\])", mm.group(1)):
        if step[1]:
            if l[0] != "a":
                return None
            l = l[3]
        else:
            if l[0] != "s":
                return None
            l = l[3][int(step[0])]
    j = int(mm.group(2))
    if l[0] != "s" or j == 0:
        return None
    return l[3][j - 1]


HLSL_ANY_CALL = re.compile(r"\b(\w+)\.(Store[234]?|Load[234]?)\s*(?:<[^>]*>)?\(\s*([0-9+ ]*)\s*[,)]")


def hlsl_copy_addresses(text, buf="sb"):
    """addresses of the loads of `var tmpv = sb.P;` (the only loads from the buffer in the
    generated programs) and of the stores of `sb.P = tmpv;` (every store after `tmpv = ..`)"""
    lines = text.splitlines()
    loads, stores = [], None
    for i, ln in enumerate(lines):
        for m in HLSL_ANY_CALL.finditer(ln):
            if m.group(1) == buf and m.group(3).strip():
                a = sum(int(x) for x in m.group(3).split("+"))
                if m.group(2).startswith("Load"):
                    loads.append(a)
                elif stores is not None:
                    stores.append(a)
        if re.match(r"\s*tmpv\s*=", ln) and stores is None:
            stores = []
    return loads, stores


def has_struct_span_not_16(l, root=True):
    """a structure strictly inside l whose span is not a multiple of 16"""
    if l[0] == "a":
        return has_struct_span_not_16(l[3], False)
    if l[0] == "s":
        if not root and l[1] % 16 != 0:
            return True
        return any(has_struct_span_not_16(x, False) for x in l[3])
    return False
