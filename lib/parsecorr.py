"""Correspondence of the parser model (coq/Parse/ParserModel.v, extracted tool `parsemodel`) with the
WGSL parser in /repo (harness/cmd/parsedrive: real lexer + real parser through the public API).

The model gets the REAL lexer's token list (kind numbers + lexemes) and returns the declarations in the
shape of the Go reflection dump (no positions) and every recorded error as token index; compared are
  accepted programs : the whole AST (Module.Declarations; the per-kind lists of Module must be its projections)
  rejected programs : the number of recorded errors and the token index of the first one
                      (naga reports line/column: looked up in the lexer's token list; a token produced by
                      splitting >> / >= / >>= sits one column after a lexer token).
Messages are never compared."""
import re

import gen
import nagarun
import vcheck

ERR_RE = re.compile(r"^parsing failed with (\d+) error\(s\): line (-?\d+), column (-?\d+): ", re.S)

def kind_names(tools):
    """token kind number -> Go constant name, read from /repo's token.go on every run"""
    (consts,) = gen.extract(tools, [{"kind": "consts", "file": "wgsl/internal/parser/token.go"}])
    return {int(v): n for n, v, t in consts if t == "TokenKind"}


def display_names(tools):
    """TokenKind.String() -> Go constant name (token.go tokenNames), e.g. ")" -> "TokenRightParen" """
    (rows,) = gen.extract(tools, [{"kind": "map", "file": "wgsl/internal/parser/token.go", "name": "tokenNames"}])
    return {v: k for k, v in rows}


FIXED_MESSAGES = {
    "expected parameter name": "param_name", "expected member name": "member_name", "expected variable name": "variable_name",
    "expected type": "type", "expected function name": "function_name", "expected struct name": "struct_name",
    "expected constant name": "const_name", "expected override name": "override_name", "expected alias name": "alias_name",
    "expected address space": "address_space", "expected extension name": "extension_name", "expected severity name": "severity_name",
    "expected diagnostic rule name": "rule_name", "expected 'case' or 'default'": "case_or_default",
}


def error_class(msg, dn):
    """class of a parser message in the model's vocabulary (ParseExtract.ekind_name), None when the format is not one of
    those transcribed from parser.go (then the class is simply not compared: wording is not part of the tie)"""
    if msg in FIXED_MESSAGES:
        return FIXED_MESSAGES[msg]
    if msg.startswith("unexpected token ") and msg.endswith(" in expression"):
        return "unexpected_expr"
    if msg.startswith("unexpected token ") and msg.endswith(", expected declaration"):
        return "unexpected_decl"
    if msg.startswith("expected ") and ", got " in msg:
        want = msg[len("expected "):].rsplit(", got ", 1)[0]
        if want in dn:
            return "expected:" + dn[want]
    return None


def impl_parse(tools, sources):
    """sources: list of str.  Results of parsedrive in order."""
    jobs = []
    for i, s in enumerate(sources):
        jobs.append({"id": i, "hex": s.encode("utf-8", "surrogateescape").hex()} if s else {"id": i, "src": ""})
    res = nagarun.parallel_batches(tools["parsedrive"], "parse", jobs, per_job_timeout=20.0, chunk=64)
    return [res.get(i, {"crash": "noresult"}) for i in range(len(sources))]


def canon(x, kn):
    """Go dump -> canonical form: token kinds (fields Op / Kind) by constant name"""
    if isinstance(x, dict):
        return {k: (kn.get(v, v) if k in ("Op", "Kind") and isinstance(v, int) else canon(v, kn)) for k, v in x.items()}
    if isinstance(x, list):
        return [canon(e, kn) for e in x]
    return x


TOO_DEEP = "<<too deep>>"   # harness/common/dump.go stops at depth 200


def first_diff(a, b, path="$"):
    if a == TOO_DEEP or b == TOO_DEEP:
        return None
    if type(a) != type(b):
        return "%s: %s vs %s" % (path, str(a)[:120], str(b)[:120])
    if isinstance(a, dict):
        for k in sorted(set(a) | set(b)):
            if k not in a or k not in b:
                return "%s.%s: only on one side" % (path, k)
            d = first_diff(a[k], b[k], path + "." + k)
            if d:
                return d
        return None
    if isinstance(a, list):
        if len(a) != len(b):
            return "%s: length %d vs %d" % (path, len(a), len(b))
        for i, (x, y) in enumerate(zip(a, b)):
            d = first_diff(x, y, "%s[%d]" % (path, i))
            if d:
                return d
        return None
    return None if a == b else "%s: %r vs %r" % (path, a, b)


def count_nodes(x, hist):
    if isinstance(x, dict):
        t = x.get("_t")
        if t:
            hist[t] = hist.get(t, 0) + 1
        for v in x.values():
            count_nodes(v, hist)
    elif isinstance(x, list):
        for e in x:
            count_nodes(e, hist)


def error_token_index(toks, line, col):
    """index of the token an error message points at; (index, split?)"""
    for i, t in enumerate(toks):
        if t[2] == line and t[3] == col:
            return i, False
    for d in (1, 2):     # the rest of a split >> / >= / >>= keeps the line and sits d columns further
        for i, t in enumerate(toks):
            if t[2] == line and t[3] == col - d and t[1] in (">>", ">=", ">>=") and len(t[1]) > d:
                return i, True
    return None, False


def compare(tools, exe, items, kn=None, stats=None, dn=None):
    """items: list of (tag, source text).  Returns (stats, mismatches); a mismatch is a dict
    {tag, what, src, key}.  stats counts what was compared."""
    kn = kn or kind_names(tools)
    dn = dn if dn is not None else display_names(tools)
    st = stats if stats is not None else {}
    st.setdefault("error_class_compared", 0)
    for k in ("compared", "accepted", "rejected", "lexer_rejected", "split_error_tokens", "model_tokens"):
        st.setdefault(k, 0)
    st.setdefault("constructs", {})
    st.setdefault("by_tag", {})
    st.setdefault("error_classes", {})
    mism = []
    impl = impl_parse(tools, [s for _t, s in items])
    todo = []
    for (tag, src), r in zip(items, impl):
        if "crash" in r or "panic" in r:
            mism.append({"tag": tag, "what": "parser crashed: %s" % (r.get("crash") or r.get("panic")), "src": src, "key": "crash"})
            continue
        if "toks" not in r:
            st["lexer_rejected"] += 1
            continue
        todo.append((tag, src, r))
    model = vcheck.run_model(exe, [{"toks": [[t[0], t[1]] for t in r["toks"]]} for _t, _s, r in todo]) if todo else []
    for (tag, src, r), m in zip(todo, model):
        st["compared"] += 1
        st["model_tokens"] += len(r["toks"])
        bt = st["by_tag"].setdefault(tag, {"accepted": 0, "rejected": 0})
        if not m.get("ok"):
            mism.append({"tag": tag, "what": "model returned %s (contradicts c10_parse_never_out_of_fuel / kind table)" % m.get("why"),
                         "src": src, "key": "model:" + str(m.get("why"))})
            continue
        if "ast" in r:
            st["accepted"] += 1
            bt["accepted"] += 1
            ast = canon(r["ast"], kn)
            if m["errs"]:
                mism.append({"tag": tag, "what": "naga accepts, model reports %d error(s), first at token %d (%s)" %
                             (len(m["errs"]), m["errs"][0][0], m["errs"][0][1]), "src": src, "key": "accept-vs-reject"})
                continue
            d = first_diff(ast.get("Declarations"), m["decls"])
            if d:
                mism.append({"tag": tag, "what": "AST differs (naga vs model) at " + d, "src": src, "key": "ast"})
                continue
            if r.get("proj"):
                mism.append({"tag": tag, "what": "Module.%s is not the projection of Declarations" % r["proj"], "src": src, "key": "projection"})
                continue
            if ast.get("Enables") or ast.get("Diagnostics"):
                mism.append({"tag": tag, "what": "Module.Enables/Diagnostics not empty (the model has no such lists)", "src": src, "key": "directives"})
                continue
            count_nodes(m["decls"], st["constructs"])
        else:
            st["rejected"] += 1
            bt["rejected"] += 1
            mo = ERR_RE.match(r.get("err", ""))
            if not mo:
                mism.append({"tag": tag, "what": "unreadable parse error: %r" % r.get("err", "")[:200], "src": src, "key": "errformat"})
                continue
            n, line, col = int(mo.group(1)), int(mo.group(2)), int(mo.group(3))
            idx, split = error_token_index(r["toks"], line, col)
            if split:
                st["split_error_tokens"] += 1
            if not m["errs"]:
                mism.append({"tag": tag, "what": "naga rejects (%d error(s), first at token %s), model accepts" % (n, idx),
                             "src": src, "key": "reject-vs-accept"})
                continue
            st["error_classes"][m["errs"][0][1]] = st["error_classes"].get(m["errs"][0][1], 0) + 1
            if idx is None:
                mism.append({"tag": tag, "what": "error position line %d column %d is not a token" % (line, col), "src": src, "key": "errpos"})
                continue
            cls = error_class(r["err"][mo.end():], dn)
            if cls is not None:
                st["error_class_compared"] += 1
            if m["errs"][0][0] == idx and len(m["errs"]) == n and cls is not None and cls != m["errs"][0][1]:
                mism.append({"tag": tag, "what": "first error at token %d is of class %s in naga, %s in the model" % (idx, cls, m["errs"][0][1]),
                             "src": src, "key": "error-class"})
                continue
            if m["errs"][0][0] != idx or len(m["errs"]) != n:
                mism.append({"tag": tag, "what": "errors differ: naga %d error(s), first at token %d; model %d, first at token %d (%s)" %
                             (n, idx, len(m["errs"]), m["errs"][0][0], m["errs"][0][1]), "src": src, "key": "error-index"})
    return st, mism


def lexemes_of(r):
    """lexemes and kind numbers of a parsedrive result, without the EOF token"""
    toks = r["toks"][:-1]
    return [t[1] for t in toks], [t[0] for t in toks]


def render_lines(lexemes):
    """one token per line: the lexer gives back the same tokens, token i on line i+1"""
    return "\n".join(lexemes)


def malformed(rng, lexemes, n):
    """n single-edit variants of a token list: one token deleted / inserted / replaced / duplicated,
    two neighbours swapped, the list cut short"""
    pool = ["(", ")", "{", "}", "[", "]", "<", ">", ">>", ">=", ";", ",", ":", ".", "=", "+", "-", "*", "@", "->",
            "if", "else", "fn", "var", "let", "const", "return", "default", "case", "x", "f32", "vec2", "array", "1", "1.0", "true",
            "++", "--", "+=", ">>=", "&&", "|", "&", "!", "bitcast", "binding_array", "ptr", "loop", "continuing", "break", "switch", "for"]
    out = []
    if not lexemes:
        return out
    for _ in range(n):
        ls = list(lexemes)
        k = rng.below(6)
        i = rng.below(len(ls))
        if k == 0:
            what = "delete"
            del ls[i]
        elif k == 1:
            what = "insert"
            ls.insert(i, rng.choice(pool))
        elif k == 2:
            what = "replace"
            ls[i] = rng.choice(pool)
        elif k == 3:
            what = "duplicate"
            ls.insert(i, ls[i])
        elif k == 4:
            what = "swap"
            if i + 1 < len(ls):
                ls[i], ls[i + 1] = ls[i + 1], ls[i]
        else:
            what = "truncate"
            ls = ls[:i]
        out.append((what, i, ls))
    return out


# ---------------------------------------------------------------------------------------------
# the leg run by checks/c19.py (and usable by c10/c11): builds the inputs, compares, reports

def leg_inputs(ctx, tools, kn):
    """(items for model-vs-naga comparison, [(edit kind, base index, edited index)] for AST invariance)"""
    import wgslgen
    import wgsltext as W
    rng = ctx.rng.fork("parsecorr")
    items = []
    corp = nagarun.corpus()
    for n, s in corp:
        items.append(("corpus", s))
    gens = []
    for i in range(ctx.scale(8, 150)):
        prog, _ = wgslgen.generate(rng.fork("gen%d" % i))
        gens.append(wgslgen.render(prog, reverse=(i % 2 == 0)))
        items.append(("generated", gens[-1]))
    for n, s in W.deep_inputs((30, 150) if not ctx.thorough else (100, 1000)):
        items.append(("deep", s))
    for i in range(ctx.scale(100, 3000)):
        items.append(("soup", W.token_soup(rng, 1 + rng.below(40))))
    for s in HAND:
        items.append(("hand", s))
    # neutral edits and single-token damage of the shorter corpus shaders and of the generated programs
    small = [s for _n, s in corp if len(s) < 5000]
    bases = rng.shuffle(small)[:ctx.scale(12, len(small))] + gens
    impl = impl_parse(tools, bases)
    pairs = []
    for src, r in zip(bases, impl):
        if "toks" not in r or "ast" not in r:
            continue
        lex, kinds = lexemes_of(r)
        knames = [kn.get(k, "?")[len("Token"):] for k in kinds]
        b = len(items)
        items.append(("base", render_lines(lex)))
        for rate in ((3,) if not ctx.thorough else (2, 5)):
            l2, ch = W.add_parens(lex, knames, rng, rate)
            if ch:
                pairs.append(("parens", b, len(items)))
                items.append(("parens", render_lines(l2)))
        l3, ch = W.add_trailing_commas(lex, rng)
        if ch:
            pairs.append(("trailing_comma", b, len(items)))
            items.append(("trailing_comma", render_lines(l3)))
        if len(lex) <= 900:
            for what, i, ls in malformed(rng, lex, ctx.scale(5, 40)):
                items.append(("malformed:" + what, render_lines(ls)))
            for _ in range(ctx.scale(1, 8)):
                items.append(("malformed:multi", render_lines(W.mutate_tokens(lex, rng))))
    return items, pairs


# parser corner cases read off parser.go (template-close splitting, optional pieces, error recovery)
HAND = [
    "var<private> a: array<vec2<f32>,2>=array<vec2<f32>,2>(vec2<f32>(1.0),vec2<f32>(2.0));",
    "var<private> a: array<i32, 1 << 1>=array<i32,2>(1,2);",
    "fn f() { var a: array<vec2<f32>,2>; a[0] = vec2<f32>(1.0); var b: array<array<vec2<f32>,2>,2>; }",
    "fn f() { var x: vec2<vec2<f32>>=vec2<vec2<f32>>(); let y = 1 >> 2; let z = x >= x; var w: array<i32,2>>=1; }",
    "fn f(p: ptr<function, vec2<f32>>) { let v = bitcast<vec2<u32>>(*p); let w = bitcast<u32>(1.0,); }",
    "fn f() { for (var i = 0; i < 4; i++) { continue; } for (;;) { break; } for (i = 1; ; i += 1) {} }",
    "fn f() { loop { if true { break; } continuing { x = 1; break if x > 2; } } loop { } while true { } }",
    "fn f() { switch x { case 1, 2: { } case 3, { } case default, 4: { } case 5, default { } default: { } default { } } }",
    "fn f() { a[0](1, 2); s.x(1).y; (f)(1); vec3<f32>(1)(2); array(1, 2)[0]; array<i32, 2>(1, 2); }",
    "fn f() { return; } fn g() -> @location(0) vec4<f32> { return vec4(1); } fn h() { return }",
    "@group(0) @binding(0) var<storage, read_write> s: array<atomic<u32>>; @group(0) @binding(1) var t: binding_array<texture_2d<f32>, 4>;",
    "enable f16; enable a, b,; diagnostic(off, derivative_uniformity); diagnostic(warning, a.b,); alias A = vec2<f32>;;; const_assert(1 < 2); const_assert 1 < 2;",
    "@compute @workgroup_size(8, 4 *) fn main() {}", "@vertex @ fn f() {}", "@ @vertex fn f() {}", "@ 1 @ @fragment fn f() {}", "@x(1)) fn f() {}",
    "fn f() { return } fn g() { return 1 } fn h() { return; }", "fn f() { break } fn g() { continue }", "fn f(a: i32,, b: i32) {}", "fn f(a) {} fn g(: i32) {}", "@location(0 fn f() {}", "@diagnostic(off, x) fn f() {}",
    "var<private x: i32;", "var<storage, read_write,> x: i32;", "var x: vec3<f32 = 1;", "override o: f32; @id(1) override p = 2;",
    "struct S { a: f32, b: i32 c: u32, }; struct T { @size(16) @align(8) a: f32 }", "struct S { a: f32; }", "let x = 1;", "const c: i32 = 1 fn f() {}",
    "fn f() { let x = ; } fn g() { let y = 1; }", "fn f() { x = 1 } fn g() {}", "fn f( { } struct S {}", "enable ; fn f() {}", "diagnostic(off x); fn f() {}",
    "fn f() { if x { } else if y { } else { } if (x) { } else }", "fn f() { { { } } } }", "fn f() { var v = -!~&*x; let y = - - 1; x++; y--; x >>= 1; x <<= 2; _ = 1; }",
    "fn f() { let t = true; let u = false; let a = 1 < 2 < 3; let b = 1 == 2 != 3; let c = a || b && c | d ^ e & f; }",
    "fn f() { for (var i = 0; i < 2; i++) { for (var j = 0 j < 2; j++) {} } let k = 1 }", "fn f() { for ({ } ; ; { }) { } }",
    "fn f() { const_assert 1 < 2; const c = 1; let l: i32 = 2; var v: i32; var<function> w = 1; }",
    "var<private> a: array<array<u32, (2) + 2>>; var<private> b: array<u32, (1 + 1)>; var<private> c: array<array<u32, 2>, (3)>;",
    "fn f() { var a: array<array<u32, (2) + 2>>=array<array<u32, 4>>(); var p: ptr<function, array<u32, 4>>=&a; var v: vec2<f32>=vec2<f32>(); }",
    "fn f() { let a = bitcast<vec2<u32>>(v); let b = bitcast<u32>=1; var<function>=1; let c = array<u32, 2 >> 1>(); let d = array<vec2<u32>>=1; }",
    "fn f() { var x: array<u32, f(1, (2))>; var y: array<u32, a[(1)]>; var z: array<u32, (a < b)>; var w: array<u32, a < b>; }",
    "fn f() { var m: mat2x2<f32>>=1; var n: atomic<u32>>>=2; var o: vec2<vec2<vec2<f32>>>; var q: vec2<vec2<vec2<f32>>>=1; x >>= 1; }",
    "alias A = array<vec2<f32>>; alias B = ptr<storage, array<vec4<f32>>, read_write>; alias C = binding_array<texture_2d<f32>>; alias D = binding_array<texture_2d<f32>>=1;",
    # renderings of coq/Parse/ParserTypes.v (`rend`): every constructor, closers cut as `>` `>` / `>>` / `>=` / `>>=`, trailing commas
    # where the parser takes them - and the spellings that are NOT renderings (`,` directly before `>>` / `>=`: expected type)
    "fn f() { var a: vec2<f32,>; var b: array<vec2<f32,>,>; var c: array<f32,>; var d: array<vec2<f32,> >; var e: ptr<function, vec2<f32>,>; var g: ptr<storage, array<f32, 2,>, read_write>; }",
    "fn f() { let p: ptr<function, vec2<f32>,>= &v; let q: ptr<function, array<vec2<f32>, N + 1,>>= &w; var r: array<array<f32,> >; var s: array<array<f32, (2) * K,>, f(1, 2)[0] - 1>; }",
    "alias A = array<array<mat2x2<f32>, 2,>, (K) * 2,>; alias B = ptr<private, atomic<u32>, read_write>; var<private> x: array<vec3<vec3<f32>>>= 1; var<private> y: array<vec3<vec3<f32> > >= 1;",
    "fn f() { var a: array<vec2<f32,>>; }", "fn f() { var v: vec2<f32,>= 1; }", "fn f() { var c: ptr<function, vec2<f32,>>; }", "fn f() { var c: array<array<f32,>>; }", "fn f() { var c: array<f32,>= 1; }",
    "fn f() { var v: vec2<f32,> = 1; var w: ptr<function, vec2<f32,> >; let z: array<atomic<u32>, 4 > = 1; let u: f32< 1; }",
    "", ";", ";;;", "fn", "@", "fn f()", "fn f() {", "fn f() { return 1", "struct", "var", "const_assert", "alias A =", "(", ")", "}",
]


def run_leg(ctx, tools, exe):
    """Compare model and implementation; report disagreements as violations.  Returns the stats."""
    import sys
    sys.setrecursionlimit(max(sys.getrecursionlimit(), 50000))   # ASTs of the deeply nested inputs
    kn = kind_names(tools)
    items, pairs = leg_inputs(ctx, tools, kn)
    st, mism = compare(tools, exe, items, kn)
    # C19 at the parser: a redundant pair of parentheses / a trailing comma leaves the AST itself unchanged
    inv = {"parens": 0, "trailing_comma": 0}
    if pairs:
        need = sorted({b for _k, b, _e in pairs} | {e for _k, _b, e in pairs})
        res = dict(zip(need, impl_parse(tools, [items[i][1] for i in need])))
        for kind, b, e in pairs:
            rb, re_ = res[b], res[e]
            if "ast" in rb and "ast" in re_:
                inv[kind] += 1
                d = first_diff(rb["ast"].get("Declarations"), re_["ast"].get("Declarations"))
                if d:
                    ctx.violation("edit '%s' changed the AST built by the parser at %s (contradicts c19_redundant_parens_same_ast / "
                                  "c19_trailing_comma_same_ast on the implementation)" % (kind, d),
                                  files={"before.wgsl": items[b][1], "after.wgsl": items[e][1]}, key="parser-ast:" + kind)
            elif ("ast" in rb) != ("ast" in re_):
                ctx.violation("edit '%s' changed acceptance by the parser" % kind,
                              files={"before.wgsl": items[b][1], "after.wgsl": items[e][1]}, key="parser-accept:" + kind)
    st["ast_invariance_pairs"] = inv
    st["mismatches"] = len(mism)
    seen = set()
    for m in mism:
        if m["key"] in seen:
            continue
        seen.add(m["key"])
        n = sum(1 for x in mism if x["key"] == m["key"])
        ctx.violation("parser model (coq/Parse/ParserModel.v) and wgsl/internal/parser/parser.go disagree on %d input(s) [%s], first (%s): %s"
                      % (n, m["key"], m["tag"], m["what"]), files={"input.wgsl": m["src"]},
                      key="parser-model:" + m["key"], broken="correspondence ParserModel.v vs parser.go (" + m["key"] + ")")
    return st


# ---------------------------------------------------------------------------------------------
# C11: witnesses of the `_refuted` theorems of Props/C11.v (Parse/ParserDiag.v), replayed on naga

REFUTED = [
    ("parser:unclosed_template_list", "c11_unclosed_template_list_refuted",
     "a template list that is never closed is compiled: `var v: vec3<f32 = vec3<f32>(1.0);`, `var<private x: i32;` "
     "(Parser.expect(TokenGreater) is silent in typeSpec's generic-parameter loop and in varDecl)",
     ["@compute @workgroup_size(1) fn main() { var v: vec3<f32 = vec3<f32>(1.0); }",
      "var<private x: i32;\n@compute @workgroup_size(1) fn main() { x = 1; }"]),
    ("parser:malformed_attribute_argument", "c11_malformed_attribute_argument_refuted",
     "a malformed attribute argument is silently dropped: `@workgroup_size(8, 4 *)` compiles as @workgroup_size(8) "
     "(attributes() discards the error of expression() and the closing parenthesis then matches)",
     ["@compute @workgroup_size(8, 4 *) fn main() {}", "@compute @workgroup_size(8 +) fn main() {}"]),
    ("parser:call_arguments_dropped", "c11_call_arguments_dropped_refuted",
     "call arguments after an expression that is neither a name nor a type are parsed and dropped, so `s.x(1, 2, nosuch)` and "
     "`a[0](1, 2)` compile (undeclared identifiers and calls of non-functions included): postfix() only keeps the arguments for "
     "*Ident and *ConstructExpr",
     ["struct S { x: f32 }\n@compute @workgroup_size(1) fn main() { var s: S; let y = s.x(1, 2, nosuch); }",
      "fn g(a: array<i32, 2>) -> i32 { return a[0](1, 2); }\n@compute @workgroup_size(1) fn main() { _ = g(array<i32, 2>(1, 2)); }"]),
]


def replay_refuted(ctx, tools):
    """Each witness must be rejected by naga (C11); one that still compiles is reported under a stable key."""
    jobs = []
    meta = {}
    for key, thm, what, srcs in REFUTED:
        for s in srcs:
            meta[len(jobs)] = (key, thm, what, s)
            jobs.append({"id": len(jobs), "src": s, "want": []})
    res = nagarun.parallel_batches(tools["c11drive"], "diag", jobs, chunk=50, per_job_timeout=10.0)
    out = []
    for i in range(len(jobs)):
        key, thm, what, s = meta[i]
        r = res.get(i) or {}
        accepted = (not r.get("stage")) and not r.get("compile_rejected") and "crash" not in r and "panic" not in r
        out.append({"key": key, "accepted": accepted})
        if accepted:
            ctx.violation("%s [theorem %s of Props/C11.v holds on the model; naga compiles the witness]" % (what, thm),
                          files={"input.wgsl": s}, key=key)
    return out
